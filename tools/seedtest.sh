#!/bin/bash
# usage: seedtest.sh <srcdir with patch.diff demo_test.go meta.json> <property> [check args]
# 1. confirms the seeded change in a scratch worktree (demo fails with it, passes without, package tests pass)
# 2. applies it to /repo, runs the property's quick check, reverts
set -u
SRC=$1; PROP=$2; shift 2
export GOFLAGS=-mod=mod GOPROXY=off
WT=/tmp/seedchk.$$
MODE=${MODE:-both}
if [ "$MODE" != check ]; then
git -C /repo worktree add -q --detach $WT HEAD || exit 2
PKG=$(python3 -c "import json;print(json.load(open('$SRC/meta.json'))['demo_package_dir'])")
cd $WT
if ! git apply --check $SRC/patch.diff 2>/dev/null; then echo "SEED patch does not apply to current HEAD"; git -C /repo worktree remove --force $WT; exit 2; fi
cp $SRC/demo_test.go $WT/$PKG/zz_seed_demo_test.go
echo "== demo WITHOUT change (must pass)"; (cd $WT && timeout 600 go test -count=1 -vet=off -run "Seed|Demo|TestC[0-9]" ./$PKG 2>&1 | tail -3)
git apply $SRC/patch.diff
echo "== build"; (cd $WT && go build ./... 2>&1 | tail -3)
echo "== demo WITH change (must fail)"; (cd $WT && timeout 600 go test -count=1 -vet=off -run "Seed|Demo|TestC[0-9]" ./$PKG 2>&1 | tail -4)
rm $WT/$PKG/zz_seed_demo_test.go
echo "== existing tests of $PKG with change (must pass)"; (cd $WT && timeout 900 go test -count=1 -vet=off ./$PKG 2>&1 | tail -2)
cd /; git -C /repo worktree remove --force $WT
fi
if [ "$MODE" = confirm ]; then exit 0; fi
echo "== my check on /repo with the change applied"
git -C /repo apply $SRC/patch.diff || exit 2
(cd /verif && timeout 1800 ./bin/gosym check "$@" $PROP quick 2>&1 | cut -c1-400 | head -20; echo "check exit=${PIPESTATUS[0]}")
git -C /repo checkout -- .
git -C /repo status --short | head -3
