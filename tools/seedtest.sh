#!/bin/bash
# usage: seedtest.sh <srcdir with patch.diff demo_test.go meta.json> <property> [check args]
# MODE=confirm|check|both (default both)
# confirm: in a scratch worktree of /repo's HEAD - the demo passes without the change, fails with it,
#          and the package's existing tests pass with it
# check:   the property's quick check is run against a scratch worktree with the change applied
#          (GOSYM_REPO); /repo and /verif/evidence are not touched
set -u
SRC=$1; PROP=$2; shift 2
export GOFLAGS=-mod=mod GOPROXY=off
WT=/tmp/seedchk.$$
MODE=${MODE:-both}
git -C /repo worktree add -q --detach $WT HEAD || exit 2
trap 'cd /; git -C /repo worktree remove --force $WT 2>/dev/null; rm -rf /tmp/seedev.$$' EXIT
PKG=$(python3 -c "import json;print(json.load(open('$SRC/meta.json'))['demo_package_dir'])")
cd $WT
if ! git apply --check $SRC/patch.diff 2>/dev/null; then echo "SEED patch does not apply to current HEAD"; exit 2; fi
if [ "$MODE" != check ]; then
cp $SRC/demo_test.go $WT/$PKG/zz_seed_demo_test.go
echo "== demo WITHOUT change (must pass)"; (cd $WT && timeout 600 go test -count=1 -vet=off -run "Seed|Demo|TestC[0-9]" ./$PKG 2>&1 | tail -3)
git apply $SRC/patch.diff
echo "== build"; (cd $WT && go build ./... 2>&1 | tail -3)
echo "== demo WITH change (must fail)"; (cd $WT && timeout 600 go test -count=1 -vet=off -run "Seed|Demo|TestC[0-9]" ./$PKG 2>&1 | tail -4)
rm $WT/$PKG/zz_seed_demo_test.go
echo "== existing tests of $PKG with change (must pass)"; (cd $WT && timeout 900 go test -count=1 -vet=off ./$PKG 2>&1 | tail -2)
else
git apply $SRC/patch.diff
fi
if [ "$MODE" = confirm ]; then exit 0; fi
echo "== my check against the worktree with the change applied"
(cd /verif && GOSYM_REPO=$WT GOSYM_EVIDENCE=/tmp/seedev.$$ timeout 1800 ${GOSYM_BIN:-./bin/gosym} check "$@" $PROP quick 2>&1 | cut -c1-400 | head -20; echo "check exit=${PIPESTATUS[0]}")
