#!/usr/bin/env python3
# saveseed.py <srcdir> <name> <detected: yes|no|after-strengthening> <by/notes>
import sys,json,shutil,os
src,name,det,notes=sys.argv[1:5]
dst='/verif/seeded/'+name
os.makedirs(dst,exist_ok=True)
for f in ('patch.diff','demo_test.go'):
    shutil.copy(os.path.join(src,f),dst)
m=json.load(open(os.path.join(src,'meta.json')))
m['confirmed_by_me']="tools/seedtest.sh: patch applies to /repo HEAD in a scratch worktree, builds, the package's existing tests pass with it, the demo test fails with it and passes without it"
m['detected']=det
m['detection_notes']=notes
json.dump(m,open(os.path.join(dst,'meta.json'),'w'),indent=1)
print('saved',dst)
