#!/usr/bin/env python3
import json,sys
r=json.load(sys.stdin)
print(r['harness'],'complete=',r['complete'],'paths',r['paths'],'merged',r.get('merged_leaves'),'q',r['queries'],'solver',round(r['solver_s'],1),'explore',round(r['explore_s'],1),'maxq',round(r['max_query_s'],2),'obl',r['discharged'],'/',r['obligations'])
if r.get('error'): print(' ERROR',r['error'])
for k,v in (r.get('unsupported') or {}).items(): print('  UNSUPP x%d %s'%(v,k))
for v in (r.get('violations') or []): print('  VIOL',v['kind'],v['what'],v['pos'],'known='+v.get('known','')); 
if '-v' in sys.argv:
    for v in (r.get('violations') or []): print(json.dumps(v.get('vector')))
print('  reached',list(r['reached']))
