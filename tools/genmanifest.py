#!/usr/bin/env python3
"""Regenerates /verif/MANIFEST.json from the table below (claims) and properties.jsonl."""
import json
props=[json.loads(l) for l in open('/verif/properties.jsonl')]
TECH="bounded symbolic execution of the real go/ssa code into SMT-LIB2 (z3 5.1), solver verdict per obligation, native replay of models"
NOTE="bounds per harness in the evidence file; single-threaded; environment models (opaque fmt strings, slog no-op, sync/atomic plain, time.Now nondet); go/ssa v0.50.0 and z3 trusted; counterexamples must reproduce natively before an alarm is raised"
CLAIMS={}
exec(open('/verif/tools/claims.py').read())
checks=[]
for p in props:
    c=CLAIMS.get(p['id'])
    if not c or not c.get('claimed'): continue
    checks.append({"property_id":p['id'],
      "quick_cmd":"cd /verif && ./bin/gosym check %s quick"%p['id'],
      "thorough_cmd":"cd /verif && ./bin/gosym check %s thorough"%p['id'],
      "evidence_file":"/verif/evidence/%s.json"%p['id'],
      "replay_cmd_template":"cd /verif && ./bin/gosym replay {path}",
      "engine":"gosym",
      "level_claimed":{"category":"model_checking","text":c['text'],"design_ref":"DESIGN.md section 4 / "+p['id']},
      "level_note":c.get('note',NOTE),
      "technique":c.get('technique',TECH)})
na=[{"property_id":p['id'],"reason":CLAIMS.get(p['id'],{}).get('reason',"check not built yet (engine under construction)")} for p in props if not CLAIMS.get(p['id'],{}).get('claimed')]
m={"version":1,
 "setup_cmd":"cd /verif/engine && GOFLAGS=-mod=mod GOPROXY=off GOSUMDB=off GOTOOLCHAIN=local PATH=/opt/veriftools/go1.26.8/bin:$PATH go build -o /verif/bin/gosym . && /verif/bin/gosym list >/dev/null",
 "hooks":{"guard":"verif","enable":"harnesses are injected through build overlays (go/packages Overlay for the encoder, go test -overlay for native replay, both with -tags=verif); /repo carries one hook: pkg/server/verif_hook_on.go (tag verif) / verif_hook_off.go (no-op) and a verifPoint(\"opensent.select\") call, used by the native replay of C07.collision to wait until both scripted events are pending","baseline_off_cmd":"cd /repo && go test -mod=mod -vet=off -count=1 -timeout 25m ./...","source_commits":["a66feb2"],"add_only":True},
 "engines":[{"name":"gosym","path":"/verif/engine","serves_properties":[c['property_id'] for c in checks],"kind_free_text":"forking symbolic executor over go/ssa of /repo's real code (regenerated from the working tree on every run), SMT-LIB2 queries to z3 5.1, native replay of solver models through go test -overlay"}],
 "checks":checks,
 "notes":"See DESIGN.md. Exit codes of gosym check: 0 = all obligations explored held (or match a known finding), 1 = replay-confirmed VIOLATION, 3 = infrastructure error (no verdict).",
 "not_applicable":na}
json.dump(m,open('/verif/MANIFEST.json','w'),indent=1)
print("claimed:",[c['property_id'] for c in checks])
