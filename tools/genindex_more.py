TBL="internal/pkg/table"
tc=["table/common.go"]
add("C11.v4size_one","VH_c11_v4size_one",TBL,tc+["table/c11.go"],expect_reach=["end"],bounds="one IPv4 route, attribute-set size 0..65535 symbolic, extended-message symbolic")
add("C11.v4size_three","VH_c11_v4size_three",TBL,tc+["table/c11.go"],expect_reach=["end"],bounds="three IPv4 routes sharing an attribute set of symbolic size 0..65535")
add("C11.equiv","VH_c11_equiv",TBL,tc+["table/c11.go"],{"k":3},{"k":4,"_":0},expect_reach=["end"],bounds="k route changes over 2 prefixes x 2 path-ids x {announce,withdraw} x 2 attribute sets, arbitrary prior receiver state, ADD-PATH symbolic")
add("C11.v6size","VH_c11_v6size",TBL,tc+["table/c11.go"],expect_reach=["end"],bounds="two IPv6 routes sharing an attribute set of symbolic size 0..65535, extended-message symbolic")
C3M=["table.c03less","table.c03refSteps","(*table.destination).insertSort$1","table.compareByLLGRStaleCommunity","table.compareByReachableNexthop","table.compareByLocalPref","table.compareByLocalOrigin","table.compareByASPath","table.compareByOrigin","table.compareByMED","table.compareByASNumber","table.compareByAge","table.compareByRouterID","table.compareByNeighborAddress","(*table.Path).GetAsPathLen","(*table.Path).IsLLGRStale","(*bgp.As4PathParam).ASLen","(*table.Path).GetLocalPref","(*table.Path).IsIBGP","(*table.Path).IsLocal","table.compareByMED$1","table.compareByMED$2","table.compareByMED$2$1","table.compareByMED$3","(*table.c03cand).aslen","table.c03medComparable","table.c03segLen","table.c03rid","table.c03ref"]
c3=tc+["table/c03.go"]
C3B="three selection options (one instance per combination), candidates with AS_PATH of 1 (quick) / 2 segments with symbolic types and 1-2 symbolic members, LOCAL_PREF/MED/ORIGIN/LLGR_STALE/next-hop validity/timestamp and source AS/local AS/router-id/address/confederation flag symbolic"
add("C03.total_pair","VH_c03_total_pair",TBL,c3,{"segs":1},{"segs":2},merge=C3M,expect_reach=["end"],bounds=C3B)
for o in range(8):
    for name,q,t in [("spec_pair",{"segs":1},{"segs":2}),("trans",{"segs":1},{"segs":2}),("insert_sorted",{"segs":1},{"segs":2}),("order",{"skip":True},{"params":{"segs":1,"orders":6},"harness_s":2400}),("multipath",{"segs":1},{"segs":2}),("multipath_nomed",{"segs":1},{"segs":2})]:
        add("C03.%s.o%d"%(name,o),"VH_c03_"+name,TBL,c3,q,t,merge=C3M+["table.c03order$1","(*table.Path).Compare"],expect_reach=["end"],pins={"opts":o},bounds=C3B)
add("C11.mp_withdraw_size","VH_c11_mp_withdraw_size",TBL,tc+["table/c11.go"],{"maxlen":4200},{"maxlen":66000},expect_reach=["end"],bounds="three MP (opaque family) withdrawals whose NLRI byte lengths are symbolic 2..maxlen each, extended-message symbolic")
add("C11.mp_nexthops","VH_c11_mp_nexthops",TBL,tc+["table/c11.go"],expect_reach=["end"],bounds="two IPv6 routes with identical attributes, each with one of 2 global and {none, 2} link-local next hops (36 combinations)")
c14=tc+["table/c14.go"]
add("C14.roundtrip","VH_c14_roundtrip",TBL,c14,{"segs":2,"maxn":3},{"params":{"segs":3,"maxn":2},"harness_s":3000},expect_reach=["end"],bounds="AS_PATH = optional leading confed segment (1-2 two-octet members) + segs SEQUENCE/SET segments of 1..maxn symbolic 32-bit members (quick 2 x 1..3, thorough 3 x 1..2)")
add("C14.pairs","VH_c14_pairs",TBL,c14,{"segs":2,"maxn":3},{"params":{"segs":3,"maxn":1},"harness_s":3000},expect_reach=["end"],bounds="AS_PATH of 1..segs segments (any of the 4 types, 1..maxn symbolic 16-bit members) x AS4_PATH of 1..segs segments (any type, 1..maxn symbolic members) (quick 2 segments x 1..3 members, thorough 3 segments x 1 member)")
add("C14.aggregator","VH_c14_aggregator",TBL,c14,expect_reach=["end"],bounds="every aggregator AS (32 bit) and address 10.0.0.x")
add("C14.boundary255","VH_c14_boundary255",TBL,c14,{"unwind":400},{"unwind":400},expect_reach=["end"],bounds="AS_PATH SEQ(n1) SEQ(n2) + AS4_PATH SEQ(n2), n1 in 99..101, n2 in 154..156 (totals 253..257), end members symbolic")
c10=tc+["table/c10.go","table/c14.go"]
C10B="route with symbolic MED/LOCAL_PREF/ORIGIN, 0..2 symbolic communities, AS_PATH of 1..2 members, symbolic source AS/local AS"
add("C10.flow","VH_c10_flow",TBL,c10,expect_reach=["end"],bounds="2 policies x 2 statements (MED-equality condition, MED +d action with symbolic operands, route action in {none,accept,reject}), default in {accept,reject}, both directions; "+C10B)
add("C10.conditions","VH_c10_conditions",TBL,c10,{"pairs":0},{"pairs":1},expect_reach=["end"],bounds="one (quick) / two (thorough) conditions out of 7 kinds with symbolic operands; "+C10B)
add("C10.actions","VH_c10_actions",TBL,c10,{"pairs":1},{"pairs":1},expect_reach=["end"],bounds="two modifications in sequence out of 6 kinds with symbolic operands; "+C10B)
add("C10.siblings","VH_c10_siblings",TBL,c10,expect_reach=["end"],bounds="stored route with communities / large / extended community slices of spare capacity 0..2, two per-peer copies each adding one symbolic member")
add("C10.aspath","VH_c10_aspath",TBL,c10,expect_reach=["end"],bounds="as-path sets of 2 members from 7 patterns (4 simple, 3 regular expressions), AS_SEQUENCE of 1..2 members from a pool of 4 ASNs, any/all/invert; Go's regexp engine runs natively on the concrete texts")
c04=["bgp/c04.go"]
for nm in ["attr_origin","attr_med_lp","attr_nexthop_ids","attr_aspath","attr_aggregator","attr_communities","attr_extcomm","nlri_ipv4","nlri_ipv6","nlri_labeled_vpn","update","mp","open","notification_refresh"]:
    add("C04."+nm,"VH_c04_"+nm,BGP,c04,{"unwind":200},{"unwind":200},expect_reach=["end"],merge=UM)
add("C04.attr_unknown","VH_c04_attr_unknown",BGP,c04,{"params":{"min":250,"max":260},"unwind":400},{"params":{"min":0,"max":300},"unwind":400},expect_reach=["end"],bounds="unknown attribute whose value has symbolic length min..max (around the 255 extended-length threshold), symbolic flags")
add("C04.fixpoint_update","VH_c04_fixpoint_update",BGP,c04,{"n":6},{"n":7},expect_reach=["end"],merge=UM,bounds="every accepted UPDATE body of up to n bytes, ADD-PATH symbolic")
add("C19.rtr_nopanic","VH_c19_rtr_nopanic","pkg/packet/rtr",["rtr/c19.go"],{"n":40},{"n":64},expect_reach=["ok","end"],bounds="any PDU buffer of 0..n bytes + 8 stale bytes")
add("C19.rtr_roundtrip","VH_c19_rtr_roundtrip","pkg/packet/rtr",["rtr/c19.go"],expect_reach=["end"],bounds="every constructible PDU: all field values symbolic; error report with 2..4-byte PDU and 0..3-byte text")
MRT="pkg/packet/mrt"
add("C19.mrt_header","VH_c19_mrt_header",MRT,["mrt/c19.go"],{"n":20},{"n":32},expect_reach=["ok","end"])
add("C19.mrt_split","VH_c19_mrt_split",MRT,["mrt/c19.go"],{"n":24},{"n":48},expect_reach=["token","end"],bounds="any data of 0..n bytes inside a buffer with 8 stale bytes of spare capacity")
for k in range(8):
    nq=[24,20,20,9,16,20,20,9][k]
    add("C19.mrt_body_tabledump.s%d"%k,"VH_c19_mrt_body_tabledump",MRT,["mrt/c19.go"],{"n":nq},{"n":(nq+2 if k in (1,2) else nq+4)},expect_reach=["end"],merge=UM,pins={"subtype":k},bounds="TABLE_DUMPv2 body of 0..n bytes, one of 8 subtypes incl. ADD-PATH variants per instance, header length symbolic")
add("C19.mrt_body_bgp4mp","VH_c19_mrt_body_bgp4mp",MRT,["mrt/c19.go"],{"n":24},{"n":44},expect_reach=["ok","end"],merge=UM)
add("C19.mrt_roundtrip","VH_c19_mrt_roundtrip",MRT,["mrt/c19.go"],expect_reach=["end"])
BMP="pkg/packet/bmp"
for nm,nq in [("initiation",12),("termination",12),("stats",14),("peerdown",10),("mirroring",10),("peerup",8),("monitoring",6)]:
    add("C19.bmp_"+nm,"VH_c19_bmp_"+nm,BMP,["bmp/c19.go"],{"n":nq},{"n":nq+6},expect_reach=["end"],merge=UM,bounds="BMP message of the named type: common header (+42-byte per-peer header) + 0..n body bytes + 8 stale bytes")
add("C19.bmp_anytype","VH_c19_bmp_anytype",BMP,["bmp/c19.go"],{"n":12},{"n":20},expect_reach=["end"])
add("C19.bmp_bodies_direct","VH_c19_bmp_bodies_direct",BMP,["bmp/c19.go"],{"n":10},{"n":16},expect_reach=["end"])
add("C19.bmp_split","VH_c19_bmp_split",BMP,["bmp/c19.go"],{"n":16},{"n":32},expect_reach=["token","end"])
add("C19.bmp_roundtrip","VH_c19_bmp_roundtrip",BMP,["bmp/c19.go"],{"unwind":400},{"unwind":400},expect_reach=["end"])
add("C19.bmp_noninterference","VH_c19_bmp_noninterference",BMP,["bmp/c19.go"],{"n":6},{"n":10},expect_reach=["end"],bounds="initiation/termination message of 6+0..n bytes copied into two buffers with different 8-byte stale tails")
ZB="pkg/zebra"
add("C19.zebra_header","VH_c19_zebra_header",ZB,["zebra/c19.go"],{"n":12},{"n":16},expect_reach=["ok","end"])
for nm,nq in [("if",24),("ifaddr",20),("rid",20),("nhupd",16),("redist",12),("route",9),("lmconn",12),("chunk",16),("vrflbl",12),("lookup",12),("rawcmd",6)]:
    # redist: beyond 16 bytes the decoder reaches a nexthop list the engine cannot represent (symbolic index into a
    # slice of structs): its thorough bound stays below that
    add("C19.zebra_body_"+nm,"VH_c19_zebra_body_"+nm,ZB,["zebra/c19.go"],{"n":nq},{"n":(nq+4 if nm=="redist" else nq+8)},expect_reach=["end"],bounds="ZAPI body of 0..n bytes (+8 stale) for the named command, 8 (protocol version, software flavour) pairs covering versions 2..6")
c02=tc+["table/c02.go","table/c03.go","table/c14.go"]
add("C02.locrib_step","VH_c02_locrib_step",TBL,c02,{"params":{"steps":3,"segs":1},"unwind":300},{"params":{"steps":4,"segs":1},"unwind":300},merge=C3M,expect_reach=["end"],bounds="histories of `steps` operations (announce/withdraw, dropped or not) on one destination from 3 sources x 2 path-ids, LOCAL_PREF and timestamps symbolic")
add("C02.adj_step","VH_c02_adj_step",TBL,c02,{"params":{"steps":2,"segs":1},"unwind":2200},{"params":{"steps":3,"segs":1},"unwind":2200,"harness_s":2400},expect_reach=["end"],bounds="histories of `steps` Adj-RIB-In updates over 2 prefixes x 2 path-ids, withdraw and rejected flags symbolic")
add("C02.snapshot_independent","VH_c02_snapshot_independent",TBL,c02,{"params":{"segs":1},"unwind":2200},{"params":{"segs":1},"unwind":2200},merge=C3M,expect_reach=["end"])
c09=tc+["table/c09.go","table/c14.go"]
add("C09.export","VH_c09_export",TBL,c09,expect_reach=["end"],bounds="stored route: local or learned (symbolic source AS), AS_PATH of 5 shapes (none, SEQ of 1-2, CONFED_SEQ+SEQ, SET+SEQ) with symbolic ASNs, symbolic next hop, presence of MED/LOCAL_PREF/ORIGINATOR_ID/CLUSTER_LIST symbolic, one unknown attribute transitive or not; target: eBGP, eBGP confederation member, iBGP, RR client, RS client")
add("C09.private_replace","VH_c09_private_replace",TBL,c09,expect_reach=["end"])
SRV="pkg/server"
sc=["server/common.go"]
add("C09.filterpath","VH_c09_filterpath",SRV,sc+["server/c09.go"],expect_reach=["end"],bounds="target eBGP or iBGP (RR client or not) with symbolic AS; route from another peer (symbolic AS, RR client or not) or from the same router; AS_PATH of 3 shapes (SEQ, SEQ+SET, CONFED_SEQ+SEQ) with symbolic ASNs")
c13=tc+["table/c13.go"]
NPAT=27
for k in range(NPAT):
    add("C13.single.p%02d"%k,"VH_c13_single",TBL,c13,{"unwind":70000},{"unwind":70000},expect_reach=["end"],pins={"pat":k},bounds="one pattern of the pool (index in the id), one community with all 2^32 values symbolic, any/all/invert")
for k in range(10):
    add("C13.pair.q%d"%k,"VH_c13_pair",TBL,c13,{"params":{"ncomm":1},"unwind":70000},{"params":{"ncomm":2},"unwind":70000,"harness_s":2400},expect_reach=["end"],pins={"pair":k},bounds="a two-pattern set, 1 (quick) / 2 symbolic communities, any/all/invert")
    add("C13.edit.q%d"%k,"VH_c13_edit",TBL,c13,{"unwind":70000},{"unwind":70000},expect_reach=["end"],pins={"pair":k},bounds="Append / Append+Remove / Replace on a one-pattern set, then one symbolic community")
for k in range(12):
    add("C13.ext.s%02d"%k,"VH_c13_ext",TBL,c13,{"params":{"lamax":999999},"unwind":70000},{"params":{"lamax":0},"unwind":70000,"harness_s":2400},expect_reach=["end"],pins={"set":k},symbolic_text=True,bounds="one ext-community set of the pool (1-2 patterns), one two-octet-AS community with symbolic sub-type (rt/soo), AS (16 bit), local admin (32 bit) and transitivity, any/all/invert")
for k in range(4):
    add("C13.ext_edit.s%d"%k,"VH_c13_ext_edit",TBL,c13,{"params":{"lamax":999999},"unwind":70000},{"params":{"lamax":0},"unwind":70000,"harness_s":2400},expect_reach=["end"],pins={"set":k},symbolic_text=True)
c16=tc+["table/c16.go","table/c14.go"]
for rp in range(6):
  for op in range(4):
    add("C16.validate6.r%d.o%d"%(rp,op),"VH_c16_validate",TBL,c16,({"roas":2,"v6":1} if (rp+op)%3==0 else {"skip":True}),{"params":{"roas":2,"v6":1},"harness_s":2400},expect_reach=["end"],pins={"route_pfx":rp,"op":op},bounds="IPv6: 2 ROAs over 4 nested/unrelated IPv6 prefixes (/32 > /48 > /64, other /48) with symbolic max-length up to 128, AS and cache; one maintenance operation; route over 6 prefixes; 8 of the 24 (route, operation) instances in the quick tier")
    add("C16.validate.r%d.o%d"%(rp,op),"VH_c16_validate",TBL,c16,{"roas":2,"v6":0},{"params":{"roas":3,"v6":0},"harness_s":6000},expect_reach=["end"],pins={"route_pfx":rp,"op":op},bounds="`roas` ROAs over 4 nested/unrelated IPv4 prefixes with symbolic max-length (valid range), AS (incl. 0) and one of 2 caches; one maintenance operation (none / withdraw announced / withdraw unknown / drop cache); route over 6 prefixes with 5 AS_PATH shapes and symbolic origin / local AS")
add("C16.rtr_sessions","VH_c16_rtr_sessions",SRV,sc+["server/c16.go"],expect_reach=["end"],bounds="one cache: full response (2 records), incremental withdraw of a known or unknown record and re-announcement, second full response under the same or a different session id (session ids, serials and AS numbers symbolic)")
c17=tc+["table/c17.go","table/c02.go","table/c03.go","table/c14.go"]
add("C17.key_injective","VH_c17_key_injective",TBL,c17,{"segs":1},{"segs":1},expect_reach=["end"],bounds="two route targets of the three kinds (two-octet AS, IPv4, four-octet AS) with symbolic sub-type, transitivity, global and local admin")
add("C17.import","VH_c17_import",TBL,c17,{"segs":1},{"segs":1},expect_reach=["end"],bounds="VRF with 2 import targets, route with 2 extended communities, all of the three kinds with symbolic fields incl. non-transitive ones")
add("C17.membership","VH_c17_membership",TBL,c17,{"steps":3,"segs":1},{"steps":4,"segs":1},expect_reach=["end"],bounds="histories of `steps` membership announcements/withdrawals over 2 targets + default x 2 origin AS x 2 path-ids")
add("C17.vpn_index","VH_c17_vpn_index",TBL,c17,{"steps":3,"segs":1},{"steps":4,"segs":1},expect_reach=["end"])
add("C17.delete_vrf","VH_c17_delete_vrf",TBL,c17,{"params":{"segs":1},"unwind":2200},{"params":{"segs":1},"unwind":2200},merge=C3M,expect_reach=["end"])
c06=["bgp/c06.go"]
add("C06.strongest_one","VH_c06_strongest",BGP,c06,{"two":0},{"two":0},merge=UM,expect_reach=["clean","end"],bounds="valid base UPDATE (ORIGIN, AS_PATH, NEXT_HOP, MED, one /16 NLRI, values symbolic) with one fault of a 14-entry catalogue, fault parameters symbolic, eBGP/iBGP symbolic")
add("C06.strongest_two","VH_c06_strongest",BGP,c06,{"two":1},{"two":1},merge=UM,expect_reach=["end"],bounds="the same base UPDATE with every compatible unordered pair of faults of the catalogue")
add("C06.treat_as_withdraw","VH_c06_treat_as_withdraw",TBL,tc+["table/c06.go","table/c02.go","table/c03.go","table/c14.go"],{"segs":1},{"segs":1},expect_reach=["end"],bounds="UPDATE naming 5 prefixes (2 NLRI, 1 withdrawn, 1 MP_REACH, 1 MP_UNREACH) with symbolic address bytes, treat-as-withdraw symbolic")
add("C06.handling_error","VH_c06_handling_error",SRV,sc+["server/c06.go","server/c06cat.go"],expect_reach=["end"],bounds="every error class x message type x revised error handling on/off")
for two in (0,1):
    add("C06.recvloop_%s"%("two" if two else "one"),"VH_c06_recvloop",SRV,sc+["server/c06.go","server/c06cat.go"],{"two":two},{"two":two},merge=UM,expect_reach=["install","withdraw","reset"],bounds="the real recvMessageloop reading one UPDATE (base + %s catalogue fault(s)) from a scripted transport; eBGP/iBGP x revised error handling on/off"%("two" if two else "one"))
add("C02.server_history","VH_c02_server_history",SRV,sc+["server/c02.go"],{"params":{"steps":2},"unwind":2200},{"params":{"steps":3},"unwind":2200},expect_reach=["installed","looped"],bounds="real BgpServer.handleFSMMessage, one eBGP peer, one prefix, every history of 2 (quick) / 3 UPDATEs over {clean announce (symbolic AS), looped announce, withdraw}")
add("C01.server_fanout","VH_c01_server_fanout",SRV,sc+["server/c01.go","server/c07.go"],{"params":{"steps":2},"unwind":2200},{"params":{"steps":3},"unwind":2200},expect_reach=["advertised","empty","reflected"],bounds="real BgpServer.handleFSMMessage; 5 established peers (eBGP source, iBGP source, eBGP target, iBGP target, route-reflector client), one prefix, every history of 2 (quick) / 3 UPDATEs (source, announce with symbolic AS / withdraw); observed at each peer's outgoing queue")
add("C01.server_addpath","VH_c01_server_addpath",SRV,sc+["server/c01.go","server/c07.go"],{"params":{"steps":4,"sources":2,"sendmax":1},"unwind":2200},{"params":{"steps":5,"sources":3,"sendmax":2},"unwind":2200,"harness_s":3000},expect_reach=["advertised","held_back"],bounds="real BgpServer.handleFSMMessage; `sources` eBGP sources and one ADD-PATH-send target with send-max `sendmax`, one prefix, every history of `steps` announce/withdraw events")
C08B="real fsm.stateChange(Established)/open2Cap: "
add("C08.timers","VH_c08_negotiate",SRV,sc+["server/c08.go"],{"tuples":0,"aspect":1},{"tuples":0,"aspect":1},expect_reach=["end"],bounds=C08B+"local hold 0|3..65535, local keepalive 0..65535, remote hold 0|3..65535 (floating point decided in the SMT FloatingPoint theory)")
add("C08.families","VH_c08_negotiate",SRV,sc+["server/c08.go"],{"tuples":2,"aspect":2},{"tuples":3,"aspect":2},expect_reach=["end","addpath"],bounds=C08B+"2 families configured on/off with ADD-PATH send/receive per family x received OPEN with MP capability per family or none and `tuples` ADD-PATH tuples (symbolic family and mode, in one or two capabilities)")
add("C08.as_ext","VH_c08_negotiate",SRV,sc+["server/c08.go"],{"tuples":0,"aspect":4},{"tuples":0,"aspect":4},expect_reach=["end"],bounds=C08B+"remote AS 1..2^32-1 (AS_TRANS when above 65535), peer AS configured or not, 4-octet AS and extended message capabilities on/off, flags left by the previous session symbolic")
add("C08.max_length","VH_c08_max_length",SRV,sc+["server/c08.go"],expect_reach=["too_large","accepted"],bounds="real recvMessageWithError on every header (type 0..255, length 0..65535) x Extended Message negotiated or not; the body read is cut short (connection ends after the header)")
C07B="one step of the real fsmHandler.%s on a scripted transport and the virtual clock: every event of {valid OPEN, OPEN with bad version / peer AS / identifier / hold time 1-2, KEEPALIVE, UPDATE, NOTIFICATION, header with bad marker byte / length / type, connection closed by the peer, silence until the hold timer} with symbolic field values"
add("C07.opensent","VH_c07_opensent",SRV,sc+["server/c07.go"],expect_reach=["openconfirm","fsm_error","closed","hold_expired","refused"],bounds=C07B%"opensent")
add("C07.openconfirm","VH_c07_openconfirm",SRV,sc+["server/c07.go"],expect_reach=["established","fsm_error","hold_expired","refused"],bounds=C07B%"openconfirm")
add("C07.dominant","VH_c07_dominant",SRV,sc+["server/c07.go"],expect_reach=["end"],bounds="fsm.isDominant for every pair of BGP identifiers and AS numbers (2- and 4-octet)")
add("C07.established","VH_c07_established",SRV,sc+["server/c07.go"],expect_reach=["hold_expired","notification","refused","closed","admin_down","prefix_limit"],bounds="one step of the real fsmHandler.established with its receive and send goroutines (cooperative schedule) on a scripted transport and the virtual clock: every event of {KEEPALIVE, UPDATE, NOTIFICATION (any code 1..6 / subcode), OPEN, header with bad marker / length / type, connection closed by the peer, silence, administrative shutdown, prefix-limit shutdown} followed by silence x graceful restart / N bit negotiated or not; hold time 3 s")
add("C07.idle","VH_c07_idle",SRV,sc+["server/c07.go"],expect_reach=["active"],bounds="the real fsmHandler.idle for each admin state (up, down, prefix-limit shutdown), idle hold time 1..2 s; paths on which the handler never returns end unobserved")
add("C07.server_guards","VH_c07_server_guards",SRV,sc+["server/c07.go"],{"params":{"updates":2},"unwind":2200},{"params":{"updates":3},"unwind":2200},expect_reach=["ignored","limit","installed"],bounds="real BgpServer.handleFSMMessage with the peer in each of the 6 states, message older than the session or not, prefix limit 0..2, `updates` UPDATEs for distinct prefixes")
add("C12.gr_cycle","VH_c12_gr_cycle",SRV,sc+["server/c12.go","server/c07.go"],{"params":{},"unwind":4200},{"params":{},"unwind":4200},fixed_clock=True,expect_reach=["dropped","timer_expired","all_eor","waiting"],bounds="real BgpServer.handleFSMMessage / fsm.stateChange over a full cycle: session with 2 families and a symbolic subset of them in the peer's GR capability; 1 route per family + End-of-RIB; graceful or non-graceful loss; then restart-timer expiry, or re-establishment with symbolic partial re-announcement and End-of-RIB per family")
add("C12.loss_classification","VH_c07_established",SRV,sc+["server/c07.go"],expect_reach=["hold_expired","notification","closed","admin_down"],bounds="classification of the loss reason by the real fsmHandler.established / recvMessageloop: every event x graceful restart / N bit negotiated or not (see C07.established)")
API="pkg/apiutil"
add("C18.attrs","VH_c18_attrs",API,["apiutil/c18.go"],expect_reach=["end"],bounds="MarshalPathAttributes -> UnmarshalPathAttributes, one attribute of each of 17 kinds (ORIGIN .. PMSI tunnel, 4 extended-community kinds, unknown attribute) with symbolic numeric fields; addresses concrete")
add("C18.nlri","VH_c18_nlri",API,["apiutil/c18.go"],expect_reach=["end"],bounds="MarshalNLRI -> UnmarshalNLRI for IPv4/IPv6 prefix, labelled, VPNv4 (symbolic RD and label), FlowSpec IPv4 (symbolic operator/value) and IPv6 (symbolic offsets), RT membership (symbolic AS and target); prefixes concrete")
add("C18.caps","VH_c18_caps",API,["apiutil/c18.go"],expect_reach=["end"],bounds="MarshalCapability -> unmarshalCapability for 8 capability kinds with symbolic fields")
C18S="table.NewAPIPolicyFromTableStruct -> newStatementFromApiStruct for a statement: "
add("C18.statement_actions","VH_c18_statement_roundtrip",SRV,sc+["server/c18.go"],expect_reach=["end"],pins={"aspath_len_op":1,"community_count_op":0,"origin_eq":0,"set_origin":0},bounds=C18S+"3 dispositions x MED action from a listed set of 8 texts x AS prepend (none / 3 texts x symbolic repeat) x symbolic LOCAL_PREF action and numeric conditions; origin fields and comparison operators fixed")
add("C18.statement_conditions","VH_c18_statement_roundtrip",SRV,sc+["server/c18.go"],expect_reach=["end"],pins={"disposition":1,"med":0,"prepend_as":0},bounds=C18S+"AS_PATH length and community count conditions (4 operators each x symbolic value) x ORIGIN condition (4) x ORIGIN action (4) x symbolic LOCAL_PREF / MED conditions; other actions fixed")
add("C17.server_rtc","VH_c17_server_rtc",SRV,sc+["server/c17.go"],{"params":{"steps":2,"targets":1,"import_policy":0},"unwind":2200},{"params":{"steps":3,"targets":1,"import_policy":0},"unwind":2200,"harness_s":3000},expect_reach=["advertised","withheld"],fixed_clock=True,bounds="real BgpServer.handleFSMMessage/processRTCMembership: one VPN route with one target learned before or after a history of 2 (quick) / 3 membership announcements/withdrawals from an RTC peer (target of the route, an unrelated one or the default membership; 2 origin AS values)")
add("C17.server_rtc_full","VH_c17_server_rtc",SRV,sc+["server/c17.go"],{"params":{"steps":2,"targets":2,"import_policy":1},"unwind":2200,"harness_s":600},{"params":{"steps":3,"targets":2,"import_policy":1},"unwind":2200,"harness_s":3000},expect_reach=["advertised","withheld"],fixed_clock=True,bounds="as C17.server_rtc with the route carrying no, one or two targets, memberships for either target, an unrelated one or the default, an import policy with a modifying action and an optional soft reset in before the memberships; histories of 2 (quick) / 3 membership events")
C15B="metamorphic: old policy + 2 routes (AS_PATH length 1..3 each) + policy replaced + soft reset %s versus a fresh real BgpServer under the new policy; policies = one statement 'AS_PATH length eq/ge/le symbolic threshold -> reject | accept and set attribute' or none, default accept; Loc-RIB and the target's view compared, reset repeated"
for d,exp in (("in",0),("out",1),("refresh",2)):
    for o in range(4):
        for n in range(4):
            if o==0 and n==0: continue
            q={"params":{"export":exp,"routes":1,"addpath":0},"unwind":2200,"harness_s":600}
            if (o,n) not in ((0,2),(2,0),(1,3),(3,2)): q["skip"]=True
            add("C15.soft_reset_%s.o%dn%d"%(d,o,n),"VH_c15_soft_reset",SRV,sc+["server/c15.go"],q,{"params":{"export":exp,"routes":2,"addpath":0},"unwind":2200,"harness_s":1800},expect_reach=["end"],fixed_clock=True,pins={"old_op":o,"new_op":n},bounds=C15B%(["in (import policy)","out (export policy)","replaced by a ROUTE-REFRESH from the peer (export policy)"][exp])+"; this instance: old operator %d, new operator %d (0 = no policy); quick tier: 1 route and 4 of the 15 operator pairs per direction"%(o,n))
add("C01.server_flaps","VH_c01_server_flaps",SRV,sc+["server/c01.go","server/c07.go"],{"params":{"steps":3},"unwind":4200,"harness_s":600},{"params":{"steps":4},"unwind":4200,"harness_s":2400},expect_reach=["advertised","source_lost"],fixed_clock=True,bounds="real BgpServer.handleFSMMessage incl. its PeerDown and Established (initial table transfer) branches and fsm.stateChange: 2 eBGP sources and 1 eBGP target, one prefix, every history of 3 (quick) / 4 events over {announce (symbolic AS) / withdraw from either source, loss of a source's session, flap of the target's session}")
for asp,nm in ((1,"timers"),(2,"caps")):
    add("C08.open_sent_"+nm,"VH_c08_open_sent",SRV,sc+["server/c08.go"],{"aspect":asp},{"aspect":asp},expect_reach=["end"],bounds="real buildopen / capabilitiesFromConfig / capAddPathFromConfig: local AS 1..2^32-1; "+("hold time 0..65535 symbolic (float64 round trip in the FP theory), capabilities fixed" if asp==1 else "2 families on/off, ADD-PATH receive/send per family, graceful restart on/off per family, restart time symbolic; hold 90")+"; the OPEN is serialised and re-parsed")
add("C07.collision","VH_c07_collision",SRV,sc+["server/c07.go"],expect_reach=["kept_outgoing","kept_incoming"],bounds="real fsmHandler.opensent with an OPEN on the incoming connection and a completed active open queued at the same time; both orders in which select may serve them; last octet of both BGP identifiers symbolic (local AS below the remote AS)")
add("C18.api_path","VH_c18_api_path",SRV,sc+["server/c18api.go"],{"params":{},"unwind":2200},{"params":{},"unwind":2200},expect_reach=["end"],fixed_clock=True,bounds="BgpServer.AddPath / ListPath / DeletePath with the real management loop (Serve) as a cooperative goroutine: one IPv4 route with symbolic ORIGIN, MED, community and optional AS_PATH; one established eBGP peer observed at its outgoing queue")
add("C15.sequence","VH_c15_sequence",SRV,sc+["server/c15.go"],{"params":{"steps":2,"routes":1,"addpath":0},"unwind":2200,"harness_s":600},{"params":{"steps":3,"routes":1,"addpath":0},"unwind":2200,"harness_s":1800},expect_reach=["end"],fixed_clock=True,bounds="export policy switched 2 (quick) / 3 times between accept-all and reject-all, each switch followed by a soft reset out or a ROUTE-REFRESH (all combinations); final view versus a fresh server under the final policy")
add("C15.soft_reset_in_addpath","VH_c15_soft_reset",SRV,sc+["server/c15.go"],{"params":{"export":0,"routes":1,"addpath":1},"unwind":2200,"harness_s":600},{"params":{"export":0,"routes":2,"addpath":1},"unwind":2200,"harness_s":1800},expect_reach=["end"],fixed_clock=True,pins={"old_op":2,"new_op":0},bounds=C15B%"in (import policy)"+"; the source negotiated ADD-PATH receive and each prefix has an earlier path (other identifier) rejected for an AS loop stored in front of the usable one; old policy 'length ge threshold', new policy none")
add("C15.defined_set","VH_c15_defined_set",SRV,sc+["server/c15.go"],{"params":{"routes":2,"addpath":0},"unwind":2200,"harness_s":600},{"params":{"routes":2,"addpath":0},"unwind":2200,"harness_s":1800},expect_reach=["end"],fixed_clock=True,bounds="import policy 'reject the prefixes of prefix set ps1'; the set (any non-empty subset of 2 prefixes) is replaced by another through RoutingPolicy.AddDefinedSet(replace), then soft reset in; 2 routes; versus a fresh server configured with the new set")
add("C12.llgr","VH_c12_llgr",SRV,sc+["server/c12.go","server/c07.go"],{"params":{},"unwind":4200,"harness_s":600},{"params":{},"unwind":4200,"harness_s":1200},expect_reach=["end"],fixed_clock=True,bounds="real handleFSMMessage long-lived GR branch, markLLGRStale / postFilterpath, the per-family timer goroutines and the real management loop (cooperative schedule, virtual clock): IPv4 always and IPv6 symbolically in the peer's LLGR capability, long-lived time 1..2 s, 3 routes (plain, NO_LLGR, IPv6), one LLGR-capable and one plain observer peer")
add("C07.hold_restart","VH_c07_hold_restart",SRV,sc+["server/c07.go"],expect_reach=["end"],bounds="real fsmHandler.established with its receive and send goroutines on the virtual clock: a KEEPALIVE or UPDATE arriving 1..2 s into the session, then silence; hold time 3 s, keepalive interval 1 s")
add("C02.server_sources","VH_c02_server_sources",SRV,sc+["server/c02.go"],{"params":{"steps":2},"unwind":4200,"harness_s":600},{"params":{"steps":3},"unwind":4200,"harness_s":2400},expect_reach=["two","ended"],fixed_clock=True,bounds="real BgpServer.handleFSMMessage / deleteNeighbor: 2 eBGP sources, one prefix, every history of 2 (quick) / 3 events over {announce (AS_PATH length 1..2, symbolic second AS incl. the local AS), withdraw, session lost, peer deleted} x source")

# ---- thorough tiers of the history harnesses are split into instances pinned on the first choice
def split_thorough(base_id, pin, n):
    base=[h for h in H if h["id"]==base_id][0]
    t=base["tiers"]["thorough"]
    for k in range(n):
        h=json.loads(json.dumps(base))
        h["id"]="%s.%s%d"%(base_id,pin.split("#")[0][0],k)
        h["tiers"]={"quick":{"skip":True},"thorough":t}
        h["pins"]=dict(h.get("pins") or {}); h["pins"][pin]=k
        h["bounds"]=h.get("bounds","")+"; thorough-tier instance with the first %s pinned to %d"%(pin.split("#")[0],k)
        h["expect_reach"]=[]  # reachability of the marks is witnessed by the unpinned quick-tier instance
        H.append(h)
    base["tiers"]["thorough"]={"skip":True}
split_thorough("C01.server_flaps","event#0",6)
split_thorough("C01.server_addpath","source#0",3)
split_thorough("C02.server_sources","event#0",4)
split_thorough("C17.server_rtc","origin_as#0",2)
split_thorough("C17.server_rtc_full","membership_target#0",4)
add("C02.best_stream","VH_c02_best_stream",SRV,sc+["server/c02.go"],{"params":{"steps":2},"unwind":4200,"harness_s":600},{"params":{"steps":3},"unwind":4200,"harness_s":2400},expect_reach=["matches","empty"],fixed_clock=True,bounds="real BgpServer.watch(WatchBestPath) with the management loop and the watcher's pump goroutine (cooperative schedule): 2 eBGP sources x 2 prefixes, every history of 2 (quick) / 3 events over {announce (AS_PATH length 1..2), withdraw, session lost}; notifications applied in order versus GetBestPathList")
split_thorough("C02.best_stream","source#0",2)
add("C12.deferral","VH_c12_deferral",SRV,sc+["server/c12.go","server/c07.go"],{"params":{},"unwind":4200,"harness_s":600},{"params":{},"unwind":4200,"harness_s":1200},expect_reach=["all_eor","deferral_expired"],fixed_clock=True,bounds="real handleFSMMessage restarting-speaker branches, the deferral time.AfterFunc (virtual clock) and softResetOut(deferral) through the real management loop: 2 graceful-restart peers, one route from the first, the second sends End-of-RIB or stays silent until the deferral timer (1..2 s) fires")
add("C07.validate_open","VH_c07_validate_open",SRV,sc+["server/c07.go"],expect_reach=["accepted","refused"],bounds="bgp.ValidateOpenMsg for every version, hold time, local AS, configured peer AS (0 = not configured), remote AS 1..2^32-1 with or without the 4-octet capability, identifier in {0.0.0.0, the local one, another}")
add("C12.restart_timer","VH_c12_restart_timer",SRV,sc+["server/c12.go","server/c07.go"],expect_reach=["end"],bounds="real fsmHandler.established (transport failure with GR negotiated) then fsmHandler.idle on the virtual clock: peer restart time 1..2 s, local restart time 3..4 s")
add("C01.transport","VH_c01_transport",SRV,sc+["server/c01.go","server/c07.go"],{"batches":2},{"batches":3},expect_reach=["end"],bounds="real fsmHandler.sendMessageloop (coalescing, CreateUpdateMsgFromPaths, Serialize) writing to a scripted transport: 2 (quick) / 3 queued batches of 1..2 route changes over 2 prefixes (announce with symbolic MED / withdraw), bytes parsed back with ParseBGPMessage and applied in order")
add("C01.local_route","VH_c18_api_path",SRV,sc+["server/c18api.go"],{"params":{},"unwind":2200},{"params":{},"unwind":2200},expect_reach=["end"],fixed_clock=True,bounds="a locally injected route (BgpServer.AddPath with the management loop running; symbolic ORIGIN, MED, community, optional AS_PATH with a symbolic AS incl. the peer's own) is advertised to an established eBGP peer iff the peer's AS is not in its AS_PATH, and withdrawn when deleted (same harness as C18.api_path)")
# C02.locrib_step thorough (4 operations): 6 instances pinned on the first source and path-id
base=[h for h in H if h["id"]=="C02.locrib_step"][0]
t=dict(base["tiers"]["thorough"]); t["harness_s"]=3000
for a in range(3):
    for b in range(2):
        h=json.loads(json.dumps(base)); h["id"]="C02.locrib_step.s%dr%d"%(a,b)
        h["tiers"]={"quick":{"skip":True},"thorough":t}
        h["pins"]={"src#0":a,"rid#0":b}; h["expect_reach"]=[]
        h["bounds"]=h.get("bounds","")+"; thorough-tier instance with the first source pinned to %d and its path-id to %d"%(a,b)
        H.append(h)
base["tiers"]["thorough"]={"skip":True}
add("C08.hold_in_force","VH_c07_hold_restart",SRV,sc+["server/c07.go"],expect_reach=["end"],bounds="the hold time in force after a message from the peer is the negotiated one (3 s), not the configured one (5 s): real fsmHandler.established on the virtual clock (same harness as C07.hold_restart)")
add("C02.process_message","VH_c06_treat_as_withdraw",TBL,tc+["table/c06.go","table/c02.go","table/c03.go","table/c14.go"],{"segs":1},{"segs":1},expect_reach=["end"],bounds="table.ProcessMessage: every path and withdrawal of an UPDATE with NLRI, withdrawn routes, MP_REACH and MP_UNREACH keeps the ADD-PATH identifier its NLRI carried (same harness as C06.treat_as_withdraw)")
add("C02.api_delete","VH_c02_api_delete",SRV,sc+["server/c02.go"],{"params":{},"unwind":2200},{"params":{},"unwind":2200},expect_reach=["end"],fixed_clock=True,bounds="BgpServer.AddPath / DeletePath(UUID) with the management loop running next to a peer's route for the same prefix (either order of arrival, symbolic MED)")
add("C18.neighbor_families","VH_c18_neighbor_families",SRV,sc+["server/c18.go"],expect_reach=["end"],pins={"disposition":1,"med":0,"prepend_as":0},bounds="newNeighborFromAPIStruct on an API peer with two families, one carrying MP-GR / ADD-PATH / prefix-limit / LLGR / import-policy settings (symbolic numbers) and one bare, in either order")
add("C18.api2path","VH_c18_api2path",SRV,sc+["server/c18.go"],expect_reach=["end"],bounds="toPathApi -> api2apiutilPath and -> api2Path (the AddPathStream conversion) for an IPv4 path with symbolic ORIGIN, MED, AS, path identifier, withdraw and from-external flags")
add("C17.server_vrf","VH_c17_server_vrf",SRV,sc+["server/c17.go"],{"params":{"steps":2},"unwind":2200},{"params":{"steps":3},"unwind":2200},expect_reach=["imported","not_imported"],fixed_clock=True,bounds="real BgpServer.handleFSMMessage towards a peer attached to a VRF importing one target: every history of 2 (quick) / 3 events over {announce one VPN prefix with no / the imported / another / both targets, withdraw}")
