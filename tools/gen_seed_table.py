#!/usr/bin/env python3
"""Regenerates the table of DESIGN.md section 10.6 from /verif/seeded/*/meta.json."""
import json,glob,re
rows=[]
for d in sorted(glob.glob('/verif/seeded/*/')):
    m=json.load(open(d+'meta.json'))
    sid=d.rstrip('/').split('/')[-1]
    summ=m.get('summary','').replace('\n',' ')
    change=summ[:150].rsplit(' ',1)[0]+' ...'
    notes=(m.get('detection_notes') or '').replace('\n',' ').replace('|','/')
    by=notes.split(':')[0].split('(')[0].strip()[:60]
    det=m.get('detected')
    rows.append('| %s | %s | %s | %s |'%(sid,change.replace('|','/'),by if det=='yes' else '(see note)','yes' if det=='yes' else 'no - after strengthening: '+notes[:260]))
table='| seed | change (from the agent\'s summary) | noticed by | on the first run? |\n|---|---|---|---|\n'+'\n'.join(rows)
p='/verif/DESIGN.md'
s=open(p).read()
i=s.index('| seed | change (from the agent')
j=s.index('### 10.7')
s=s[:i]+table+'\n\n'+s[j:]
open(p,'w').write(s)
print(len(rows),'seeds')
