#!/usr/bin/env python3
"""Source of truth for /verif/harness/index.json (harness registry). Run after editing."""
import json
H=[]
def add(id,entry,dir,files,q=None,t=None,**kw):
    h={"id":id,"property":id.split('.')[0],"dir":dir,"files":files,"entry":entry}
    tiers={}
    if q is not None: tiers["quick"]=q if "params" in q or "skip" in q or "unwind" in q else {"params":q}
    if t is not None: tiers["thorough"]=t if "params" in t or "skip" in t or "unwind" in t else {"params":t}
    if tiers: h["tiers"]=tiers
    h.update(kw); H.append(h)

BGP="pkg/packet/bgp"
# ---------------- C19
add("C19.bfd_nopanic","VH_c19_bfd_nopanic","pkg/packet/bfd",["bfd/c19.go"],{"n":32},{"n":64},expect_reach=["ok","end"],bounds="arbitrary packet of 0..n bytes followed by 8 stale bytes up to cap")
add("C19.bfd_roundtrip","VH_c19_bfd_roundtrip","pkg/packet/bfd",["bfd/c19.go"],expect_reach=["invalid","end"],bounds="every BFDHeader value (all fields free)")
# ---------------- C05
c05=["bgp/c05.go"]
add("C05.header","VH_c05_header",BGP,c05,{"n":24},{"n":40},expect_reach=["ok","end"],bounds="any buffer of 0..n bytes + 4 stale bytes")
add("C05.capability","VH_c05_capability",BGP,c05,{"n":16},{"n":24},expect_reach=["ok","end"],bounds="any capability TLV buffer of 0..n bytes")
add("C05.open","VH_c05_open",BGP,c05,{"n":16},{"n":18},expect_reach=["ok","end"],bounds="any OPEN body of 0..n bytes (<= 2 capabilities)")
add("C05.msg_open","VH_c05_msg_open",BGP,c05,{"n":14},{"n":16},expect_reach=["ok","end"])
add("C05.msg_notification","VH_c05_msg_notification",BGP,c05,{"n":12},{"n":24},expect_reach=["ok","end"])
add("C05.msg_keepalive","VH_c05_msg_keepalive",BGP,c05,{"n":4},{"n":8},expect_reach=["ok","end"])
add("C05.msg_routerefresh","VH_c05_msg_routerefresh",BGP,c05,{"n":8},{"n":16},expect_reach=["ok","end"])
add("C05.msg_unknown","VH_c05_msg_unknown",BGP,c05,{"n":4},{"n":8},expect_reach=["end"])
add("C05.body","VH_c05_body",BGP,c05,{"n":8},{"n":16},expect_reach=["ok","end"])
UM=["bgp.validatePathAttributeFlags","(*bgp.PathAttribute).DecodeFromBytes"]
add("C05.upd_withdrawn","VH_c05_upd_withdrawn",BGP,c05,{"n":6},{"n":8},expect_reach=["ok","end"])
add("C05.upd_nlri","VH_c05_upd_nlri",BGP,c05,{"n":6},{"n":8},expect_reach=["ok","end"])
add("C05.upd_all","VH_c05_upd_all",BGP,c05,{"n":6},{"n":8},expect_reach=["ok","end"],merge=UM)
add("C05.upd_attr_pair","VH_c05_upd_attr_pair",BGP,c05,{"n":7},{"n":8},expect_reach=["end"],merge=UM)
for name,n in [("origin",6),("aspath",12),("nexthop",8),("med",8),("localpref",8),("atomic",5),("aggregator",12),("communities",12),("originator",8),("clusterlist",12),("mpreach",9),("mpunreach",8),("extcomm",12),("as4path",12),("as4aggr",12),("pmsi",12),("tunnelencap",10),("ip6extcomm",24),("aigp",14),("ls",10),("largecomm",16),("prefixsid",10),("unknown",8)]:
    # unwinding bound derived from the buffer: every decoder loop consumes >= 1 byte per iteration of a (8+n)-byte buffer
    # thorough: 4 more bytes (2 for the MP attributes, whose NLRI loops dominate the run time)
    t=n+2 if name in ("mpreach","mpunreach") else n+4
    add("C05.upd_attr_"+name,"VH_c05_upd_attr_"+name,BGP,c05,{"params":{"n":n},"unwind":n+12},{"params":{"n":t},"unwind":t+12},expect_reach=["end"],merge=UM)

exec(open('/verif/tools/genindex_more.py').read()) if __import__('os').path.exists('/verif/tools/genindex_more.py') else None
ix={"defaults":{"quick":{"unwind":80,"paths":50000,"query_ms":20000,"harness_s":600},"thorough":{"unwind":200,"paths":500000,"query_ms":60000,"harness_s":1200}},"harnesses":H}
json.dump(ix,open('/verif/harness/index.json','w'),indent=1)
print(len(H),"harnesses")
