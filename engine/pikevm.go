package main

import (
	"regexp"
	"regexp/syntax"
	"unicode"
)

// Bounded symbolic simulation of a regular expression: the regexp/syntax.Prog that Go itself
// compiles for the pattern is run as a Pike VM over a byte string of concrete length whose bytes
// are SMT terms. The result is one boolean term: "re.Match(text)" in Go's semantics (unanchored
// search, leftmost-first does not matter for a yes/no answer).
//
// Restrictions (checked, otherwise unsupported): the subject bytes are ASCII (the harnesses assume
// it for the canonical community text, whose bytes are digits and ':').

type pikeCache struct {
	prog *syntax.Prog
}

var pikeProgs = map[*regexp.Regexp]*syntax.Prog{}

func pikeProg(re *regexp.Regexp) *syntax.Prog {
	if p, ok := pikeProgs[re]; ok {
		return p
	}
	parsed, err := syntax.Parse(re.String(), syntax.Perl)
	if err != nil {
		panic(unsupported{"pikevm: cannot parse " + re.String()})
	}
	prog, err := syntax.Compile(parsed.Simplify())
	if err != nil {
		panic(unsupported{"pikevm: cannot compile " + re.String()})
	}
	pikeProgs[re] = prog
	return prog
}

func isWordTerm(c *Term) *Term {
	in := func(lo, hi byte) *Term {
		return And(Cmp("bvuge", c, BV(8, uint64(lo))), Cmp("bvule", c, BV(8, uint64(hi))))
	}
	return Or(Or(in('0', '9'), in('a', 'z')), Or(in('A', 'Z'), Eq(c, BV(8, '_'))))
}

// pikeMatch returns the term for re.Match(chars).
func pikeMatch(re *regexp.Regexp, chars []*Term) *Term {
	prog := pikeProg(re)
	n := len(chars)
	// empty-width context before position p (0..n)
	emptyOK := func(op syntax.EmptyOp, p int) *Term {
		res := Bool(true)
		if op&syntax.EmptyBeginText != 0 && p != 0 {
			return Bool(false)
		}
		if op&syntax.EmptyEndText != 0 && p != n {
			return Bool(false)
		}
		if op&syntax.EmptyBeginLine != 0 && p != 0 {
			res = And(res, Eq(chars[p-1], BV(8, '\n')))
		}
		if op&syntax.EmptyEndLine != 0 && p != n {
			res = And(res, Eq(chars[p], BV(8, '\n')))
		}
		if op&(syntax.EmptyWordBoundary|syntax.EmptyNoWordBoundary) != 0 {
			before, after := Bool(false), Bool(false)
			if p > 0 {
				before = isWordTerm(chars[p-1])
			}
			if p < n {
				after = isWordTerm(chars[p])
			}
			boundary := Not(Eq(before, after))
			if op&syntax.EmptyWordBoundary != 0 {
				res = And(res, boundary)
			}
			if op&syntax.EmptyNoWordBoundary != 0 {
				res = And(res, Not(boundary))
			}
		}
		return res
	}
	runeMatch := func(in *syntax.Inst, c *Term) *Term {
		switch in.Op {
		case syntax.InstRuneAny:
			return Bool(true)
		case syntax.InstRuneAnyNotNL:
			return Not(Eq(c, BV(8, '\n')))
		}
		fold := syntax.Flags(in.Arg)&syntax.FoldCase != 0
		one := func(r rune) *Term {
			if r > 0x7f {
				return Bool(false)
			}
			t := Eq(c, BV(8, uint64(r)))
			if fold {
				for f := unicode.SimpleFold(r); f != r; f = unicode.SimpleFold(f) {
					if f <= 0x7f {
						t = Or(t, Eq(c, BV(8, uint64(f))))
					}
				}
			}
			return t
		}
		if len(in.Rune) == 1 {
			return one(in.Rune[0])
		}
		res := Bool(false)
		for i := 0; i+1 < len(in.Rune); i += 2 {
			lo, hi := in.Rune[i], in.Rune[i+1]
			if lo > 0x7f {
				continue
			}
			if hi > 0x7f {
				hi = 0x7f
			}
			if fold && hi-lo < 64 {
				for r := lo; r <= hi; r++ {
					res = Or(res, one(r))
				}
				continue
			}
			res = Or(res, And(Cmp("bvuge", c, BV(8, uint64(lo))), Cmp("bvule", c, BV(8, uint64(hi)))))
		}
		return res
	}
	// active[pc] = condition under which a thread sits at pc before consuming chars[p]
	matched := Bool(false)
	active := make([]*Term, len(prog.Inst))
	for i := range active {
		active[i] = Bool(false)
	}
	// add thread at pc under cond, following empty transitions at position p
	onPath := make([]bool, len(prog.Inst))
	var add func(set []*Term, pc uint32, cond *Term, p int, depth int)
	add = func(set []*Term, pc uint32, cond *Term, p int, depth int) {
		if cond.k && cond.c == 0 {
			return
		}
		if onPath[pc] {
			return // a cycle of empty transitions only strengthens the condition: nothing new
		}
		onPath[pc] = true
		defer func() { onPath[pc] = false }()
		in := &prog.Inst[pc]
		switch in.Op {
		case syntax.InstFail:
		case syntax.InstAlt, syntax.InstAltMatch:
			add(set, in.Out, cond, p, depth+1)
			add(set, in.Arg, cond, p, depth+1)
		case syntax.InstCapture, syntax.InstNop:
			add(set, in.Out, cond, p, depth+1)
		case syntax.InstEmptyWidth:
			add(set, in.Out, And(cond, emptyOK(syntax.EmptyOp(in.Arg), p)), p, depth+1)
		case syntax.InstMatch:
			matched = Or(matched, cond)
		default: // rune instructions wait for the next character
			// a thread already present under a weaker condition needs no re-expansion
			set[pc] = Or(set[pc], cond)
		}
	}
	for p := 0; p <= n; p++ {
		// unanchored search: a new thread may start at every position
		add(active, uint32(prog.Start), Bool(true), p, 0)
		if p == n {
			break
		}
		next := make([]*Term, len(prog.Inst))
		for i := range next {
			next[i] = Bool(false)
		}
		for pc, cond := range active {
			if cond.k && cond.c == 0 {
				continue
			}
			in := &prog.Inst[pc]
			switch in.Op {
			case syntax.InstRune, syntax.InstRune1, syntax.InstRuneAny, syntax.InstRuneAnyNotNL:
				add(next, in.Out, And(cond, runeMatch(in, chars[p])), p+1, 0)
			}
		}
		active = next
	}
	return matched
}
