package main

import (
	"fmt"
	"math/bits"
	"strings"
)

// Term is a hash-consed SMT term. w==0 means Bool, w>0 a bit-vector of that width,
// w==-1 an (Array (_ BitVec 64) (_ BitVec 8)).
type Term struct {
	id   int
	op   string
	w    int
	args []*Term
	k    bool   // constant
	c    uint64 // constant value (bool: 0/1)
	name string // variable name / indexed-op parameters
	p1   int    // extract hi / extend amount
	p2   int    // extract lo
}

var (
	termTab  = map[string]*Term{}
	termNext = 1
)

func mk(op string, w int, name string, p1, p2 int, args ...*Term) *Term {
	var sb strings.Builder
	fmt.Fprintf(&sb, "%s|%d|%s|%d|%d", op, w, name, p1, p2)
	for _, a := range args {
		fmt.Fprintf(&sb, "|%d", a.id)
	}
	key := sb.String()
	if t, ok := termTab[key]; ok {
		return t
	}
	t := &Term{id: termNext, op: op, w: w, args: args, name: name, p1: p1, p2: p2}
	termNext++
	termTab[key] = t
	return t
}

func mask(w int) uint64 {
	if w >= 64 {
		return ^uint64(0)
	}
	return (uint64(1) << uint(w)) - 1
}

func BV(w int, c uint64) *Term {
	c &= mask(w)
	t := mk("const", w, fmt.Sprint(c), 0, 0)
	t.k, t.c = true, c
	return t
}

func Bool(b bool) *Term {
	if b {
		t := mk("true", 0, "", 0, 0)
		t.k, t.c = true, 1
		return t
	}
	t := mk("false", 0, "", 0, 0)
	t.k = true
	return t
}

func Var(name string, w int) *Term { return mk("var", w, name, 0, 0) }

func signExt(w int, c uint64) int64 {
	if w >= 64 {
		return int64(c)
	}
	if c&(1<<uint(w-1)) != 0 {
		return int64(c | ^mask(w))
	}
	return int64(c)
}

func Not(a *Term) *Term {
	if a.k {
		return Bool(a.c == 0)
	}
	if a.op == "not" {
		return a.args[0]
	}
	return mk("not", 0, "", 0, 0, a)
}

func And(a, b *Term) *Term {
	if a.k {
		if a.c == 0 {
			return a
		}
		return b
	}
	if b.k {
		if b.c == 0 {
			return b
		}
		return a
	}
	if a == b {
		return a
	}
	return mk("and", 0, "", 0, 0, a, b)
}

func Or(a, b *Term) *Term {
	if a.k {
		if a.c != 0 {
			return a
		}
		return b
	}
	if b.k {
		if b.c != 0 {
			return b
		}
		return a
	}
	if a == b {
		return a
	}
	return mk("or", 0, "", 0, 0, a, b)
}

func Ite(c, a, b *Term) *Term {
	if c.k {
		if c.c != 0 {
			return a
		}
		return b
	}
	if a == b {
		return a
	}
	if a.w == 0 && a.k && b.k {
		if a.c != 0 && b.c == 0 {
			return c
		}
		if a.c == 0 && b.c != 0 {
			return Not(c)
		}
	}
	return mk("ite", a.w, "", 0, 0, c, a, b)
}

func Eq(a, b *Term) *Term {
	if a == b {
		return Bool(true)
	}
	if a.k && b.k {
		return Bool(a.c == b.c)
	}
	if a.w == 0 {
		if a.k {
			if a.c != 0 {
				return b
			}
			return Not(b)
		}
		if b.k {
			if b.c != 0 {
				return a
			}
			return Not(a)
		}
	}
	// (ite c k1 k2) == k  -> simplify
	if b.k && a.op == "ite" && a.args[1].k && a.args[2].k {
		return Ite(a.args[0], Bool(a.args[1].c == b.c), Bool(a.args[2].c == b.c))
	}
	if a.k && b.op == "ite" && b.args[1].k && b.args[2].k {
		return Eq(b, a)
	}
	if x, y, ok := monotoneMul(a, b); ok {
		return Eq(x, y)
	}
	if a.id > b.id {
		a, b = b, a
	}
	return mk("=", 0, "", 0, 0, a, b)
}

// Bin applies a binary bit-vector operator with constant folding.
func Bin(op string, a, b *Term) *Term {
	w := a.w
	if a.k && b.k {
		x, y := a.c, b.c
		switch op {
		case "bvadd":
			return BV(w, x+y)
		case "bvsub":
			return BV(w, x-y)
		case "bvmul":
			return BV(w, x*y)
		case "bvand":
			return BV(w, x&y)
		case "bvor":
			return BV(w, x|y)
		case "bvxor":
			return BV(w, x^y)
		case "bvshl":
			if y >= uint64(w) {
				return BV(w, 0)
			}
			return BV(w, x<<y)
		case "bvlshr":
			if y >= uint64(w) {
				return BV(w, 0)
			}
			return BV(w, x>>y)
		case "bvashr":
			s := signExt(w, x)
			if y >= uint64(w) {
				y = uint64(w - 1)
			}
			return BV(w, uint64(s>>y))
		case "bvudiv":
			if y != 0 {
				return BV(w, x/y)
			}
		case "bvurem":
			if y != 0 {
				return BV(w, x%y)
			}
		case "bvsdiv":
			if y != 0 {
				return BV(w, uint64(signExt(w, x)/signExt(w, y)))
			}
		case "bvsrem":
			if y != 0 {
				return BV(w, uint64(signExt(w, x)%signExt(w, y)))
			}
		}
	}
	switch op {
	case "bvadd":
		if a.k && a.c == 0 {
			return b
		}
		if b.k && b.c == 0 {
			return a
		}
		// (x + k1) + k2
		if b.k && a.op == "bvadd" && a.args[1].k {
			return Bin("bvadd", a.args[0], BV(w, a.args[1].c+b.c))
		}
		if a.k {
			a, b = b, a
		}
	case "bvsub":
		if b.k && b.c == 0 {
			return a
		}
		if a == b {
			return BV(w, 0)
		}
		if b.k {
			return Bin("bvadd", a, BV(w, -b.c))
		}
	case "bvmul":
		if (a.k && a.c == 0) || (b.k && b.c == 0) {
			return BV(w, 0)
		}
		if a.k && a.c == 1 {
			return b
		}
		if b.k && b.c == 1 {
			return a
		}
		if a.k {
			a, b = b, a
		}
	case "bvand":
		if (a.k && a.c == 0) || (b.k && b.c == 0) {
			return BV(w, 0)
		}
		if a.k && a.c == mask(w) {
			return b
		}
		if b.k && b.c == mask(w) {
			return a
		}
	case "bvor", "bvxor":
		if a.k && a.c == 0 {
			return b
		}
		if b.k && b.c == 0 {
			return a
		}
	case "bvshl", "bvlshr", "bvashr":
		if b.k && b.c == 0 {
			return a
		}
	}
	return mk(op, w, "", 0, 0, a, b)
}

// Cmp applies a comparison returning Bool.
func Cmp(op string, a, b *Term) *Term {
	if a.k && b.k {
		x, y := a.c, b.c
		sx, sy := signExt(a.w, x), signExt(a.w, y)
		switch op {
		case "bvult":
			return Bool(x < y)
		case "bvule":
			return Bool(x <= y)
		case "bvugt":
			return Bool(x > y)
		case "bvuge":
			return Bool(x >= y)
		case "bvslt":
			return Bool(sx < sy)
		case "bvsle":
			return Bool(sx <= sy)
		case "bvsgt":
			return Bool(sx > sy)
		case "bvsge":
			return Bool(sx >= sy)
		}
	}
	if a == b {
		switch op {
		case "bvule", "bvuge", "bvsle", "bvsge":
			return Bool(true)
		default:
			return Bool(false)
		}
	}
	if x, y, ok := monotoneMul(a, b); ok {
		return Cmp(op, x, y)
	}
	// range facts: zero-extended small values compared with constants
	if ub, ok := upperBound(a); ok && b.k && signExt(b.w, b.c) >= 0 {
		switch op {
		case "bvult", "bvslt":
			if ub < b.c {
				return Bool(true)
			}
		case "bvule", "bvsle":
			if ub <= b.c {
				return Bool(true)
			}
		case "bvugt", "bvsgt":
			if ub <= b.c {
				return Bool(false)
			}
		case "bvuge", "bvsge":
			if ub < b.c {
				return Bool(false)
			}
		}
	}
	return mk(op, 0, "", 0, 0, a, b)
}

// upperBound returns a cheap unsigned upper bound for terms built from zero extensions.
func upperBound(t *Term) (uint64, bool) {
	switch t.op {
	case "const":
		return t.c, true
	case "zext":
		return mask(t.args[0].w), true
	case "bvand":
		if t.args[1].k {
			return t.args[1].c, true
		}
		if t.args[0].k {
			return t.args[0].c, true
		}
	case "bvlshr":
		if t.args[1].k && t.args[1].c < uint64(t.w) {
			return mask(t.w) >> t.args[1].c, true
		}
	case "ite":
		a, ok1 := upperBound(t.args[1])
		b, ok2 := upperBound(t.args[2])
		if ok1 && ok2 {
			if a > b {
				return a, true
			}
			return b, true
		}
	case "bvadd":
		a, ok1 := upperBound(t.args[0])
		b, ok2 := upperBound(t.args[1])
		if ok1 && ok2 && a < 1<<62 && b < 1<<62 && bits.Len64(a+b) <= t.w {
			return a + b, true
		}
	case "bvmul":
		a, ok1 := upperBound(t.args[0])
		b, ok2 := upperBound(t.args[1])
		if ok1 && ok2 && a < 1<<31 && b < 1<<31 && bits.Len64(a*b) <= t.w {
			return a * b, true
		}
	}
	return 0, false
}

func ZExt(t *Term, w int) *Term {
	if t.w == w {
		return t
	}
	if t.w > w {
		return Extract(t, w-1, 0)
	}
	if t.k {
		return BV(w, t.c)
	}
	if t.op == "zext" {
		return ZExt(t.args[0], w)
	}
	return mk("zext", w, "", w-t.w, 0, t)
}

func SExt(t *Term, w int) *Term {
	if t.w == w {
		return t
	}
	if t.w > w {
		return Extract(t, w-1, 0)
	}
	if t.k {
		return BV(w, uint64(signExt(t.w, t.c)))
	}
	if t.op == "zext" { // sign extension of a zero-extended value is a zero extension
		return ZExt(t, w)
	}
	return mk("sext", w, "", w-t.w, 0, t)
}

func Extract(t *Term, hi, lo int) *Term {
	w := hi - lo + 1
	if lo == 0 && w == t.w {
		return t
	}
	if t.k {
		return BV(w, t.c>>uint(lo))
	}
	if t.op == "zext" && lo == 0 {
		in := t.args[0]
		if w <= in.w {
			return Extract(in, hi, 0)
		}
		return ZExt(in, w)
	}
	if t.op == "concat" {
		lw := t.args[1].w
		if hi < lw {
			return Extract(t.args[1], hi, lo)
		}
		if lo >= lw {
			return Extract(t.args[0], hi-lw, lo-lw)
		}
	}
	return mk("extract", w, "", hi, lo, t)
}

func Concat(hi, lo *Term) *Term {
	if hi.k && lo.k && hi.w+lo.w <= 64 {
		return BV(hi.w+lo.w, hi.c<<uint(lo.w)|lo.c)
	}
	if hi.k && hi.c == 0 {
		return ZExt(lo, hi.w+lo.w)
	}
	return mk("concat", hi.w+lo.w, "", 0, 0, hi, lo)
}

func BoolToBV(b *Term, w int) *Term { return Ite(b, BV(w, 1), BV(w, 0)) }

// Select reads a byte of an SMT array, looking through stores when indices are syntactically decidable.
func Select(arr, idx *Term) *Term {
	for arr.op == "store" {
		si := arr.args[1]
		if si == idx {
			return arr.args[2]
		}
		if si.k && idx.k { // different constants
			arr = arr.args[0]
			continue
		}
		if distinctByOffset(si, idx) {
			arr = arr.args[0]
			continue
		}
		break
	}
	if arr.op == "constarr" {
		return BV(8, arr.c)
	}
	return mk("select", 8, "", 0, 0, arr, idx)
}

// distinctByOffset: a and b are x+k1 and x+k2 (or x and x+k) with different constants.
func distinctByOffset(a, b *Term) bool {
	base := func(t *Term) (*Term, uint64) {
		if t.op == "bvadd" && t.args[1].k {
			return t.args[0], t.args[1].c
		}
		return t, 0
	}
	ba, ka := base(a)
	bb, kb := base(b)
	return ba == bb && ka != kb
}

func Store(arr, idx, v *Term) *Term {
	return mk("store", -1, "", 0, 0, arr, idx, v)
}

// ConstArr is the array holding v at every index.
func ConstArr(v uint64) *Term {
	t := mk("constarr", -1, fmt.Sprint(v), 0, 0)
	t.c = v & 0xff
	return t
}

func sortOf(t *Term) string {
	switch {
	case t.w == 0:
		return "Bool"
	case t.w == -1:
		return "(Array (_ BitVec 64) (_ BitVec 8))"
	default:
		return fmt.Sprintf("(_ BitVec %d)", t.w)
	}
}

func fpSort(w int) string {
	if w == 32 {
		return "8 24"
	}
	return "11 53"
}

func toFP(t *Term, ref func(*Term) string) string {
	return fmt.Sprintf("((_ to_fp %s) %s)", fpSort(t.w), ref(t))
}

func FPCmp(op string, a, b *Term) *Term         { return mk("fpcmp", 0, op, 0, 0, a, b) }
func FPArith(op string, r, a, b *Term) *Term    { return mk("fparith", 0, op, 0, 0, r, a, b) }
func FPFromInt(signed bool, r, x *Term) *Term {
	n := "u"
	if signed {
		n = "s"
	}
	return mk("fpfromint", 0, n, 0, 0, r, x)
}
func FPCvt(r, a *Term) *Term { return mk("fpcvt", 0, "", 0, 0, r, a) }
func FPToInt(signed bool, w int, a *Term) *Term {
	n := "u"
	if signed {
		n = "s"
	}
	return mk("fptoint", w, n, 0, 0, a)
}

// head renders the node with already-named children.
func (t *Term) head(ref func(*Term) string) string {
	switch t.op {
	case "const":
		return fmt.Sprintf("(_ bv%d %d)", t.c, t.w)
	case "true", "false":
		return t.op
	case "var":
		return t.name
	case "constarr":
		return fmt.Sprintf("((as const (Array (_ BitVec 64) (_ BitVec 8))) (_ bv%d 8))", t.c)
	case "zext":
		return fmt.Sprintf("((_ zero_extend %d) %s)", t.p1, ref(t.args[0]))
	case "sext":
		return fmt.Sprintf("((_ sign_extend %d) %s)", t.p1, ref(t.args[0]))
	case "extract":
		return fmt.Sprintf("((_ extract %d %d) %s)", t.p1, t.p2, ref(t.args[0]))
	case "fpcmp": // IEEE comparison of two floats held as bit patterns
		return fmt.Sprintf("(fp.%s %s %s)", t.name, toFP(t.args[0], ref), toFP(t.args[1], ref))
	case "fparith": // r is the bit pattern of a op b (round to nearest even)
		return fmt.Sprintf("(= %s (fp.%s RNE %s %s))", toFP(t.args[0], ref), t.name, toFP(t.args[1], ref), toFP(t.args[2], ref))
	case "fpfromint": // r is the bit pattern of the integer x converted to floating point
		f := "to_fp_unsigned"
		if t.name == "s" {
			f = "to_fp"
		}
		return fmt.Sprintf("(= %s ((_ %s %s) RNE %s))", toFP(t.args[0], ref), f, fpSort(t.args[0].w), ref(t.args[1]))
	case "fpcvt": // r is a converted to the other precision
		return fmt.Sprintf("(= %s ((_ to_fp %s) RNE %s))", toFP(t.args[0], ref), fpSort(t.args[0].w), toFP(t.args[1], ref))
	case "fptoint":
		f := "fp.to_ubv"
		if t.name == "s" {
			f = "fp.to_sbv"
		}
		return fmt.Sprintf("((_ %s %d) RTZ %s)", f, t.w, toFP(t.args[0], ref))
	}
	ss := make([]string, len(t.args))
	for i, a := range t.args {
		ss[i] = ref(a)
	}
	return "(" + t.op + " " + strings.Join(ss, " ") + ")"
}

// monotoneMul recognises x*K versus y*K (same positive constant, no overflow possible):
// comparisons can then be made on x and y directly.
func monotoneMul(a, b *Term) (*Term, *Term, bool) {
	if a.op != "bvmul" || b.op != "bvmul" || !a.args[1].k || !b.args[1].k || a.args[1].c != b.args[1].c {
		return nil, nil, false
	}
	k := a.args[1].c
	if k == 0 || k >= 1<<31 {
		return nil, nil, false
	}
	ua, ok1 := upperBound(a.args[0])
	ub, ok2 := upperBound(b.args[0])
	if !ok1 || !ok2 || ua >= 1<<31 || ub >= 1<<31 || a.w < 63 {
		return nil, nil, false
	}
	return a.args[0], b.args[0], true
}
