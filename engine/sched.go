package main

import (
	"go/token"
	"go/types"

	"golang.org/x/tools/go/ssa"
)

// Cooperative goroutine model. A `go` statement creates a parked thread; the running thread keeps the
// processor until it blocks (receive on an empty channel, send on a full one, select with no ready
// case), then the next parked thread runs (round robin). When every thread is blocked, virtual time
// advances to the earliest armed timer; if there is none the path ends (recorded). This is ONE
// schedule per choice of ready select cases (all ready cases are forked): preemption between
// blocking points is outside every claim. Unbuffered channels are approximated by capacity 1.

type thread struct {
	id     int
	frames []*Frame
}

type timerRec struct {
	ch       ObjID
	deadline *Term // virtual ns
	period   *Term // non-nil: ticker
	armed    bool
}

func (s *State) cloneThreads(c *State) {
	for _, t := range s.threads {
		nt := &thread{id: t.id}
		for _, f := range t.frames {
			nt.frames = append(nt.frames, f.clone())
		}
		c.threads = append(c.threads, nt)
	}
	c.curTID, c.nextTID, c.stalled = s.curTID, s.nextTID, s.stalled
	c.settling, c.settled = s.settling, s.settled
	c.timers = append([]timerRec(nil), s.timers...)
	c.vtime = s.vtime
}

func (e *Engine) spawn(st *State, fn Value, args []Value) {
	modelsUsed["go statement: cooperative thread (runs when the spawner blocks)"]++
	saved := st.frames
	st.frames = nil
	e.invoke(st, fn, args, nil, token.NoPos)
	st.nextTID++
	if len(st.frames) > 0 { // a model may have handled the call entirely
		st.threads = append(st.threads, &thread{id: st.nextTID, frames: st.frames})
	}
	st.frames = saved
}

// block is called by an instruction that cannot proceed: the instruction is retried when the thread
// is next scheduled.
func (e *Engine) block(st *State, f *Frame) {
	f.ip--
	st.stalled++
	if st.stalled > len(st.threads)+1 {
		if st.settling {
			// vSettle: every other goroutine has run until it blocked; resume the harness entry
			st.settling, st.settled, st.stalled = false, true, 0
			if st.curTID != 0 {
				st.threads = append(st.threads, &thread{id: st.curTID, frames: st.frames})
				for i, t := range st.threads {
					if t.id == 0 {
						st.curTID, st.frames = 0, t.frames
						st.threads = append(st.threads[:i:i], st.threads[i+1:]...)
						break
					}
				}
			}
			return
		}
		if e.fireTimer(st) {
			st.stalled = 0
			return
		}
		modelsUsed["path ends: every goroutine blocked and no timer armed"]++
		panic(pathEndQuiet{})
	}
	if len(st.threads) == 0 {
		return // retried at once; the stall counter reaches the limit next time
	}
	st.threads = append(st.threads, &thread{id: st.curTID, frames: st.frames})
	nx := st.threads[0]
	st.threads = st.threads[1:]
	st.curTID, st.frames = nx.id, nx.frames
}

// settle implements the harness intrinsic vSettle(): the harness entry waits until every other
// goroutine has run as far as it can without the clock advancing (natively: a short sleep).
func (e *Engine) settle(st *State, f *Frame) {
	if st.settled {
		st.settled = false
		return
	}
	if len(st.threads) == 0 {
		return
	}
	st.settling = true
	e.block(st, f)
}

// threadExit: the current (non-main) thread returned from its top function.
func (e *Engine) threadExit(st *State) {
	if len(st.threads) == 0 {
		panic(unsupported{"scheduler: no thread left"})
	}
	nx := st.threads[0]
	st.threads = st.threads[1:]
	st.curTID, st.frames = nx.id, nx.frames
}

func (st *State) now() *Term {
	if st.vtime == nil {
		return BV(64, 0)
	}
	return st.vtime
}

func (e *Engine) newTimerChan(st *State, chT types.Type, d *Term, periodic bool) ObjID {
	id := st.alloc(&Object{typ: chT, isChan: true, chanCap: 1})
	r := timerRec{ch: id, deadline: Bin("bvadd", st.now(), d), armed: true}
	if periodic {
		r.period = d
	}
	st.timers = append(st.timers, r)
	return id
}

func (st *State) timerOf(ch ObjID) int {
	for i := range st.timers {
		if st.timers[i].ch == ch {
			return i
		}
	}
	return -1
}

// fireTimer advances virtual time to the earliest armed timer and delivers its tick.
func (e *Engine) fireTimer(st *State) bool {
	var idx []int
	for i, t := range st.timers {
		if t.armed {
			idx = append(idx, i)
		}
	}
	if len(idx) == 0 {
		return false
	}
	fire := func(s *State, i int) {
		s.timers = append([]timerRec(nil), s.timers...)
		t := &s.timers[i]
		s.vtime = t.deadline
		o := s.wobj(t.ch)
		if len(o.vals) < 1 {
			o.vals = append(o.vals, zeroValue(o.typ.Underlying().(*types.Chan).Elem()))
		}
		if t.period != nil {
			t.deadline = Bin("bvadd", t.deadline, t.period)
		} else {
			t.armed = false
		}
	}
	best, allConst := idx[0], true
	for _, i := range idx {
		if !st.timers[i].deadline.k {
			allConst = false
			break
		}
		if st.timers[i].deadline.c < st.timers[best].deadline.c {
			best = i
		}
	}
	if allConst {
		fire(st, best)
		return true
	}
	conds := make([]*Term, len(idx))
	for a, i := range idx {
		c := Bool(true)
		for b, j := range idx {
			if a == b {
				continue
			}
			op := "bvule"
			if b < a {
				op = "bvult"
			}
			c = And(c, Cmp(op, st.timers[i].deadline, st.timers[j].deadline))
		}
		conds[a] = c
	}
	e.branch(st, conds, func(s *State, k int) {
		e.assumeFact(s, conds[k])
		fire(s, idx[k])
		s.stalled = 0
	})
	return true
}

func chanObj(st *State, v Value) (*Object, ObjID) {
	p, ok := v.(Pointer)
	if !ok || p.obj == 0 {
		return nil, 0
	}
	o := st.obj(p.obj)
	if !o.isChan {
		panic(unsupported{"channel operation on non-channel object"})
	}
	return o, p.obj
}

func chanCapEff(o *Object) int {
	if o.chanCap < 1 {
		return 1
	}
	return o.chanCap
}

func (e *Engine) execSend(st *State, f *Frame, i *ssa.Send) {
	o, id := chanObj(st, e.get(st, i.Chan))
	if o == nil {
		e.block(st, f) // send on nil channel blocks forever
		return
	}
	if o.chanClosed {
		e.goPanic(st, "send on closed channel", i.Pos())
	}
	if len(o.vals) >= chanCapEff(o) {
		e.block(st, f)
		return
	}
	w := st.wobj(id)
	w.vals = append(append([]Value(nil), w.vals...), e.get(st, i.X))
	st.stalled = 0
}

func (e *Engine) execRecv(st *State, f *Frame, i *ssa.UnOp) {
	o, id := chanObj(st, e.get(st, i.X))
	if o == nil {
		e.block(st, f)
		return
	}
	elem := i.X.Type().Underlying().(*types.Chan).Elem()
	var v Value
	okv := Bool(true)
	switch {
	case len(o.vals) > 0:
		w := st.wobj(id)
		v = w.vals[0]
		w.vals = append([]Value(nil), w.vals[1:]...)
	case o.chanClosed:
		v, okv = zeroValue(elem), Bool(false)
	default:
		e.block(st, f)
		return
	}
	st.stalled = 0
	if i.CommaOk {
		f.env[i] = TupleV{v, okv}
	} else {
		f.env[i] = v
	}
}

func (e *Engine) execSelect(st *State, f *Frame, i *ssa.Select) {
	ready := []int{}
	for k, s := range i.States {
		o, _ := chanObj(st, e.get(st, s.Chan))
		if o == nil {
			continue
		}
		if s.Dir == types.RecvOnly {
			if len(o.vals) > 0 || o.chanClosed {
				ready = append(ready, k)
			}
		} else if o.chanClosed || len(o.vals) < chanCapEff(o) {
			ready = append(ready, k)
		}
	}
	tt := i.Type().(*types.Tuple)
	result := func(s *State, k int) {
		fr := s.top()
		res := make(TupleV, tt.Len())
		res[0] = BV(64, uint64(int64(k)))
		res[1] = Bool(false)
		n := 2
		for j, ss := range i.States {
			if ss.Dir != types.RecvOnly {
				continue
			}
			res[n] = zeroValue(tt.At(n).Type())
			if j == k {
				o, id := chanObj(s, e.get(s, ss.Chan))
				if len(o.vals) > 0 {
					w := s.wobj(id)
					res[n], res[1] = w.vals[0], Bool(true)
					w.vals = append([]Value(nil), w.vals[1:]...)
				}
			}
			n++
		}
		if k >= 0 && i.States[k].Dir != types.RecvOnly {
			ss := i.States[k]
			o, id := chanObj(s, e.get(s, ss.Chan))
			if o.chanClosed {
				e.goPanic(s, "send on closed channel", ss.Pos)
			}
			w := s.wobj(id)
			w.vals = append(append([]Value(nil), w.vals...), e.get(s, ss.Send))
		}
		fr.env[i] = res
		s.stalled = 0
	}
	switch {
	case len(ready) == 0 && !i.Blocking:
		result(st, -1)
	case len(ready) == 0:
		e.block(st, f)
	case len(ready) == 1:
		result(st, ready[0])
	default:
		// the runtime picks uniformly among the ready cases: every one of them is explored
		conds := make([]*Term, len(ready))
		for k := range conds {
			conds[k] = Bool(true)
		}
		e.branch(st, conds, func(s *State, k int) { result(s, ready[k]) })
	}
}

// Mutexes. sync.Mutex and sync.RWMutex keep their ownership in the state: Lock on a mutex that is
// write-held or read-held, and RLock on one that is write-held, block the thread like an empty
// channel does (the call is retried when the thread runs again). A waiting writer does not hold off
// new readers (Go's writer preference is not modelled).
type muKey struct {
	obj ObjID
	off uint64
}

type muState struct {
	writer  bool
	readers int
}

func muKeyOf(v Value) (muKey, bool) {
	p, ok := v.(Pointer)
	if !ok || p.off == nil || !p.off.k {
		return muKey{}, false
	}
	return muKey{p.obj, p.off.c}, true
}

// muOp: op is "lock", "unlock", "rlock", "runlock", "trylock", "tryrlock"
func (e *Engine) muOp(st *State, recv Value, op string) Value {
	k, ok := muKeyOf(recv)
	if !ok {
		if op == "trylock" || op == "tryrlock" {
			return Bool(true)
		}
		return TupleV{}
	}
	m := st.mus[k]
	set := func() {
		if st.mus == nil {
			st.mus = map[muKey]muState{}
		}
		if m == (muState{}) {
			delete(st.mus, k)
		} else {
			st.mus[k] = m
		}
	}
	switch op {
	case "lock", "trylock":
		if m.writer || m.readers > 0 {
			if op == "trylock" {
				return Bool(false)
			}
			modelsUsed["sync.Mutex/RWMutex: Lock on a held mutex blocks the goroutine"]++
			e.block(st, st.top())
			return TupleV{}
		}
		m.writer = true
		set()
		st.stalled = 0
	case "rlock", "tryrlock":
		if m.writer {
			if op == "tryrlock" {
				return Bool(false)
			}
			modelsUsed["sync.Mutex/RWMutex: Lock on a held mutex blocks the goroutine"]++
			e.block(st, st.top())
			return TupleV{}
		}
		m.readers++
		set()
		st.stalled = 0
	case "unlock":
		m.writer = false
		set()
	case "runlock":
		if m.readers > 0 {
			m.readers--
		}
		set()
	}
	if op == "trylock" || op == "tryrlock" {
		return Bool(true)
	}
	return TupleV{}
}
