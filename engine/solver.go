package main

import (
	"bufio"
	"fmt"
	"io"
	"os"
	"os/exec"
	"strings"
	"time"
)

// Solver drives one incremental SMT process. Every non-leaf term is named once per
// assertion level with define-fun so shared sub-terms are never duplicated textually.
type Solver struct {
	bin     string
	cmd     *exec.Cmd
	in      io.WriteCloser
	out     *bufio.Reader
	defined []map[int]bool // per push level: ids of defined / declared terms
	Queries int
	Dur     time.Duration
	Unknown int
	log     io.Writer
}

func NewSolver(bin string, args ...string) *Solver {
	c := exec.Command(bin, args...)
	in, _ := c.StdinPipe()
	o, _ := c.StdoutPipe()
	c.Stderr = os.Stderr
	if err := c.Start(); err != nil {
		panic(err)
	}
	s := &Solver{bin: bin, cmd: c, in: in, out: bufio.NewReader(o), defined: []map[int]bool{{}}}
	if f := os.Getenv("GOSYM_SMTLOG"); f != "" {
		s.log, _ = os.Create(f)
	}
	s.send("(set-option :print-success false)")
	s.send("(set-logic ALL)")
	return s
}

func (s *Solver) send(x string) {
	if s.log != nil {
		io.WriteString(s.log, x+"\n")
	}
	io.WriteString(s.in, x+"\n")
}

func (s *Solver) isDefined(id int) bool {
	for _, m := range s.defined {
		if m[id] {
			return true
		}
	}
	return false
}

func (s *Solver) ref(t *Term) string {
	switch t.op {
	case "const", "true", "false":
		return t.head(nil)
	case "var":
		if !s.isDefined(t.id) {
			s.send(fmt.Sprintf("(declare-const %s %s)", t.name, sortOf(t)))
			s.defined[len(s.defined)-1][t.id] = true
		}
		return t.name
	}
	name := fmt.Sprintf("t%d", t.id)
	if s.isDefined(t.id) {
		return name
	}
	// define children first (iteratively deep terms are fine: recursion depth = term depth)
	h := t.head(s.ref)
	s.send(fmt.Sprintf("(define-fun %s () %s %s)", name, sortOf(t), h))
	s.defined[len(s.defined)-1][t.id] = true
	return name
}

func (s *Solver) Push() {
	s.send("(push 1)")
	s.defined = append(s.defined, map[int]bool{})
}

func (s *Solver) Pop() {
	s.send("(pop 1)")
	s.defined = s.defined[:len(s.defined)-1]
}

func (s *Solver) Assert(t *Term) {
	if t.k && t.c != 0 {
		return
	}
	s.send("(assert " + s.ref(t) + ")")
}

// Check returns "sat", "unsat" or "unknown".
func (s *Solver) Check(extra ...*Term) string {
	s.Queries++
	t0 := time.Now()
	defer func() { s.Dur += time.Since(t0) }()
	if len(extra) > 0 {
		s.Push()
		defer s.Pop()
		for _, e := range extra {
			if e.k && e.c == 0 {
				return "unsat"
			}
			s.Assert(e)
		}
	}
	s.send("(check-sat)")
	for {
		line, err := s.out.ReadString('\n')
		if err != nil {
			panic("solver died: " + err.Error())
		}
		line = strings.TrimSpace(line)
		switch line {
		case "sat", "unsat":
			return line
		case "unknown", "timeout":
			s.Unknown++
			return "unknown"
		case "":
			continue
		}
		if strings.HasPrefix(line, "(error") {
			fmt.Fprintln(os.Stderr, "SOLVER ERROR:", line)
			s.Unknown++
			return "unknown"
		}
	}
}

// Model evaluates the given variables after a sat answer (must be called with the same extra assertions active).
func (s *Solver) Values(extra []*Term, vars []*Term) map[string]string {
	s.Push()
	defer s.Pop()
	for _, e := range extra {
		s.Assert(e)
	}
	s.send("(check-sat)")
	line, _ := s.out.ReadString('\n')
	if strings.TrimSpace(line) != "sat" {
		return nil
	}
	res := map[string]string{}
	for _, v := range vars {
		s.send("(get-value (" + s.ref(v) + "))")
		l, _ := s.out.ReadString('\n')
		depth := strings.Count(l, "(") - strings.Count(l, ")")
		for depth > 0 {
			m, _ := s.out.ReadString('\n')
			l += m
			depth += strings.Count(m, "(") - strings.Count(m, ")")
		}
		l = strings.TrimSpace(l)
		// ((name value))
		l = strings.TrimPrefix(l, "((")
		l = strings.TrimSuffix(l, "))")
		if i := strings.Index(l, " "); i > 0 {
			res[v.name] = strings.TrimSpace(l[i+1:])
		}
	}
	return res
}

func (s *Solver) Close() {
	s.send("(exit)")
	s.in.Close()
	s.cmd.Wait()
}
