package main

import (
	"runtime"
	"sort"
	"bufio"
	"fmt"
	"io"
	"os"
	"os/exec"
	"strconv"
	"strings"
	"time"
)

// Solver drives one incremental SMT process. Every non-leaf term is named once per
// assertion level with define-fun so shared sub-terms are never duplicated textually.
type Solver struct {
	bin     string
	cmd     *exec.Cmd
	in      *bufio.Writer
	inc     io.WriteCloser
	out     *bufio.Reader
	defined []map[int]bool // per push level: ids of defined / declared terms
	Queries int
	Sat     int
	Unsat   int
	Dur     time.Duration
	Unknown int
	Errors  int
	MaxQ    time.Duration
	log     io.Writer
}

// solverArgs returns the command line for a back end name: z3-new, z3, cvc5.
func solverArgs(name string, timeoutMs int) (string, []string) {
	switch name {
	case "cvc5":
		return "cvc5", []string{"--incremental", "--produce-models", fmt.Sprintf("--tlimit-per=%d", timeoutMs), "--lang=smt2"}
	case "z3":
		return "z3", []string{"-in", fmt.Sprintf("-t:%d", timeoutMs)}
	default:
		return "z3-new", []string{"-in", fmt.Sprintf("-t:%d", timeoutMs)}
	}
}

func NewSolver(name string, timeoutMs int) *Solver {
	bin, args := solverArgs(name, timeoutMs)
	c := exec.Command(bin, args...)
	in, _ := c.StdinPipe()
	o, _ := c.StdoutPipe()
	c.Stderr = os.Stderr
	if err := c.Start(); err != nil {
		fmt.Fprintf(os.Stderr, "cannot start solver %s: %v\n", bin, err)
		os.Exit(3)
	}
	s := &Solver{bin: name, cmd: c, inc: in, in: bufio.NewWriterSize(in, 1<<16), out: bufio.NewReader(o), defined: []map[int]bool{{}}}
	if f := os.Getenv("GOSYM_SMTLOG"); f != "" {
		s.log, _ = os.Create(f)
	}
	s.send("(set-option :print-success false)")
	s.send("(set-option :produce-models true)")
	s.send("(set-logic ALL)")
	return s
}

func (s *Solver) send(x string) {
	if s.log != nil {
		io.WriteString(s.log, x+"\n")
	}
	s.in.WriteString(x)
	s.in.WriteByte('\n')
}

func (s *Solver) isDefined(id int) bool {
	for _, m := range s.defined {
		if m[id] {
			return true
		}
	}
	return false
}

func (s *Solver) ref(t *Term) string {
	switch t.op {
	case "const", "true", "false", "constarr":
		return t.head(nil)
	case "var":
		if !s.isDefined(t.id) {
			s.send(fmt.Sprintf("(declare-const %s %s)", t.name, sortOf(t)))
			s.defined[len(s.defined)-1][t.id] = true
		}
		return t.name
	}
	name := "t" + strconv.Itoa(t.id)
	if s.isDefined(t.id) {
		return name
	}
	h := t.head(s.ref)
	s.send(fmt.Sprintf("(define-fun %s () %s %s)", name, sortOf(t), h))
	s.defined[len(s.defined)-1][t.id] = true
	return name
}

func (s *Solver) Push() {
	s.send("(push 1)")
	s.defined = append(s.defined, map[int]bool{})
}

func (s *Solver) Pop() {
	s.send("(pop 1)")
	s.defined = s.defined[:len(s.defined)-1]
}

func (s *Solver) Assert(t *Term) {
	if t.k && t.c != 0 {
		return
	}
	s.send("(assert " + s.ref(t) + ")")
}

func (s *Solver) readAnswer() string {
	s.in.Flush()
	for {
		line, err := s.out.ReadString('\n')
		if err != nil {
			fmt.Fprintln(os.Stderr, "solver died: "+err.Error())
			os.Exit(3)
		}
		line = strings.TrimSpace(line)
		switch line {
		case "sat":
			s.Sat++
			return line
		case "unsat":
			s.Unsat++
			return line
		case "unknown", "timeout":
			s.Unknown++
			return "unknown"
		case "":
			continue
		}
		if strings.HasPrefix(line, "(error") {
			fmt.Fprintln(os.Stderr, "SOLVER ERROR:", line)
			s.Errors++
			s.Unknown++
			return "unknown"
		}
	}
}

// Check returns "sat", "unsat" or "unknown" for the current assertions plus extra.
var qprof map[string]int

func init() {
	if os.Getenv("GOSYM_PROF") != "" {
		qprof = map[string]int{}
	}
}

func (s *Solver) Check(extra ...*Term) string {
	s.Queries++
	if qprof != nil {
		key := ""
		for d := 1; d <= 3; d++ {
			if pc, _, line, ok := runtime.Caller(d); ok {
				fn := runtime.FuncForPC(pc).Name()
				key += fmt.Sprintf("%s:%d < ", fn[strings.LastIndex(fn, ".")+1:], line)
			}
		}
		qprof[key]++
	}
	t0 := time.Now()
	defer func() {
		d := time.Since(t0)
		s.Dur += d
		if d > s.MaxQ {
			s.MaxQ = d
		}
	}()
	if len(extra) > 0 {
		for _, e := range extra {
			if e.k && e.c == 0 {
				s.Unsat++
				return "unsat"
			}
		}
		s.Push()
		defer s.Pop()
		for _, e := range extra {
			s.Assert(e)
		}
	}
	s.send("(check-sat)")
	return s.readAnswer()
}

// Eval evaluates terms under a model of (current assertions + extra). Returns nil if not sat.
// Values are returned as uint64 (bool: 0/1).
func (s *Solver) Eval(extra []*Term, terms []*Term) []uint64 {
	s.Push()
	defer s.Pop()
	for _, e := range extra {
		s.Assert(e)
	}
	names := make([]string, len(terms))
	for i, t := range terms {
		names[i] = s.ref(t)
	}
	s.send("(check-sat)")
	if s.readAnswer() != "sat" {
		return nil
	}
	res := make([]uint64, len(terms))
	for i := range terms {
		s.send("(get-value (" + names[i] + "))")
		s.in.Flush()
		l, _ := s.out.ReadString('\n')
		depth := strings.Count(l, "(") - strings.Count(l, ")")
		for depth > 0 {
			m, err := s.out.ReadString('\n')
			if err != nil {
				break
			}
			l += m
			depth += strings.Count(m, "(") - strings.Count(m, ")")
		}
		l = strings.TrimSpace(l)
		// ((name value))
		l = strings.TrimPrefix(l, "((")
		l = strings.TrimSuffix(l, "))")
		j := strings.LastIndex(l, " ")
		val := l
		if strings.HasSuffix(l, ")") { // (_ bvN w)
			if k := strings.Index(l, "(_ bv"); k >= 0 {
				f := strings.Fields(l[k+5:])
				if len(f) > 0 {
					v, _ := strconv.ParseUint(f[0], 10, 64)
					res[i] = v
					continue
				}
			}
		}
		if j >= 0 {
			val = strings.TrimSpace(l[j+1:])
		}
		res[i] = parseSMTValue(val)
	}
	return res
}

func parseSMTValue(v string) uint64 {
	switch {
	case v == "true":
		return 1
	case v == "false":
		return 0
	case strings.HasPrefix(v, "#x"):
		u, _ := strconv.ParseUint(v[2:], 16, 64)
		return u
	case strings.HasPrefix(v, "#b"):
		u, _ := strconv.ParseUint(v[2:], 2, 64)
		return u
	}
	u, _ := strconv.ParseUint(v, 10, 64)
	return u
}

func (s *Solver) Close() {
	if qprof != nil {
		type kv struct {
			k string
			v int
		}
		var l []kv
		for k, v := range qprof {
			l = append(l, kv{k, v})
		}
		sort.Slice(l, func(i, j int) bool { return l[i].v > l[j].v })
		for i, x := range l {
			if i > 25 {
				break
			}
			fmt.Fprintf(os.Stderr, "QPROF %6d %s\n", x.v, x.k)
		}
	}
	s.send("(exit)")
	s.in.Flush()
	s.inc.Close()
	s.cmd.Wait()
}
