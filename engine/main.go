package main

import (
	"encoding/json"
	"flag"
	"fmt"
	"os"
	"path/filepath"
	"sort"
	"strings"
	"time"

	"golang.org/x/tools/go/packages"
	"golang.org/x/tools/go/ssa"
	"golang.org/x/tools/go/ssa/ssautil"
)

const verifDir = "/verif"

// repoDir is /repo; GOSYM_REPO redirects a run to a scratch worktree (used only by tools/seedtest.sh
// to try a seeded change without touching /repo; evidence then goes to GOSYM_EVIDENCE, never to
// /verif/evidence)
var repoDir = "/repo"

var evidenceDir = filepath.Join(verifDir, "evidence")

func init() {
	if v := os.Getenv("GOSYM_REPO"); v != "" {
		repoDir = v
		evidenceDir = os.Getenv("GOSYM_EVIDENCE")
		if evidenceDir == "" {
			evidenceDir = filepath.Join(os.TempDir(), "gosym-evidence")
		}
	}
}

// ---- harness index ----

type TierCfg struct {
	Unwind   int            `json:"unwind"`
	Paths    int            `json:"paths"`
	QueryMs  int            `json:"query_ms"`
	HarnessS int            `json:"harness_s"`
	Params   map[string]int `json:"params"`
	Skip     bool           `json:"skip"`
}

type Harness struct {
	ID       string             `json:"id"`
	Property string             `json:"property"`
	Dir      string             `json:"dir"`   // package directory relative to /repo
	Files    []string           `json:"files"` // harness sources relative to /verif/harness
	Entry    string             `json:"entry"`
	Merge    []string           `json:"merge"`
	Pins     map[string]int     `json:"pins"`
	Tiers    map[string]TierCfg `json:"tiers"`
	Solver   string             `json:"solver"`
	Desc     string             `json:"desc"`
	Bounds   string             `json:"bounds"`
	Frozen   bool               `json:"frozen_inputs"`
	ExpectReach []string        `json:"expect_reach"`
	SymbolicText bool           `json:"symbolic_text"`
	FixedClock   bool           `json:"fixed_clock"`
}

type Index struct {
	Defaults map[string]TierCfg `json:"defaults"`
	Harness  []Harness          `json:"harnesses"`
}

func loadIndex() *Index {
	var idx Index
	files, _ := filepath.Glob(filepath.Join(verifDir, "harness", "index*.json"))
	sort.Strings(files)
	for _, f := range files {
		b, err := os.ReadFile(f)
		if err != nil {
			die("cannot read %s: %v", f, err)
		}
		var part Index
		if err := json.Unmarshal(b, &part); err != nil {
			die("bad %s: %v", f, err)
		}
		if part.Defaults != nil {
			idx.Defaults = part.Defaults
		}
		idx.Harness = append(idx.Harness, part.Harness...)
	}
	return &idx
}

func (ix *Index) tier(h *Harness, tier string) TierCfg {
	d := ix.Defaults[tier]
	t, ok := h.Tiers[tier]
	if !ok && tier == "thorough" {
		t, ok = h.Tiers["quick"]
	}
	if t.Unwind == 0 {
		t.Unwind = d.Unwind
	}
	if t.Paths == 0 {
		t.Paths = d.Paths
	}
	if t.QueryMs == 0 {
		t.QueryMs = d.QueryMs
	}
	if t.HarnessS == 0 {
		t.HarnessS = d.HarnessS
	}
	if t.Params == nil {
		t.Params = map[string]int{}
	}
	return t
}

func die(f string, a ...any) {
	fmt.Fprintf(os.Stderr, "gosym: "+f+"\n", a...)
	os.Exit(3)
}

// ---- result of one harness run ----

type RunResult struct {
	Harness     string             `json:"harness"`
	Property    string             `json:"property"`
	Entry       string             `json:"entry"`
	Dir         string             `json:"dir"`
	Tier        string             `json:"tier"`
	Solver      string             `json:"solver"`
	Complete    bool               `json:"complete"`
	Paths       int                `json:"paths"`
	Completed   int                `json:"completed"`
	Merged      int                `json:"merged_leaves"`
	Branches    int                `json:"branches"`
	Instrs      int                `json:"instrs"`
	Functions   []string           `json:"functions"`
	Queries     int                `json:"queries"`
	Sat         int                `json:"sat"`
	Unsat       int                `json:"unsat"`
	Unknown     int                `json:"unknown"`
	SolverS     float64            `json:"solver_s"`
	MaxQueryS   float64            `json:"max_query_s"`
	LoadS       float64            `json:"load_s"`
	ExploreS    float64            `json:"explore_s"`
	Obligations int                `json:"obligations"`
	Discharged  int                `json:"discharged"`
	Unsupported map[string]int     `json:"unsupported,omitempty"`
	Reached     map[string]*Vector `json:"reached"`
	ReachObs    map[string][]string `json:"reach_obs,omitempty"`
	Violations  []Violation        `json:"violations"`
	Models      map[string]int     `json:"models_used"`
	Bounds      map[string]any     `json:"bounds"`
	Error       string             `json:"error,omitempty"`
}

func goEnv() []string {
	env := []string{}
	for _, kv := range os.Environ() {
		if strings.HasPrefix(kv, "GOFLAGS=") || strings.HasPrefix(kv, "GOTOOLCHAIN=") || strings.HasPrefix(kv, "GOPROXY=") || strings.HasPrefix(kv, "PATH=") || strings.HasPrefix(kv, "GOSUMDB=") || strings.HasPrefix(kv, "GOWORK=") {
			continue
		}
		env = append(env, kv)
	}
	return append(env, "GOFLAGS=-mod=mod", "GOPROXY=off", "GOSUMDB=off", "GOTOOLCHAIN=local", "GOWORK=off",
		"PATH="+os.Getenv("PATH"))
}

// preludeDecls is the engine-side prelude: body-less intrinsics.
func preludeDecls(pkg string) string {
	return "package " + pkg + `

import (
	vcontext "context"
	vnet "net"
	vsync "sync"
	vtime "time"
)

func vU8(name string) uint8
func vU16(name string) uint16
func vU32(name string) uint32
func vU64(name string) uint64
func vBool(name string) bool
func vInt(name string, lo, hi int) int
func vChoice(name string, n int) int
func vParam(name string) int
func vBytes(name string, max int, slack int) []byte
func vAssume(c bool)
func vAssert(c bool, msg string)
func vReach(label string)
func vObserve(label string, v uint64)
func vElapsedSec() uint64

// vSettle lets every other goroutine run until it blocks (the clock does not advance)
func vSettle()

// vNative reports whether the harness runs natively (replay) rather than in the engine
func vNative() bool { return false }

// helper used by the engine's model of sort.Slice / sort.SliceStable
func vInsertionSort(n int, less func(i, j int) bool, swap func(i, j int)) {
	for i := 1; i < n; i++ {
		for j := i; j > 0 && less(j, j-1); j-- {
			swap(j, j-1)
		}
	}
}

// the engine's model of (*net.Dialer).DialContext: the harness scripts the outcome
var vDialFn func(address string) (vnet.Conn, error)

func vDialContext(d *vnet.Dialer, ctx vcontext.Context, network, address string) (vnet.Conn, error) {
	if vDialFn == nil {
		return nil, vnet.UnknownNetworkError("no dialer scripted")
	}
	return vDialFn(address)
}

// helper of the engine's model of time.AfterFunc
func vAfterFuncWait(ch <-chan vtime.Time, f func()) {
	<-ch
	f()
}

// model of sync.Map: one ordinary map per sync.Map value (single-threaded engine; iteration order
// is insertion order)
var vSyncMaps = map[*vsync.Map]map[any]any{}

func vSyncMapGet(m *vsync.Map) map[any]any {
	mm := vSyncMaps[m]
	if mm == nil {
		mm = map[any]any{}
		vSyncMaps[m] = mm
	}
	return mm
}
func vSyncMapLoad(m *vsync.Map, k any) (any, bool) { v, ok := vSyncMapGet(m)[k]; return v, ok }
func vSyncMapStore(m *vsync.Map, k, v any)         { vSyncMapGet(m)[k] = v }
func vSyncMapDelete(m *vsync.Map, k any)           { delete(vSyncMapGet(m), k) }
func vSyncMapClear(m *vsync.Map)                   { vSyncMaps[m] = map[any]any{} }
func vSyncMapLoadOrStore(m *vsync.Map, k, v any) (any, bool) {
	mm := vSyncMapGet(m)
	if old, ok := mm[k]; ok {
		return old, true
	}
	mm[k] = v
	return v, false
}
func vSyncMapLoadAndDelete(m *vsync.Map, k any) (any, bool) {
	mm := vSyncMapGet(m)
	old, ok := mm[k]
	delete(mm, k)
	return old, ok
}
func vSyncMapSwap(m *vsync.Map, k, v any) (any, bool) {
	mm := vSyncMapGet(m)
	old, ok := mm[k]
	mm[k] = v
	return old, ok
}
func vSyncMapRange(m *vsync.Map, f func(k, v any) bool) {
	for k, v := range vSyncMapGet(m) {
		if !f(k, v) {
			break
		}
	}
}
`
}

func pkgNameOf(dir string) string {
	// read the package clause of the first non-test Go file in the directory
	ents, _ := os.ReadDir(filepath.Join(repoDir, dir))
	for _, en := range ents {
		n := en.Name()
		if !strings.HasSuffix(n, ".go") || strings.HasSuffix(n, "_test.go") {
			continue
		}
		b, err := os.ReadFile(filepath.Join(repoDir, dir, n))
		if err != nil {
			continue
		}
		for _, line := range strings.Split(string(b), "\n") {
			line = strings.TrimSpace(line)
			if strings.HasPrefix(line, "package ") {
				return strings.Fields(line)[1]
			}
		}
	}
	die("cannot determine package name of %s", dir)
	return ""
}

func runHarness(ix *Index, h *Harness, tier string, solverOverride string) *RunResult {
	tc := ix.tier(h, tier)
	res := &RunResult{Harness: h.ID, Property: h.Property, Entry: h.Entry, Dir: h.Dir, Tier: tier,
		Reached: map[string]*Vector{}, Unsupported: map[string]int{}}
	solver := h.Solver
	if solverOverride != "" {
		solver = solverOverride
	}
	if solver == "" {
		solver = "z3-new"
	}
	res.Solver = solver
	res.Bounds = map[string]any{"unwind": tc.Unwind, "max_paths": tc.Paths, "query_ms": tc.QueryMs, "harness_s": tc.HarnessS, "params": tc.Params, "pins": h.Pins, "text": h.Bounds}

	t0 := time.Now()
	pkgName := pkgNameOf(h.Dir)
	overlay := map[string][]byte{
		filepath.Join(repoDir, h.Dir, "zz_verif_prelude.go"): []byte(preludeDecls(pkgName)),
	}
	for _, f := range h.Files {
		src, err := os.ReadFile(filepath.Join(verifDir, "harness", f))
		if err != nil {
			die("cannot read harness file %s: %v", f, err)
		}
		overlay[filepath.Join(repoDir, h.Dir, "zz_verif_"+strings.ReplaceAll(f, "/", "_"))] = src
	}
	cfg := &packages.Config{Mode: packages.LoadAllSyntax, Dir: repoDir, Overlay: overlay, Env: goEnv(), BuildFlags: []string{"-tags=verif"}}
	pkgs, err := packages.Load(cfg, "./"+h.Dir)
	if err != nil {
		res.Error = "load: " + err.Error()
		return res
	}
	var errs []string
	packages.Visit(pkgs, nil, func(p *packages.Package) {
		for _, e := range p.Errors {
			errs = append(errs, e.Error())
		}
	})
	if len(errs) > 0 {
		if len(errs) > 8 {
			errs = errs[:8]
		}
		res.Error = "harness does not type-check against /repo: " + strings.Join(errs, "; ")
		return res
	}
	prog, sp := ssautil.AllPackages(pkgs, ssa.InstantiateGenerics)
	prog.Build()
	var fn *ssa.Function
	var target *ssa.Package
	for _, p := range sp {
		if p == nil {
			continue
		}
		if f := p.Func(h.Entry); f != nil {
			fn, target = f, p
		}
	}
	if fn == nil {
		res.Error = "entry " + h.Entry + " not found"
		return res
	}
	res.LoadS = time.Since(t0).Seconds()

	e := &Engine{prog: prog, sv: NewSolver(solver, tc.QueryMs), globals: map[*ssa.Global]ObjID{}, Unsupp: map[string]int{}, MaxIter: tc.Unwind,
		Entered: map[string]bool{}, Reached: map[string]*Vector{}, ReachObs: map[string][]string{}, maxPaths: tc.Paths, params: tc.Params, pins: h.Pins,
		harnessID: h.ID, entryName: h.Entry, target: target, seenViol: map[string]bool{}, initPkgs: map[string]bool{}, frozenInputs: h.Frozen, symbolicText: h.SymbolicText, fixedClock: h.FixedClock}
	e.known = loadKnown(h.ID)
	st := newState()
	e.tolerant = true
	e.MaxIter = 1 << 20 // initialisers run concretely; table-building loops are long
	e.runInit(st, target)
	e.MaxIter = tc.Unwind
	e.tolerant = false
	e.Instrs = 0
	e.Entered = map[string]bool{}
	e.Unsupp = map[string]int{}
	e.mergeSet = map[string]bool{}
	for _, m := range h.Merge {
		e.mergeSet[m] = true
	}
	if m := os.Getenv("GOSYM_MERGE"); m != "" {
		for _, x := range strings.Split(m, ",") {
			e.mergeSet[x] = true
		}
	}
	t1 := time.Now()
	e.deadline = t1.Add(time.Duration(tc.HarnessS) * time.Second)
	e.pushFrame(st, fn, nil, nil)
	e.run(st)
	res.ExploreS = time.Since(t1).Seconds()
	res.Paths, res.Completed, res.Merged, res.Branches, res.Instrs = e.Paths, e.Completed, e.Merged, e.Branches, e.Instrs
	for f := range e.Entered {
		res.Functions = append(res.Functions, f)
	}
	sort.Strings(res.Functions)
	res.Queries, res.Sat, res.Unsat, res.Unknown = e.sv.Queries, e.sv.Sat, e.sv.Unsat, e.sv.Unknown
	res.SolverS, res.MaxQueryS = e.sv.Dur.Seconds(), e.sv.MaxQ.Seconds()
	res.Obligations, res.Discharged = e.Obligations, e.Discharged
	res.Unsupported = e.Unsupp
	res.Reached, res.ReachObs = e.Reached, e.ReachObs
	res.Violations = e.Violations
	res.Models = modelsUsed
	inconclusive := false
	for _, v := range e.Violations {
		if v.Kind == "unknown" {
			inconclusive = true
		}
	}
	res.Complete = len(e.Unsupp) == 0 && !inconclusive && e.sv.Errors == 0
	e.sv.Close()
	return res
}

// runInit interprets the package initialiser of the target (which calls its dependencies' first).
func (e *Engine) runInit(st *State, p *ssa.Package) {
	init := p.Func("init")
	if init == nil || len(init.Blocks) == 0 {
		return
	}
	defer func() {
		if r := recover(); r != nil {
			switch r.(type) {
			case unsupported:
				fmt.Fprintf(os.Stderr, "init of %s stopped: %s\n", p.Pkg.Path(), r.(unsupported).why)
			case pathEnd, pathEndQuiet, resumeStep:
			default:
				panic(r)
			}
			st.frames = nil
			st.done = false
		}
	}()
	e.initPkgs[p.Pkg.Path()] = true
	e.pushFrame(st, init, nil, nil)
	for len(st.frames) > 0 && !st.done {
		e.step(st)
	}
	st.done = false
	st.frames = nil
}

// initAllowed: packages whose initialisers (and init-time callees) are interpreted.
func initAllowed(path string) bool {
	if strings.HasPrefix(path, "github.com/osrg/gobgp/") {
		return !strings.HasSuffix(path, "/api")
	}
	if strings.HasPrefix(path, "github.com/gaissmai/bart") {
		return true
	}
	switch path {
	case "net/netip", "errors", "io", "bytes", "bufio", "encoding/binary", "internal/byteorder", "math", "math/bits", "strconv",
		"sort", "slices", "context", "internal/bytealg", "unicode/utf8", "strings", "cmp", "internal/stringslite", "internal/itoa",
		"github.com/dgryski/go-farm", "github.com/k-sone/critbitgo", "internal/oserror", "io/fs", "encoding/hex":
		return true
	}
	return false
}

func cmdRun(args []string) {
	fs := flag.NewFlagSet("run", flag.ExitOnError)
	id := fs.String("id", "", "harness id")
	tier := fs.String("tier", "quick", "quick|thorough")
	out := fs.String("out", "", "result file (default stdout)")
	solver := fs.String("solver", "", "override solver back end")
	verbose := fs.Bool("v", false, "verbose")
	fs.Parse(args)
	ix := loadIndex()
	var h *Harness
	for i := range ix.Harness {
		if ix.Harness[i].ID == *id {
			h = &ix.Harness[i]
		}
	}
	if h == nil {
		die("unknown harness %q", *id)
	}
	_ = verbose
	res := runHarness(ix, h, *tier, *solver)
	b, _ := json.MarshalIndent(res, "", " ")
	if *out != "" {
		os.WriteFile(*out, b, 0o644)
	} else {
		os.Stdout.Write(b)
		fmt.Println()
	}
	if res.Error != "" {
		os.Exit(3)
	}
}

func main() {
	os.Setenv("PATH", "/opt/veriftools/go1.26.8/bin:"+os.Getenv("PATH"))
	if len(os.Args) < 2 {
		fmt.Println("usage: gosym run|check|replay|list ...")
		os.Exit(2)
	}
	switch os.Args[1] {
	case "run":
		cmdRun(os.Args[2:])
	case "check":
		cmdCheck(os.Args[2:])
	case "replay":
		cmdReplay(os.Args[2:])
	case "list":
		ix := loadIndex()
		for _, h := range ix.Harness {
			fmt.Printf("%s\t%s\t%s\t%s\n", h.ID, h.Property, h.Dir, h.Entry)
		}
	default:
		fmt.Println("unknown command", os.Args[1])
		os.Exit(2)
	}
}
