package main

import (
	"fmt"
	"go/types"

	"golang.org/x/tools/go/ssa"
)

// Value is a Go value in the symbolic interpreter.
type Value interface{}

type ObjID int

// Pointer addresses slot `off` (a term counted in slots) of object obj. obj==0 is nil.
type Pointer struct {
	obj ObjID
	off *Term
}

// SliceV is a slice header; offsets and lengths are counted in elements, es = slots per element.
type SliceV struct {
	obj          ObjID
	off, ln, cap *Term
	es           int
}

// StringV is either a concrete Go string or a view of a byte object.
type StringV struct {
	conc  string
	isObj bool
	obj   ObjID
	off   *Term
	ln    *Term
	// opaque strings (results of fmt etc.): unknown content, nonEmpty known
	opaque   bool
	nonEmpty bool
}

type Iface struct {
	typ types.Type // nil = nil interface
	val Value
}

type StructV struct{ f []Value }
type ArrayV struct{ e []Value }
type TupleV []Value
type FuncV struct {
	fn   *ssa.Function
	bind []Value
	// builtin / intrinsic name when fn == nil
	name string
}
type MapV struct{ obj ObjID } // obj==0: nil map
type Unknown struct{ why string }

// Object is a heap object: a vector of slots, or a symbolic byte array.
type Object struct {
	slots []Value
	arr   *Term // non-nil: byte array object held as SMT array (index = element)
	n     int   // number of elements (arr mode) / slots
	typ   types.Type
	// map objects
	isMap bool
	keys  []Value
	vals  []Value
	// poison: bytes at index >= poisonFrom (term) must not be read
	poisonFrom *Term
	inputName  string
	// channels: vals is the queue
	isChan     bool
	chanCap    int
	chanClosed bool
	// native: a Go value held on behalf of a model (e.g. a compiled *regexp.Regexp)
	native any
}

func (o *Object) clone() *Object {
	c := *o
	c.slots = append([]Value(nil), o.slots...)
	c.keys = append([]Value(nil), o.keys...)
	c.vals = append([]Value(nil), o.vals...)
	return &c
}

var sizes = types.SizesFor("gc", "amd64")

func intWidth(t types.Type) (w int, signed bool, ok bool) {
	b, isB := t.Underlying().(*types.Basic)
	if !isB {
		return 0, false, false
	}
	info := b.Info()
	if info&types.IsBoolean != 0 {
		return 0, false, true
	}
	if info&types.IsInteger == 0 {
		if b.Kind() == types.UnsafePointer {
			return 0, false, false
		}
		return 0, false, false
	}
	signed = info&types.IsUnsigned == 0
	switch b.Kind() {
	case types.Int8, types.Uint8:
		w = 8
	case types.Int16, types.Uint16:
		w = 16
	case types.Int32, types.Uint32:
		w = 32
	case types.UntypedInt, types.UntypedRune:
		w = 64
	default:
		w = 64
	}
	return w, signed, true
}

// slotsOf returns the number of slots a value of type t occupies in memory.
func slotsOf(t types.Type) int {
	switch u := t.Underlying().(type) {
	case *types.Struct:
		n := 0
		for i := 0; i < u.NumFields(); i++ {
			n += slotsOf(u.Field(i).Type())
		}
		return n
	case *types.Array:
		return int(u.Len()) * slotsOf(u.Elem())
	}
	return 1
}

func fieldOffset(st *types.Struct, idx int) int {
	n := 0
	for i := 0; i < idx; i++ {
		n += slotsOf(st.Field(i).Type())
	}
	return n
}

func zeroValue(t types.Type) Value {
	switch u := t.Underlying().(type) {
	case *types.Basic:
		if w, _, ok := intWidth(t); ok {
			if w == 0 {
				return Bool(false)
			}
			return BV(w, 0)
		}
		switch u.Kind() {
		case types.String, types.UntypedString:
			return StringV{}
		case types.Float64, types.UntypedFloat:
			return BV(64, 0)
		case types.Float32:
			return BV(32, 0)
		case types.UnsafePointer:
			return Pointer{}
		case types.UntypedNil:
			return Pointer{}
		case types.Invalid:
			return TupleV{}
		}
	case *types.Pointer:
		return Pointer{}
	case *types.Slice:
		return SliceV{es: slotsOf(u.Elem()), off: BV(64, 0), ln: BV(64, 0), cap: BV(64, 0)}
	case *types.Interface:
		return Iface{}
	case *types.Map:
		return MapV{}
	case *types.Signature:
		return FuncV{}
	case *types.Chan:
		return Pointer{}
	case *types.Struct:
		f := make([]Value, u.NumFields())
		for i := range f {
			f[i] = zeroValue(u.Field(i).Type())
		}
		return StructV{f}
	case *types.Array:
		e := make([]Value, u.Len())
		for i := range e {
			e[i] = zeroValue(u.Elem())
		}
		return ArrayV{e}
	case *types.Tuple:
		tv := make(TupleV, u.Len())
		for i := range tv {
			tv[i] = zeroValue(u.At(i).Type())
		}
		return tv
	}
	panic(fmt.Sprintf("zeroValue: %v (%T)", t, t.Underlying()))
}

// flatten writes v (of type t) into consecutive slots.
func flatten(t types.Type, v Value, out []Value) []Value {
	switch u := t.Underlying().(type) {
	case *types.Struct:
		sv, ok := v.(StructV)
		if !ok {
			panic(unsupported{fmt.Sprintf("flatten struct got %T for %v", v, t)})
		}
		for i := 0; i < u.NumFields(); i++ {
			out = flatten(u.Field(i).Type(), sv.f[i], out)
		}
		return out
	case *types.Array:
		av, ok := v.(ArrayV)
		if !ok {
			panic(unsupported{fmt.Sprintf("flatten array got %T for %v", v, t)})
		}
		for i := range av.e {
			out = flatten(u.Elem(), av.e[i], out)
		}
		return out
	}
	return append(out, v)
}

// unflatten reads a value of type t from slots starting at *pos.
func unflatten(t types.Type, slots []Value, pos *int) Value {
	switch u := t.Underlying().(type) {
	case *types.Struct:
		f := make([]Value, u.NumFields())
		for i := range f {
			f[i] = unflatten(u.Field(i).Type(), slots, pos)
		}
		return StructV{f}
	case *types.Array:
		e := make([]Value, u.Len())
		for i := range e {
			e[i] = unflatten(u.Elem(), slots, pos)
		}
		return ArrayV{e}
	}
	v := slots[*pos]
	*pos++
	return v
}
