package main

import (
	"fmt"
	"go/token"
	"go/types"

	"golang.org/x/tools/go/ssa"
)

type deferred struct {
	fn   Value
	args []Value
}

type Frame struct {
	fn     *ssa.Function
	env    map[ssa.Value]Value
	blk    *ssa.BasicBlock
	prev   *ssa.BasicBlock
	ip     int
	defers []deferred
	call   ssa.Value // instruction in the caller receiving the result (nil for entry / defers)
	iter   map[*ssa.BasicBlock]int
	// set on frames pushed by the panic unwinder for a deferred call
	panicDefer bool
	post       func(Value) Value // applied to the frame's result before it is delivered (model tail calls)
}

func (f *Frame) clone() *Frame {
	n := *f
	n.env = make(map[ssa.Value]Value, len(f.env))
	for k, v := range f.env {
		n.env[k] = v
	}
	n.iter = make(map[*ssa.BasicBlock]int, len(f.iter))
	for k, v := range f.iter {
		n.iter[k] = v
	}
	n.defers = append([]deferred(nil), f.defers...)
	return &n
}

var stateCounter = 0

// bufInput describes one vBytes input of a path.
type bufInput struct {
	key   string // name#k
	arr   *Term
	ln    *Term
	max   int
	slack int
}

type obsEntry struct {
	label string
	val   *Term
}

type panicInfo struct {
	val  Value
	what string
	pos  token.Pos
}

type State struct {
	id      int
	heap    map[ObjID]*Object
	owner   map[ObjID]int
	nextObj *ObjID // shared counter so ids never collide across forks
	frames  []*Frame
	pc      []*Term
	done    bool
	result  Value
	depth   int

	names   map[string]int    // per-path occurrence counters of nondet names
	inputs  []*Term           // scalar nondet variables created on this path
	keys    map[int]string    // term id -> vector key
	bufs    []bufInput        // byte-buffer inputs
	choices map[string]int    // vChoice decisions taken on this path
	obs     []obsEntry        // vObserve log
	panicking *panicInfo      // non-nil while unwinding a Go panic
	clock   *Term             // model of time.Now (seconds), non-decreasing
	facts   map[int]*Term     // term id -> constant it is known to equal on this path
	factsShared bool
	ubs       map[int]uint64 // term id -> known unsigned upper bound on this path
	ubsShared bool
	// cooperative goroutines (sched.go)
	threads []*thread // parked threads; the running one owns frames
	curTID  int       // 0 = the harness entry
	nextTID int
	stalled int
	settling bool // vSettle in progress
	settled  bool
	timers  []timerRec
	vtime   *Term // virtual nanoseconds elapsed
	hashRecs []*hashRec
	mus      map[muKey]muState // sync.Mutex / sync.RWMutex ownership (sched.go)
}

func (s *State) setUB(t *Term, v uint64) {
	if old, ok := s.ubs[t.id]; ok && old <= v {
		return
	}
	if s.ubsShared || s.ubs == nil {
		n := make(map[int]uint64, len(s.ubs)+4)
		for k, x := range s.ubs {
			n[k] = x
		}
		s.ubs = n
		s.ubsShared = false
	}
	s.ubs[t.id] = v
}

func (s *State) setFact(t, v *Term) {
	if s.factsShared || s.facts == nil {
		n := make(map[int]*Term, len(s.facts)+4)
		for k, x := range s.facts {
			n[k] = x
		}
		s.facts = n
		s.factsShared = false
	}
	s.facts[t.id] = v
}

func newState() *State {
	stateCounter++
	n := ObjID(1)
	return &State{id: stateCounter, heap: map[ObjID]*Object{}, owner: map[ObjID]int{}, nextObj: &n,
		names: map[string]int{}, keys: map[int]string{}, choices: map[string]int{}}
}

func (s *State) fork() *State {
	stateCounter++
	c := &State{id: stateCounter, heap: make(map[ObjID]*Object, len(s.heap)), owner: make(map[ObjID]int, len(s.owner)), nextObj: s.nextObj, depth: s.depth + 1}
	for k, v := range s.heap {
		c.heap[k] = v
	}
	// after a fork neither side may mutate shared objects in place
	stateCounter++
	s.id = stateCounter
	for _, f := range s.frames {
		c.frames = append(c.frames, f.clone())
	}
	c.pc = append([]*Term(nil), s.pc...)
	c.names = make(map[string]int, len(s.names))
	for k, v := range s.names {
		c.names[k] = v
	}
	c.keys = make(map[int]string, len(s.keys))
	for k, v := range s.keys {
		c.keys[k] = v
	}
	c.choices = make(map[string]int, len(s.choices))
	for k, v := range s.choices {
		c.choices[k] = v
	}
	c.inputs = append([]*Term(nil), s.inputs...)
	c.bufs = append([]bufInput(nil), s.bufs...)
	c.obs = append([]obsEntry(nil), s.obs...)
	c.panicking = s.panicking
	s.cloneThreads(c)
	c.clock = s.clock
	c.hashRecs = s.hashRecs
	if len(s.mus) > 0 {
		c.mus = make(map[muKey]muState, len(s.mus))
		for k, v := range s.mus {
			c.mus[k] = v
		}
	}
	c.facts = s.facts
	c.factsShared = true
	s.factsShared = true
	c.ubs = s.ubs
	c.ubsShared = true
	s.ubsShared = true
	return c
}

func (s *State) alloc(o *Object) ObjID {
	id := *s.nextObj
	*s.nextObj++
	s.heap[id] = o
	s.owner[id] = s.id
	return id
}

func (s *State) obj(id ObjID) *Object {
	o := s.heap[id]
	if o == nil {
		panic(unsupported{fmt.Sprintf("dangling object %d", id)})
	}
	return o
}

// wobj returns a writable copy of the object.
func (s *State) wobj(id ObjID) *Object {
	o := s.obj(id)
	if s.owner[id] != s.id {
		o = o.clone()
		s.heap[id] = o
		s.owner[id] = s.id
	}
	return o
}

func (s *State) top() *Frame { return s.frames[len(s.frames)-1] }

// nextKey returns the vector key name#k for the next occurrence of a nondet name on this path.
func (s *State) nextKey(name string) string {
	k := s.names[name]
	s.names[name] = k + 1
	return fmt.Sprintf("%s#%d", name, k)
}

type unsupported struct{ why string }

// Vector is a concrete assignment of a harness's nondeterministic inputs; it is what the native
// replay reads.
type Vector struct {
	Harness string            `json:"harness"`
	Entry   string            `json:"entry"`
	Vars    map[string]string `json:"vars"`
	Bytes   map[string]VecBuf `json:"bytes"`
	Choices map[string]int    `json:"choices"`
	Params  map[string]int    `json:"params"`
}

type VecBuf struct {
	Len int    `json:"len"`
	Cap int    `json:"cap"`
	Hex string `json:"hex"`
}

type Violation struct {
	What   string  `json:"what"`
	Pos    string  `json:"pos"`
	Kind   string  `json:"kind"` // panic | assert | unwind | unknown
	Vector *Vector `json:"vector,omitempty"`
	Known  string  `json:"known,omitempty"` // id of the matching known finding
	Obs    []string `json:"obs,omitempty"`
}

func newObjFor(t types.Type) *Object {
	n := slotsOf(t)
	o := &Object{typ: t, n: n}
	o.slots = flatten(t, zeroValue(t), make([]Value, 0, n))
	return o
}
