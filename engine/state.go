package main

import (
	"fmt"
	"go/token"
	"go/types"

	"golang.org/x/tools/go/ssa"
)

type deferred struct {
	fn   Value
	args []Value
}

type Frame struct {
	fn     *ssa.Function
	env    map[ssa.Value]Value
	blk    *ssa.BasicBlock
	prev   *ssa.BasicBlock
	ip     int
	defers []deferred
	call   ssa.Value // instruction in the caller receiving the result (nil for entry / defers)
	iter   map[*ssa.BasicBlock]int
	// for go1.22 per-iteration etc nothing special
}

func (f *Frame) clone() *Frame {
	n := *f
	n.env = make(map[ssa.Value]Value, len(f.env))
	for k, v := range f.env {
		n.env[k] = v
	}
	n.iter = make(map[*ssa.BasicBlock]int, len(f.iter))
	for k, v := range f.iter {
		n.iter[k] = v
	}
	n.defers = append([]deferred(nil), f.defers...)
	return &n
}

var stateCounter = 0

type State struct {
	id      int
	heap    map[ObjID]*Object
	owner   map[ObjID]int
	nextObj *ObjID // shared counter so ids never collide across forks
	frames  []*Frame
	pc      []*Term
	done    bool
	result  Value
	depth   int
}

func newState() *State {
	stateCounter++
	n := ObjID(1)
	return &State{id: stateCounter, heap: map[ObjID]*Object{}, owner: map[ObjID]int{}, nextObj: &n}
}

func (s *State) fork() *State {
	stateCounter++
	c := &State{id: stateCounter, heap: make(map[ObjID]*Object, len(s.heap)), owner: make(map[ObjID]int, len(s.owner)), nextObj: s.nextObj, depth: s.depth + 1}
	for k, v := range s.heap {
		c.heap[k] = v
	}
	// after a fork neither side may mutate shared objects in place
	stateCounter++
	s.id = stateCounter
	for _, f := range s.frames {
		c.frames = append(c.frames, f.clone())
	}
	c.pc = append([]*Term(nil), s.pc...)
	return c
}

func (s *State) alloc(o *Object) ObjID {
	id := *s.nextObj
	*s.nextObj++
	s.heap[id] = o
	s.owner[id] = s.id
	return id
}

func (s *State) obj(id ObjID) *Object {
	o := s.heap[id]
	if o == nil {
		panic(unsupported{fmt.Sprintf("dangling object %d", id)})
	}
	return o
}

// wobj returns a writable copy of the object.
func (s *State) wobj(id ObjID) *Object {
	o := s.obj(id)
	if s.owner[id] != s.id {
		o = o.clone()
		s.heap[id] = o
		s.owner[id] = s.id
	}
	return o
}

func (s *State) top() *Frame { return s.frames[len(s.frames)-1] }

type unsupported struct{ why string }

type Violation struct {
	What  string
	Pos   token.Position
	Model map[string]string
	Kind  string
}

func newObjFor(t types.Type) *Object {
	n := slotsOf(t)
	o := &Object{typ: t, n: n}
	o.slots = flatten(t, zeroValue(t), make([]Value, 0, n))
	return o
}
