package main

import (
	"fmt"
	"os"
	"go/token"
	"sort"
	"strings"

	"golang.org/x/tools/go/ssa"
)

// Function summaries: run the callee on all its paths from the current state, then fold the
// leaves of each outcome class into one state (ite-merged scalars), and continue the caller
// once per class.

type leaf struct {
	st   *State
	res  Value
	cond *Term
	news []ObjID
}

func (e *Engine) summarize(st *State, fn *ssa.Function, args []Value, bind []Value, call *ssa.Call, pos token.Pos) {
	entryPC := len(st.pc)
	baseNext := *st.nextObj
	var leaves []leaf
	sub := st.fork()
	callerFrames := sub.frames
	sub.frames = nil
	e.pushFrame(sub, fn, args, nil)
	for k, fv := range fn.FreeVars {
		sub.top().env[fv] = bind[k]
	}
	saved := e.leafSink
	e.leafSink = func(s *State) {
		c := Bool(true)
		for _, t := range s.pc[entryPC:] {
			c = And(c, t)
		}
		// new objects that are still reachable: from the result and from pre-existing objects the callee modified
		reach := map[ObjID]bool{}
		var visit func(v Value)
		visitObj := func(id ObjID) {
			if id == 0 || id < baseNext || reach[id] {
				return
			}
			reach[id] = true
			o := s.heap[id]
			if o == nil {
				return
			}
			for _, x := range o.slots {
				visit(x)
			}
			for k := range o.keys {
				visit(o.keys[k])
				visit(o.vals[k])
			}
		}
		visit = func(v Value) {
			switch x := v.(type) {
			case Pointer:
				visitObj(x.obj)
			case SliceV:
				visitObj(x.obj)
			case StringV:
				if x.isObj {
					visitObj(x.obj)
				}
			case MapV:
				visitObj(x.obj)
			case Iface:
				visit(x.val)
			case StructV:
				for _, f := range x.f {
					visit(f)
				}
			case ArrayV:
				for _, f := range x.e {
					visit(f)
				}
			case TupleV:
				for _, f := range x {
					visit(f)
				}
			case FuncV:
				for _, f := range x.bind {
					visit(f)
				}
			case rangeIter:
				for k := range x.keys {
					visit(x.keys[k])
					visit(x.vals[k])
				}
			}
		}
		visit(s.result)
		for id, o := range s.heap {
			if id < baseNext && st.heap[id] != o {
				for _, x := range o.slots {
					visit(x)
				}
				for k := range o.keys {
					visit(o.keys[k])
					visit(o.vals[k])
				}
			}
		}
		var news []ObjID
		for id := range reach {
			news = append(news, id)
		}
		sort.Slice(news, func(i, j int) bool { return news[i] < news[j] })
		// drop garbage so that it neither blocks merging nor is copied along
		for id := range s.heap {
			if id >= baseNext && !reach[id] {
				delete(s.heap, id)
			}
		}
		leaves = append(leaves, leaf{st: s, res: s.result, cond: c, news: news})
	}
	e.summaryDepth++
	func() {
		defer func() {
			if r := recover(); r != nil {
				if _, ok := r.(pathEndQuiet); !ok {
					panic(r)
				}
			}
		}()
		e.Explore(sub)
	}()
	e.summaryDepth--
	e.leafSink = saved
	_ = callerFrames
	if len(leaves) == 0 {
		panic(pathEnd{})
	}
	// group by outcome class
	classes := map[string][]leaf{}
	var order []string
	for _, l := range leaves {
		k := e.classKey(l, baseNext)
		if _, ok := classes[k]; !ok {
			order = append(order, k)
		}
		classes[k] = append(classes[k], l)
	}
	type merged struct {
		heap map[ObjID]*Object
		res  Value
		cond *Term
	}
	var ms []merged
	for _, k := range order {
		ls := classes[k]
		m, ok := e.tryMerge(st, ls, baseNext)
		if ok {
			ms = append(ms, merged{m.heap, m.res, m.cond})
			e.Merged += len(ls) - 1
			continue
		}
		for _, l := range ls { // fall back: one class per leaf
			ms = append(ms, merged{l.st.heap, l.res, l.cond})
		}
	}
	if os.Getenv("GOSYM_MERGEDBG") != "" {
		fmt.Fprintf(os.Stderr, "MERGE %s leaves=%d classes=%d results=%d keys=%q\n", fn.Name(), len(leaves), len(order), len(ms), order)
	}
	conds := make([]*Term, len(ms))
	for i, m := range ms {
		conds[i] = m.cond
	}
	e.branch(st, conds, func(s2 *State, i int) {
		s2.heap = make(map[ObjID]*Object, len(ms[i].heap))
		for id, o := range ms[i].heap {
			s2.heap[id] = o
		}
		s2.owner = map[ObjID]int{}
		if call != nil {
			s2.top().env[call] = ms[i].res
		}
	})
}

var shapeBase ObjID

func shapeOf(v Value) string {
	switch x := v.(type) {
	case *Term:
		return fmt.Sprintf("t%d", x.w)
	case Pointer:
		if x.obj == 0 {
			return "nilptr"
		}
		if x.obj < shapeBase { // pointer to an object that existed before the summarised call: identity matters
			return fmt.Sprintf("ptr@%d", x.obj)
		}
		return "ptr"
	case Iface:
		if x.typ == nil {
			return "niliface"
		}
		return "iface(" + x.typ.String() + ":" + shapeOf(x.val) + ")"
	case TupleV:
		parts := []string{}
		for _, f := range x {
			parts = append(parts, shapeOf(f))
		}
		return "(" + strings.Join(parts, ",") + ")"
	case StructV:
		parts := []string{}
		for _, f := range x.f {
			parts = append(parts, shapeOf(f))
		}
		return "{" + strings.Join(parts, ",") + "}"
	case ArrayV:
		return fmt.Sprintf("arr%d", len(x.e))
	case SliceV:
		if x.obj == 0 {
			return "nilslice"
		}
		return "slice"
	case StringV:
		if x.isObj || x.opaque {
			return "str*"
		}
		return "str:" + x.conc
	case MapV:
		return fmt.Sprintf("map%d", x.obj)
	case FuncV:
		return "func"
	}
	return fmt.Sprintf("%T", v)
}

func (e *Engine) classKey(l leaf, baseNext ObjID) string {
	shapeBase = baseNext
	var sb strings.Builder
	sb.WriteString(shapeOf(l.res))
	for _, id := range l.news {
		o := l.st.heap[id]
		fmt.Fprintf(&sb, "|%v/%d/%v/%d", o.typ, len(o.slots), o.arr != nil, len(o.keys))
	}
	return sb.String()
}

type mergedState struct {
	heap map[ObjID]*Object
	res  Value
	cond *Term
}

type mergeFail struct{ why string }

func (e *Engine) tryMerge(base *State, ls []leaf, baseNext ObjID) (m mergedState, ok bool) {
	if len(ls) == 1 {
		return mergedState{ls[0].st.heap, ls[0].res, ls[0].cond}, true
	}
	defer func() {
		if r := recover(); r != nil {
			if _, is := r.(mergeFail); is {
				ok = false
				return
			}
			if u, is := r.(unsupported); is {
				_ = u
				ok = false
				return
			}
			panic(r)
		}
	}()
	canon := ls[0]
	// id remapping per leaf: k-th new object of the leaf -> k-th new object of the canonical leaf
	remaps := make([]map[ObjID]ObjID, len(ls))
	for i, l := range ls {
		if len(l.news) != len(canon.news) {
			panic(mergeFail{"different allocation counts"})
		}
		remaps[i] = map[ObjID]ObjID{}
		for k, id := range l.news {
			remaps[i][id] = canon.news[k]
		}
	}
	heap := make(map[ObjID]*Object, len(canon.st.heap))
	for id, o := range base.heap {
		heap[id] = o
	}
	cond := Bool(false)
	for _, l := range ls {
		cond = Or(cond, l.cond)
	}
	// pre-existing objects modified in some leaf
	touched := map[ObjID]bool{}
	for _, l := range ls {
		for id, o := range l.st.heap {
			if id < baseNext && base.heap[id] != o {
				touched[id] = true
			}
		}
	}
	for id := range touched {
		heap[id] = e.mergeObjects(ls, remaps, func(l leaf) *Object { return l.st.heap[id] })
	}
	for k, id := range canon.news {
		kk := k
		heap[id] = e.mergeObjects(ls, remaps, func(l leaf) *Object { return l.st.heap[l.news[kk]] })
	}
	res := e.mergeValues(ls, remaps, func(l leaf) Value { return l.res })
	return mergedState{heap, res, cond}, true
}

func (e *Engine) mergeObjects(ls []leaf, remaps []map[ObjID]ObjID, get0 func(leaf) *Object) *Object {
	// a lazily created global may be missing from the leaves that never touched it: there it is zero
	var tmpl *Object
	for _, l := range ls {
		if o := get0(l); o != nil {
			tmpl = o
			break
		}
	}
	if tmpl == nil {
		panic(mergeFail{"object missing in every leaf"})
	}
	get := func(l leaf) *Object {
		if o := get0(l); o != nil {
			return o
		}
		if tmpl.arr != nil || tmpl.isMap {
			panic(mergeFail{"object missing in a leaf"})
		}
		return newObjFor(tmpl.typ)
	}
	first := get(ls[0])
	out := first.clone()
	for _, l := range ls[1:] {
		o := get(l)
		if len(o.slots) != len(first.slots) || (o.arr == nil) != (first.arr == nil) || len(o.keys) != len(first.keys) || o.isMap != first.isMap {
			panic(mergeFail{"object shapes differ"})
		}
	}
	if first.arr != nil {
		v := first.arr
		for i := len(ls) - 1; i >= 1; i-- {
			_ = i
		}
		acc := get(ls[len(ls)-1]).arr
		for i := len(ls) - 2; i >= 0; i-- {
			acc = Ite(ls[i].cond, get(ls[i]).arr, acc)
		}
		_ = v
		out.arr = acc
		return out
	}
	for s := range first.slots {
		ss := s
		out.slots[s] = e.mergeValues(ls, remaps, func(l leaf) Value { return get(l).slots[ss] })
	}
	for k := range first.keys {
		kk := k
		out.keys[k] = e.mergeValues(ls, remaps, func(l leaf) Value { return get(l).keys[kk] })
		out.vals[k] = e.mergeValues(ls, remaps, func(l leaf) Value { return get(l).vals[kk] })
	}
	return out
}

func remapID(m map[ObjID]ObjID, id ObjID) ObjID {
	if n, ok := m[id]; ok {
		return n
	}
	return id
}

// mergeValues folds the per-leaf values into one value guarded by the leaf conditions.
func (e *Engine) mergeValues(ls []leaf, remaps []map[ObjID]ObjID, get func(leaf) Value) Value {
	vals := make([]Value, len(ls))
	for i, l := range ls {
		vals[i] = get(l)
	}
	switch first := vals[0].(type) {
	case *Term:
		acc := vals[len(vals)-1].(*Term)
		for i := len(vals) - 2; i >= 0; i-- {
			t, ok := vals[i].(*Term)
			if !ok || t.w != acc.w {
				panic(mergeFail{"scalar kinds differ"})
			}
			acc = Ite(ls[i].cond, t, acc)
		}
		return acc
	case Pointer:
		obj := remapID(remaps[0], first.obj)
		offs := make([]Value, len(vals))
		for i, v := range vals {
			p, ok := v.(Pointer)
			if !ok || remapID(remaps[i], p.obj) != obj {
				panic(mergeFail{"pointers to different objects"})
			}
			offs[i] = p.off
			if p.off == nil {
				offs[i] = BV(64, 0)
			}
		}
		if obj == 0 {
			return Pointer{}
		}
		off := e.mergeValues(ls, remaps, func(l leaf) Value {
			for i := range ls {
				if ls[i].st == l.st {
					return offs[i]
				}
			}
			return offs[0]
		}).(*Term)
		return Pointer{obj: obj, off: off}
	case SliceV:
		obj := remapID(remaps[0], first.obj)
		for i, v := range vals {
			s, ok := v.(SliceV)
			if !ok || remapID(remaps[i], s.obj) != obj || s.es != first.es {
				panic(mergeFail{"slices over different objects"})
			}
		}
		pick := func(f func(SliceV) *Term) *Term {
			acc := f(vals[len(vals)-1].(SliceV))
			for i := len(vals) - 2; i >= 0; i-- {
				acc = Ite(ls[i].cond, f(vals[i].(SliceV)), acc)
			}
			return acc
		}
		return SliceV{obj: obj, es: first.es, off: pick(func(s SliceV) *Term { return s.off }), ln: pick(func(s SliceV) *Term { return s.ln }), cap: pick(func(s SliceV) *Term { return s.cap })}
	case StringV:
		same, allNE := true, true
		for _, v := range vals {
			s, ok := v.(StringV)
			if !ok {
				panic(mergeFail{"string merged with non-string"})
			}
			if s.isObj || s.opaque || first.isObj || first.opaque || s.conc != first.conc {
				same = false
			}
			ne := s.nonEmpty || (!s.isObj && !s.opaque && s.conc != "")
			if s.isObj {
				ne = false
			}
			if !ne {
				allNE = false
			}
		}
		if same {
			return first
		}
		// differing texts (error messages): the merged value is an opaque string
		return StringV{opaque: true, nonEmpty: allNE}
	case Iface:
		for _, v := range vals {
			iv, ok := v.(Iface)
			if !ok || (iv.typ == nil) != (first.typ == nil) || (iv.typ != nil && iv.typ.String() != first.typ.String()) {
				panic(mergeFail{"dynamic types differ"})
			}
		}
		if first.typ == nil {
			return first
		}
		return Iface{typ: first.typ, val: e.mergeValues(ls, remaps, func(l leaf) Value { return get(l).(Iface).val })}
	case StructV:
		f := make([]Value, len(first.f))
		for k := range f {
			kk := k
			f[k] = e.mergeValues(ls, remaps, func(l leaf) Value { return get(l).(StructV).f[kk] })
		}
		return StructV{f}
	case ArrayV:
		el := make([]Value, len(first.e))
		for k := range el {
			kk := k
			el[k] = e.mergeValues(ls, remaps, func(l leaf) Value { return get(l).(ArrayV).e[kk] })
		}
		return ArrayV{el}
	case TupleV:
		el := make(TupleV, len(first))
		for k := range el {
			kk := k
			el[k] = e.mergeValues(ls, remaps, func(l leaf) Value { return get(l).(TupleV)[kk] })
		}
		return el
	case MapV:
		for i, v := range vals {
			m, ok := v.(MapV)
			if !ok || remapID(remaps[i], m.obj) != remapID(remaps[0], first.obj) {
				panic(mergeFail{"maps differ"})
			}
		}
		return MapV{obj: remapID(remaps[0], first.obj)}
	case FuncV:
		return first
	case rangeIter:
		panic(mergeFail{"iterator"})
	case nil:
		return nil
	}
	panic(mergeFail{fmt.Sprintf("cannot merge %T", vals[0])})
}
