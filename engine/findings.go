package main

import (
	"encoding/json"
	"os"
	"path/filepath"
	"strconv"
)

// KnownFinding is one entry of /verif/known_findings.json: a genuine defect that is recorded
// rather than repaired. Predicate is a DNF over vector keys: OR of AND of atoms.
type KnownFinding struct {
	ID        string     `json:"id"`
	Property  string     `json:"property"`
	Harness   string     `json:"harness"`
	Label     string     `json:"label"` // substring of the obligation text
	Predicate [][]Atom   `json:"predicate"`
	What      string     `json:"what"`
}

type Atom struct {
	Var string `json:"var"`
	Op  string `json:"op"` // == != < <= > >= (unsigned)
	Val string `json:"val"`
}

type KnownFile struct {
	Findings []KnownFinding `json:"findings"`
	Fixed    []string       `json:"fixed"`
}

func loadKnownFile() *KnownFile {
	var kf KnownFile
	b, err := os.ReadFile(filepath.Join(verifDir, "known_findings.json"))
	if err != nil {
		return &kf
	}
	if err := json.Unmarshal(b, &kf); err != nil {
		die("bad known_findings.json: %v", err)
	}
	return &kf
}

func loadKnown(harness string) []KnownFinding {
	var out []KnownFinding
	for _, k := range loadKnownFile().Findings {
		if k.Harness == harness {
			out = append(out, k)
		}
	}
	return out
}

// predicateTerm builds the witness predicate over this path's nondet variables. An atom over a
// variable that does not exist on the path is false. An empty predicate matches everything.
func (e *Engine) predicateTerm(st *State, k KnownFinding) *Term {
	if len(k.Predicate) == 0 {
		return Bool(true)
	}
	byKey := map[string]*Term{}
	for _, t := range st.inputs {
		byKey[st.keys[t.id]] = t
	}
	for _, b := range st.bufs {
		byKey[b.key+".len"] = b.ln
	}
	res := Bool(false)
	for _, conj := range k.Predicate {
		c := Bool(true)
		for _, a := range conj {
			v, ok := byKey[a.Var]
			if !ok {
				c = Bool(false)
				break
			}
			n, _ := strconv.ParseUint(a.Val, 0, 64)
			var kt *Term
			if v.w == 0 {
				kt = Bool(n != 0)
			} else {
				kt = BV(v.w, n)
			}
			var at *Term
			switch a.Op {
			case "==":
				at = Eq(v, kt)
			case "!=":
				at = Not(Eq(v, kt))
			case "<":
				at = Cmp("bvult", v, kt)
			case "<=":
				at = Cmp("bvule", v, kt)
			case ">":
				at = Cmp("bvugt", v, kt)
			case ">=":
				at = Cmp("bvuge", v, kt)
			default:
				die("bad op %q in known finding %s", a.Op, k.ID)
			}
			c = And(c, at)
		}
		res = Or(res, c)
	}
	return res
}
