package main

import (
	"fmt"
	"regexp"
	"go/constant"
	"math"
	"time"
	"go/token"
	"go/types"
	"os"
	"runtime/debug"
	"strings"

	"golang.org/x/tools/go/ssa"
)

type Engine struct {
	prog         *ssa.Program
	sv           *Solver
	globals      map[*ssa.Global]ObjID
	sentinels    map[*ssa.Global]ObjID
	uuidN        int
	Paths        int
	Completed    int
	Violations   []Violation
	Unsupp       map[string]int
	internalN    int
	MaxIter      int
	Entered      map[string]bool
	Instrs       int
	tolerant     bool
	leafSink     func(*State)
	summaryDepth int
	Merged       int
	mergeSet     map[string]bool
	initPkgs     map[string]bool // packages whose initialiser is interpreted
	Reached      map[string]*Vector
	ReachObs     map[string][]string
	maxPaths     int
	verbose      bool
	params       map[string]int
	pins         map[string]int
	harnessID    string
	entryName    string
	Obligations  int // proof obligations raised (non-trivial)
	Discharged   int // ... answered unsat
	Branches     int
	known        []KnownFinding
	deadline     time.Time
	seenViol     map[string]bool
	noPanicCheck bool
	frozenInputs bool
	fixedClock   bool // time.Now returns fixed instants one second apart (index option fixed_clock)
	symbolicText bool // String()/FormatUint of symbolic values produce real symbolic text instead of an opaque string
	target       *ssa.Package
}

// internalVar is an unconstrained value that is not a harness input (opaque lengths etc.).
func (e *Engine) internalVar(name string, w int) *Term {
	e.internalN++
	return Var(fmt.Sprintf("i_%s_%d", sanitize(name), e.internalN), w)
}

func sanitize(s string) string {
	var sb strings.Builder
	for _, r := range s {
		if r >= 'a' && r <= 'z' || r >= 'A' && r <= 'Z' || r >= '0' && r <= '9' || r == '_' {
			sb.WriteRune(r)
		} else {
			sb.WriteRune('_')
		}
	}
	return sb.String()
}

// ---- operand evaluation ----

func (e *Engine) constVal(c *ssa.Const) Value {
	t := c.Type()
	if c.Value == nil {
		return zeroValue(t)
	}
	if w, _, ok := intWidth(t); ok {
		if w == 0 {
			return Bool(constant.BoolVal(c.Value))
		}
		if i, exact := constant.Int64Val(constant.ToInt(c.Value)); exact {
			return BV(w, uint64(i))
		}
		u, _ := constant.Uint64Val(constant.ToInt(c.Value))
		return BV(w, u)
	}
	if b, ok := t.Underlying().(*types.Basic); ok && b.Info()&types.IsFloat != 0 {
		f, _ := constant.Float64Val(c.Value)
		if b.Kind() == types.Float32 {
			return BV(32, uint64(math.Float32bits(float32(f))))
		}
		return BV(64, math.Float64bits(f))
	}
	switch c.Value.Kind() {
	case constant.String:
		return StringV{conc: constant.StringVal(c.Value)}
	}
	return Unknown{"const " + c.String()}
}

func (e *Engine) get(st *State, v ssa.Value) Value {
	switch x := v.(type) {
	case *ssa.Const:
		return e.constVal(x)
	case *ssa.Global:
		return Pointer{obj: e.globalObj(st, x), off: BV(64, 0)}
	case *ssa.Function:
		return FuncV{fn: x}
	case *ssa.Builtin:
		return FuncV{name: x.Name()}
	}
	f := st.top()
	val, ok := f.env[v]
	if !ok {
		panic(unsupported{"no value for " + v.Name() + " in " + f.fn.String()})
	}
	return val
}

func (e *Engine) globalObj(st *State, g *ssa.Global) ObjID {
	if id, ok := e.globals[g]; ok {
		if _, present := st.heap[id]; !present {
			// global created by another path after this state forked: zero-init here too
			st.heap[id] = e.newGlobalContent(st, g)
		}
		return id
	}
	if !e.tolerant && g.Pkg != nil && !e.initPkgs[g.Pkg.Pkg.Path()] && !zeroOKGlobal(g) && !sentinelErrGlobal(g) {
		panic(unsupported{"global " + g.String() + " of a package whose initialiser was not interpreted"})
	}
	id := st.alloc(nil)
	e.globals[g] = id
	st.heap[id] = e.newGlobalContent(st, g)
	return id
}

// sentinelErrGlobal: exported error variables (io.EOF, os.ErrDeadlineExceeded, ...) of packages whose
// initialiser is not interpreted are modelled as distinct opaque errors: only their identity matters.
func sentinelErrGlobal(g *ssa.Global) bool {
	if g.Pkg == nil || !types.Identical(g.Type().(*types.Pointer).Elem(), types.Universe.Lookup("error").Type()) {
		return false
	}
	return strings.HasPrefix(g.Name(), "Err") || g.Name() == "EOF"
}

func (e *Engine) newGlobalContent(st *State, g *ssa.Global) *Object {
	o := newObjFor(g.Type().(*types.Pointer).Elem())
	if !e.tolerant && g.Pkg != nil && !e.initPkgs[g.Pkg.Pkg.Path()] && sentinelErrGlobal(g) {
		sid, ok := e.sentinels[g]
		if !ok {
			sid = st.alloc(&Object{typ: opaqueErrType, slots: []Value{}})
			if e.sentinels == nil {
				e.sentinels = map[*ssa.Global]ObjID{}
			}
			e.sentinels[g] = sid
		} else if _, present := st.heap[sid]; !present {
			st.heap[sid] = &Object{typ: opaqueErrType, slots: []Value{}}
		}
		o.slots[0] = Iface{typ: opaqueErrType, val: Pointer{obj: sid, off: BV(64, 0)}}
		modelsUsed["sentinel error of an uninterpreted package as a distinct opaque error"]++
	}
	return o
}

// zeroOKGlobal: globals of un-initialised packages that are correct as zero values.
func zeroOKGlobal(g *ssa.Global) bool {
	switch g.String() {
	case "encoding/binary.BigEndian", "encoding/binary.LittleEndian":
		return true
	case "time.Local", "time.UTC", "time.localLoc", "time.utcLoc":
		// nil/zero location: instants are handled as UTC; time-zone dependent rendering is outside every claim
		return true
	}
	return false
}

// ext64 widens an integer operand to 64 bits according to the signedness of its Go type.
func ext64(t *Term, typ types.Type) *Term {
	if t.w >= 64 {
		return t
	}
	if _, signed, ok := intWidth(typ); ok && !signed {
		return ZExt(t, 64)
	}
	return SExt(t, 64)
}

func term(v Value) *Term {
	t, ok := v.(*Term)
	if !ok {
		if u, isU := v.(Unknown); isU {
			panic(unsupported{"use of unknown value: " + u.why})
		}
		panic(unsupported{fmt.Sprintf("expected scalar, got %T", v)})
	}
	return t
}

// ---- memory ----

func (e *Engine) load(st *State, p Pointer, t types.Type, pos token.Pos) Value {
	if p.obj == 0 {
		e.goPanic(st, "nil pointer dereference", pos)
	}
	o := st.obj(p.obj)
	n := slotsOf(t)
	if o.arr != nil {
		if at, ok := t.Underlying().(*types.Array); ok {
			ev := make([]Value, at.Len())
			for k := range ev {
				idx := Bin("bvadd", p.off, BV(64, uint64(k)))
				e.checkPoison(st, o, idx, pos)
				ev[k] = Select(o.arr, idx)
			}
			return ArrayV{ev}
		}
		e.checkPoison(st, o, p.off, pos)
		return Select(o.arr, p.off)
	}
	if p.off.k {
		off := int(p.off.c)
		if off < 0 || off+n > len(o.slots) {
			panic(unsupported{fmt.Sprintf("load out of object: off %d n %d size %d type %v", off, n, len(o.slots), t)})
		}
		pos2 := off
		return unflatten(t, o.slots, &pos2)
	}
	if n != 1 {
		// symbolic offset of a multi-slot element: component-wise ite over the aligned positions
		return e.loadSymMulti(st, o, p.off, t, n)
	}
	var res Value
	for j := len(o.slots) - 1; j >= 0; j-- {
		if res == nil {
			res = o.slots[j]
		} else {
			res = e.iteValue(Eq(p.off, BV(64, uint64(j))), o.slots[j], res)
		}
	}
	return res
}

func (e *Engine) loadSymMulti(st *State, o *Object, off *Term, t types.Type, n int) Value {
	var res Value
	for j := (len(o.slots)/n - 1) * n; j >= 0; j -= n {
		pos := j
		v := unflatten(t, o.slots, &pos)
		if res == nil {
			res = v
		} else {
			res = e.iteValue(Eq(off, BV(64, uint64(j))), v, res)
		}
	}
	if res == nil {
		panic(unsupported{"symbolic load from empty object"})
	}
	return res
}

func (e *Engine) checkPoison(st *State, o *Object, idx *Term, pos token.Pos) {
	if o.poisonFrom != nil {
		e.obligeKind(st, Cmp("bvuge", idx, o.poisonFrom), "read beyond the declared data (stale bytes between len and cap)", pos, "poison")
	}
}

func (e *Engine) store(st *State, p Pointer, t types.Type, v Value, pos token.Pos) {
	if p.obj == 0 {
		e.goPanic(st, "nil pointer dereference (store)", pos)
	}
	o := st.wobj(p.obj)
	if o.arr != nil {
		if o.inputName != "" && e.frozenInputs {
			e.report(st, Bool(true), "write into the caller's input buffer", pos, "assert")
		}
		if av, ok := v.(ArrayV); ok {
			for k, x := range av.e {
				o.arr = Store(o.arr, Bin("bvadd", p.off, BV(64, uint64(k))), term(x))
			}
			return
		}
		o.arr = Store(o.arr, p.off, term(v))
		return
	}
	vals := flatten(t, v, nil)
	if p.off.k {
		off := int(p.off.c)
		if off < 0 || off+len(vals) > len(o.slots) {
			panic(unsupported{fmt.Sprintf("store out of object: off %d n %d size %d", off, len(vals), len(o.slots))})
		}
		copy(o.slots[off:], vals)
		return
	}
	n := len(vals)
	for j := 0; j+n <= len(o.slots); j += n {
		c := Eq(p.off, BV(64, uint64(j)))
		for k := 0; k < n; k++ {
			o.slots[j+k] = e.iteValue(c, vals[k], o.slots[j+k])
		}
	}
}

// ---- obligations ----

type pathEnd struct{}

// vectorFor extracts a concrete input vector from a model of pc ∧ extra.
func (e *Engine) vectorFor(st *State, extra ...*Term) (*Vector, []string) {
	var terms []*Term
	terms = append(terms, st.inputs...)
	for _, b := range st.bufs {
		terms = append(terms, b.ln)
		for k := 0; k < b.max+b.slack; k++ {
			terms = append(terms, Select(b.arr, BV(64, uint64(k))))
		}
	}
	for _, o := range st.obs {
		terms = append(terms, o.val)
	}
	vals := e.sv.Eval(extra, terms)
	if vals == nil {
		return nil, nil
	}
	v := &Vector{Harness: e.harnessID, Entry: e.entryName, Vars: map[string]string{}, Bytes: map[string]VecBuf{}, Choices: map[string]int{}, Params: e.params}
	i := 0
	for _, t := range st.inputs {
		v.Vars[st.keys[t.id]] = fmt.Sprint(vals[i])
		i++
	}
	for _, b := range st.bufs {
		ln := int(vals[i])
		i++
		var sb strings.Builder
		for k := 0; k < b.max+b.slack; k++ {
			if k < ln+b.slack {
				fmt.Fprintf(&sb, "%02x", vals[i]&0xff)
			}
			i++
		}
		v.Bytes[b.key] = VecBuf{Len: ln, Cap: ln + b.slack, Hex: sb.String()}
	}
	var obs []string
	for _, o := range st.obs {
		obs = append(obs, fmt.Sprintf("%s=%d", o.label, vals[i]))
		i++
	}
	for k, c := range st.choices {
		v.Choices[k] = c
	}
	return v, obs
}

// report records a violation whose condition `bad` is satisfiable on this path (the caller has checked that),
// after filtering by the known-findings file.
func (e *Engine) report(st *State, bad *Term, what string, pos token.Pos, kind string) {
	p := e.prog.Fset.Position(pos)
	ps := fmt.Sprintf("%s:%d", p.Filename, p.Line)
	var matching []KnownFinding
	for _, k := range e.known {
		if k.Harness == e.harnessID && strings.Contains(what, k.Label) {
			matching = append(matching, k)
		}
	}
	if len(matching) > 0 {
		// is there a violation outside every listed witness predicate?
		outside := bad
		for _, k := range matching {
			outside = And(outside, Not(e.predicateTerm(st, k)))
		}
		if r := e.sv.Check(outside); r == "unsat" {
			// every failing input is covered by a listed finding: report each one that is realised
			for _, k := range matching {
				in := And(bad, e.predicateTerm(st, k))
				key := "known|" + k.ID
				if e.seenViol[key] {
					continue
				}
				if vec, obs := e.vectorFor(st, in); vec != nil {
					e.seenViol[key] = true
					e.Violations = append(e.Violations, Violation{What: what, Pos: ps, Kind: kind, Vector: vec, Known: k.ID, Obs: obs})
				}
			}
			return
		}
		bad = outside
	}
	key := kind + "|" + what + "|" + ps
	if e.seenViol[key] {
		return
	}
	vec, obs := e.vectorFor(st, bad)
	if vec == nil {
		e.Violations = append(e.Violations, Violation{What: "INCONCLUSIVE (model extraction failed) " + what, Pos: ps, Kind: "unknown"})
		return
	}
	e.seenViol[key] = true
	e.Violations = append(e.Violations, Violation{What: what, Pos: ps, Kind: kind, Vector: vec, Obs: obs})
}

// goPanic: an unconditional Go panic on this path.
func (e *Engine) goPanic(st *State, what string, pos token.Pos) {
	if e.canRecover(st) {
		e.startUnwind(st, what, pos)
		panic(resumeStep{})
	}
	e.report(st, Bool(true), "panic: "+what, pos, "panic")
	panic(pathEnd{})
}

// oblige: `bad` must be unsatisfiable on this path (implicit panic site); afterwards the path continues under !bad.
func (e *Engine) oblige(st *State, bad *Term, what string, pos token.Pos) {
	e.obligeKind(st, bad, "panic: "+what, pos, "panic")
}

func (e *Engine) obligeKind(st *State, bad *Term, what string, pos token.Pos, kind string) {
	if bad.k && bad.c == 0 {
		return
	}
	if kind == "panic" && e.canRecover(st) {
		// a recover() is pending on the stack: the panic is a legal outcome; explore both sides
		e.branchPanic(st, bad, what, pos)
		return
	}
	e.Obligations++
	r := "sat"
	if !bad.k {
		r = e.sv.Check(bad)
	}
	switch r {
	case "sat":
		e.report(st, bad, what, pos, kind)
	case "unknown":
		p := e.prog.Fset.Position(pos)
		e.Violations = append(e.Violations, Violation{What: "INCONCLUSIVE (solver unknown) " + what, Pos: fmt.Sprintf("%s:%d", p.Filename, p.Line), Kind: "unknown"})
	default:
		e.Discharged++
	}
	if bad.k { // always fails
		panic(pathEnd{})
	}
	e.assume(st, Not(bad))
	if r != "unsat" && e.sv.Check() == "unsat" {
		panic(pathEnd{})
	}
}

func (e *Engine) assume(st *State, c *Term) {
	if c.k && c.c != 0 {
		return
	}
	st.pc = append(st.pc, c)
	e.sv.Assert(c)
	e.recordFact(st, c)
}

// assumeFact records a condition that is already implied by the path condition (no solver assert needed,
// but kept in pc so summaries and vectors see it).
func (e *Engine) assumeFact(st *State, c *Term) {
	e.recordFact(st, c)
}

// recordFact remembers equalities with constants (and decided booleans) for cheap folding of later conditions.
func (e *Engine) recordFact(st *State, c *Term) {
	switch c.op {
	case "and":
		e.recordFact(st, c.args[0])
		e.recordFact(st, c.args[1])
		return
	case "=":
		a, b := c.args[0], c.args[1]
		if b.k && !a.k {
			st.setFact(a, b)
		} else if a.k && !b.k {
			st.setFact(b, a)
		}
	case "not":
		if !c.args[0].k {
			st.setFact(c.args[0], Bool(false))
		}
		in := c.args[0]
		if (in.op == "bvugt" || in.op == "bvsgt") && in.args[1].k && signExt(in.args[1].w, in.args[1].c) >= 0 {
			st.setUB(in.args[0], in.args[1].c)
		}
		if (in.op == "bvult" || in.op == "bvslt") && in.args[0].k && signExt(in.args[0].w, in.args[0].c) >= 0 {
			st.setUB(in.args[1], in.args[0].c)
		}
		return
	case "bvule", "bvsle":
		if c.args[1].k && signExt(c.args[1].w, c.args[1].c) >= 0 {
			st.setUB(c.args[0], c.args[1].c)
		}
	case "bvult", "bvslt":
		if c.args[1].k && signExt(c.args[1].w, c.args[1].c) > 0 {
			st.setUB(c.args[0], c.args[1].c-1)
		}
	case "bvuge", "bvsge":
		if c.args[0].k && signExt(c.args[0].w, c.args[0].c) >= 0 {
			st.setUB(c.args[1], c.args[0].c)
		}
	}
	if c.w == 0 && !c.k {
		st.setFact(c, Bool(true))
	}
}

// foldKnown simplifies a condition with the facts recorded on this path.
func (e *Engine) foldKnown(st *State, c *Term) *Term {
	if c.k || len(st.facts) == 0 {
		return c
	}
	if v, ok := st.facts[c.id]; ok {
		return v
	}
	switch c.op {
	case "not":
		return Not(e.foldKnown(st, c.args[0]))
	case "and":
		return And(e.foldKnown(st, c.args[0]), e.foldKnown(st, c.args[1]))
	case "or":
		return Or(e.foldKnown(st, c.args[0]), e.foldKnown(st, c.args[1]))
	case "=":
		a, b := c.args[0], c.args[1]
		if v, ok := st.facts[a.id]; ok && b.k {
			return Bool(v.c == b.c)
		}
		if v, ok := st.facts[b.id]; ok && a.k {
			return Bool(v.c == a.c)
		}
	}
	return c
}

func (e *Engine) reach(st *State, label string) {
	if _, ok := e.Reached[label]; ok {
		return
	}
	vec, obs := e.vectorFor(st)
	if vec != nil {
		e.Reached[label] = vec
		e.ReachObs[label] = obs
	}
}

// ---- exploration ----

func (e *Engine) Explore(st *State) {
	defer func() {
		if r := recover(); r != nil {
			switch x := r.(type) {
			case pathEndQuiet:
			case pathEnd:
				e.Paths++
			case unsupported:
				e.Paths++
				e.Unsupp[x.why]++
				traceUnsupp(x.why)
				traceFrames(st, x.why)
			default:
				panic(r)
			}
		}
	}()
	for !st.done {
		if e.maxPaths > 0 && e.Paths > e.maxPaths {
			e.Unsupp["path budget exceeded"]++
			return
		}
		if e.Instrs&0x3ff == 0 && !e.deadline.IsZero() && time.Now().After(e.deadline) {
			e.Unsupp["harness time budget exceeded"]++
			return
		}
		e.safeStep(st)
	}
	if e.leafSink != nil {
		e.leafSink(st)
		return
	}
	e.Paths++
	e.Completed++
}

// safeStep executes one instruction; a resumeStep panic abandons the instruction (the state has
// been redirected, e.g. into a deferred call by the unwinder) and exploration continues.
func (e *Engine) safeStep(st *State) {
	defer func() {
		if r := recover(); r != nil {
			if _, ok := r.(resumeStep); ok {
				return
			}
			panic(r)
		}
	}()
	e.step(st)
}

// branch explores the alternatives (cond_i, continuation_i) depth-first.
// branchChecked is branch for alternatives already known to be feasible.
func (e *Engine) branchChecked(st *State, conds []*Term, apply func(st *State, i int)) {
	e.branchImpl(st, conds, apply, true)
}

func (e *Engine) branch(st *State, conds []*Term, apply func(st *State, i int)) {
	e.branchImpl(st, conds, apply, false)
}

func (e *Engine) branchImpl(st *State, conds []*Term, apply func(st *State, i int), checked bool) {
	feasible := []int{}
	for i, c := range conds {
		if checked {
			feasible = append(feasible, i)
			continue
		}
		if c.k {
			if c.c != 0 {
				feasible = append(feasible, i)
			}
			continue
		}
		if r := e.sv.Check(c); r != "unsat" {
			feasible = append(feasible, i)
		}
	}
	if len(feasible) == 0 {
		panic(pathEnd{})
	}
	e.Branches += len(feasible)
	if qprof != nil && len(st.frames) > 0 {
		f := st.top()
		pos := token.NoPos
		if f.ip > 0 && f.ip <= len(f.blk.Instrs) {
			pos = f.blk.Instrs[f.ip-1].Pos()
		}
		p := e.prog.Fset.Position(pos)
		qprof[fmt.Sprintf("FORK %s %s:%d", f.fn.Name(), p.Filename[strings.LastIndex(p.Filename, "/")+1:], p.Line)] += len(feasible) - 1
	}
	for n, i := range feasible {
		cur := st
		if n < len(feasible)-1 {
			cur = st.fork()
		}
		func() {
			e.sv.Push()
			defer e.sv.Pop()
			defer func() {
				if r := recover(); r != nil {
					switch x := r.(type) {
					case pathEndQuiet:
					case pathEnd:
						e.Paths++
					case unsupported:
						e.Paths++
						e.Unsupp[x.why]++
						traceUnsupp(x.why)
						traceFrames(cur, x.why)
					default:
						fmt.Fprintf(os.Stderr, "INTERNAL PANIC: %v\n%s\n", r, debug.Stack())
						os.Exit(4)
					}
				}
			}()
			e.assume(cur, conds[i])
			apply(cur, i)
			e.Explore(cur)
		}()
	}
	st.done = true
	panic(pathEndQuiet{})
}

type pathEndQuiet struct{}

func (e *Engine) run(st *State) {
	defer func() {
		if r := recover(); r != nil {
			if _, ok := r.(pathEndQuiet); ok {
				return
			}
			panic(r)
		}
	}()
	e.Explore(st)
}

func (e *Engine) pushFrame(st *State, fn *ssa.Function, args []Value, call ssa.Value) {
	if len(fn.Blocks) == 0 {
		panic(unsupported{"no body: " + fn.String()})
	}
	if len(st.frames) > 200 {
		panic(unsupported{"call depth"})
	}
	e.Entered[fn.String()] = true
	f := &Frame{fn: fn, env: map[ssa.Value]Value{}, blk: fn.Blocks[0], call: call, iter: map[*ssa.BasicBlock]int{}}
	for i, p := range fn.Params {
		f.env[p] = args[i]
	}
	st.frames = append(st.frames, f)
}

func (e *Engine) doReturn(st *State, vals []Value) {
	f := st.top()
	st.frames = st.frames[:len(st.frames)-1]
	if f.panicDefer {
		e.afterPanicDefer(st)
		return
	}
	var res Value
	switch len(vals) {
	case 0:
		res = TupleV{}
	case 1:
		res = vals[0]
	default:
		res = TupleV(vals)
	}
	if len(st.frames) == 0 {
		if st.curTID != 0 {
			e.threadExit(st)
			return
		}
		st.done = true
		st.result = res
		return
	}
	if f.post != nil {
		res = f.post(res)
	}
	if f.call != nil {
		st.top().env[f.call] = res
	}
}

func (e *Engine) step(st *State) {
	f := st.top()
	if f.ip >= len(f.blk.Instrs) {
		panic(unsupported{"fell off block in " + f.fn.String()})
	}
	ins := f.blk.Instrs[f.ip]
	f.ip++
	e.Instrs++
	if e.tolerant {
		defer func() {
			if r := recover(); r != nil {
				if u, ok := r.(unsupported); ok {
					if v, isV := ins.(ssa.Value); isV {
						f.env[v] = Unknown{u.why}
						return
					}
					switch ins.(type) {
					case *ssa.If, *ssa.Jump, *ssa.Return, *ssa.Panic:
						// abandon the failing callee: its result is unknown, the caller goes on
						if os.Getenv("GOSYM_INITDBG") != "" {
							fmt.Fprintf(os.Stderr, "init: abandoning %s at %s (%s)\n", f.fn, ins, u.why)
						}
						k := len(st.frames) - 1
						for k >= 0 && st.frames[k] != f {
							k--
						}
						if k <= 0 {
							panic(u)
						}
						st.frames = st.frames[:k]
						if f.call != nil {
							st.top().env[f.call] = Unknown{"init-time callee abandoned: " + u.why}
						}
						return
					}
					return
				}
				panic(r)
			}
		}()
	}
	e.exec(st, f, ins)
}

func (e *Engine) jump(st *State, f *Frame, to *ssa.BasicBlock) {
	f.prev, f.blk, f.ip = f.blk, to, 0
	f.iter[to]++
	if f.iter[to] > e.MaxIter {
		if !e.tolerant {
			// a loop that does not terminate within the derived bound: candidate violation of "no unbounded
			// loop"; the driver replays the model natively under a watchdog and only a real hang is reported
			pos := token.NoPos
			if len(to.Instrs) > 0 {
				pos = to.Instrs[0].Pos()
			}
			if pos == token.NoPos && f.fn.Pos() != token.NoPos {
				pos = f.fn.Pos()
			}
			e.report(st, Bool(true), fmt.Sprintf("loop in %s did not terminate within %d iterations", f.fn.Name(), e.MaxIter), pos, "unwind")
		}
		panic(unsupported{fmt.Sprintf("UNWIND bound %d exceeded in %s block %d", e.MaxIter, f.fn.Name(), to.Index)})
	}
	// phis are evaluated simultaneously
	var vals []Value
	var phis []*ssa.Phi
	for _, ins := range to.Instrs {
		phi, ok := ins.(*ssa.Phi)
		if !ok {
			break
		}
		for k, p := range to.Preds {
			if p == f.prev {
				vals = append(vals, e.get(st, phi.Edges[k]))
				break
			}
		}
		phis = append(phis, phi)
	}
	for i, phi := range phis {
		f.env[phi] = vals[i]
		f.ip++
	}
}

func isUnknown(vs ...Value) (Unknown, bool) {
	for _, v := range vs {
		if u, ok := v.(Unknown); ok {
			return u, true
		}
	}
	return Unknown{}, false
}

func (e *Engine) exec(st *State, f *Frame, ins ssa.Instruction) {
	switch i := ins.(type) {
	case *ssa.DebugRef:
	case *ssa.Alloc:
		o := newObjFor(i.Type().(*types.Pointer).Elem())
		f.env[i] = Pointer{obj: st.alloc(o), off: BV(64, 0)}
	case *ssa.BinOp:
		f.env[i] = e.binop(st, i, e.get(st, i.X), e.get(st, i.Y))
	case *ssa.UnOp:
		if i.Op == token.ARROW {
			e.execRecv(st, f, i)
			return
		}
		x := e.get(st, i.X)
		switch i.Op {
		case token.MUL:
			p, ok := x.(Pointer)
			if !ok {
				panic(unsupported{fmt.Sprintf("deref of %T", x)})
			}
			f.env[i] = e.load(st, p, i.Type(), i.Pos())
		case token.NOT:
			f.env[i] = Not(term(x))
		case token.SUB:
			t := term(x)
			f.env[i] = Bin("bvsub", BV(t.w, 0), t)
		case token.XOR:
			t := term(x)
			f.env[i] = Bin("bvxor", t, BV(t.w, mask(t.w)))
		default:
			panic(unsupported{"unop " + i.Op.String()})
		}
	case *ssa.Store:
		p, ok := e.get(st, i.Addr).(Pointer)
		if !ok {
			panic(unsupported{"store to non-pointer"})
		}
		e.store(st, p, i.Val.Type(), e.get(st, i.Val), i.Pos())
	case *ssa.FieldAddr:
		p, ok := e.get(st, i.X).(Pointer)
		if !ok {
			panic(unsupported{fmt.Sprintf("fieldaddr of %T at %s in %s", e.get(st, i.X), e.prog.Fset.Position(i.Pos()), f.fn)})
		}
		if p.obj == 0 {
			e.goPanic(st, "nil pointer dereference (field)", i.Pos())
		}
		stt := i.X.Type().Underlying().(*types.Pointer).Elem().Underlying().(*types.Struct)
		f.env[i] = Pointer{obj: p.obj, off: Bin("bvadd", p.off, BV(64, uint64(fieldOffset(stt, i.Field))))}
	case *ssa.Field:
		sv, ok := e.get(st, i.X).(StructV)
		if !ok {
			panic(unsupported{"field of non-struct value"})
		}
		f.env[i] = sv.f[i.Field]
	case *ssa.IndexAddr:
		idx := term(e.get(st, i.Index))
		idx = ext64(idx, i.Index.Type())
		switch x := e.get(st, i.X).(type) {
		case SliceV:
			e.oblige(st, Cmp("bvuge", idx, x.ln), "index out of range", i.Pos())
			f.env[i] = Pointer{obj: x.obj, off: Bin("bvadd", Bin("bvmul", x.off, BV(64, uint64(x.es))), Bin("bvmul", idx, BV(64, uint64(x.es))))}
		case Pointer: // pointer to array
			at := i.X.Type().Underlying().(*types.Pointer).Elem().Underlying().(*types.Array)
			e.oblige(st, Cmp("bvuge", idx, BV(64, uint64(at.Len()))), "index out of range", i.Pos())
			es := slotsOf(at.Elem())
			f.env[i] = Pointer{obj: x.obj, off: Bin("bvadd", x.off, Bin("bvmul", idx, BV(64, uint64(es))))}
		default:
			panic(unsupported{fmt.Sprintf("indexaddr of %T", x)})
		}
	case *ssa.Index:
		idx := ext64(term(e.get(st, i.Index)), i.Index.Type())
		switch x := e.get(st, i.X).(type) {
		case ArrayV:
			if !idx.k {
				var res *Term
				for j := len(x.e) - 1; j >= 0; j-- {
					ev := term(x.e[j])
					if res == nil {
						res = ev
					} else {
						res = Ite(Eq(idx, BV(64, uint64(j))), ev, res)
					}
				}
				e.oblige(st, Cmp("bvuge", idx, BV(64, uint64(len(x.e)))), "index out of range", i.Pos())
				f.env[i] = res
			} else {
				f.env[i] = x.e[idx.c]
			}
		case StringV:
			f.env[i] = e.stringIndex(st, x, idx, i.Pos())
		default:
			panic(unsupported{fmt.Sprintf("index of %T", x)})
		}
	case *ssa.Slice:
		f.env[i] = e.sliceOp(st, i)
	case *ssa.Convert:
		f.env[i] = e.convert(st, i.X.Type(), i.Type(), e.get(st, i.X), i.Pos())
	case *ssa.ChangeType:
		f.env[i] = e.get(st, i.X)
	case *ssa.ChangeInterface:
		f.env[i] = e.get(st, i.X)
	case *ssa.MakeInterface:
		f.env[i] = Iface{typ: i.X.Type(), val: e.get(st, i.X)}
	case *ssa.TypeAssert:
		f.env[i] = e.typeAssert(st, i)
	case *ssa.Extract:
		tv, ok := e.get(st, i.Tuple).(TupleV)
		if !ok {
			if u, isU := e.get(st, i.Tuple).(Unknown); isU {
				f.env[i] = u
				return
			}
			panic(unsupported{"extract of non-tuple"})
		}
		f.env[i] = tv[i.Index]
	case *ssa.Phi:
		// handled in jump; a phi in the entry block cannot occur
		panic(unsupported{"stray phi"})
	case *ssa.MakeClosure:
		fn := i.Fn.(*ssa.Function)
		b := make([]Value, len(i.Bindings))
		for k, x := range i.Bindings {
			b[k] = e.get(st, x)
		}
		f.env[i] = FuncV{fn: fn, bind: b}
	case *ssa.MakeSlice:
		ln, cp := term(e.get(st, i.Len)), term(e.get(st, i.Cap))
		ln, cp = ext64(ln, i.Len.Type()), ext64(cp, i.Cap.Type())
		e.oblige(st, Or(Cmp("bvslt", ln, BV(64, 0)), Cmp("bvslt", cp, ln)), "makeslice: len/cap out of range", i.Pos())
		et := i.Type().Underlying().(*types.Slice).Elem()
		if !cp.k {
			// allocate up to the maximal feasible capacity bound we can justify cheaply
			lim := uint64(4096)
			if b, isB := et.Underlying().(*types.Basic); isB && b.Kind() == types.Uint8 {
				lim = 1 << 16
			}
			ub, ok := e.maxValue(st, cp, lim)
			if !ok {
				// a capacity taken from untrusted input (make([]T, 0, wireCount)): modelled with cap == len;
				// appends then reallocate, which differs from Go only in the aliasing of spare capacity
				// that nothing else can reference for a fresh slice
				if lub, ok2 := e.maxValue(st, ln, 4096); ok2 {
					f.env[i] = e.newSlice(st, et, int(lub), ln, ln)
					return
				}
				// a length taken from untrusted input (make([]T, wireCount)): explored up to 64 elements;
				// larger counts are outside the claim and the bound is reported in the evidence
				p := e.prog.Fset.Position(i.Pos())
				modelsUsed[fmt.Sprintf("BOUND: make() length assumed <= 64 at %s:%d", p.Filename[strings.LastIndex(p.Filename, "/")+1:], p.Line)]++
				e.assume(st, Cmp("bvule", ln, BV(64, 64)))
				if e.sv.Check() == "unsat" {
					panic(pathEnd{})
				}
				f.env[i] = e.newSlice(st, et, 64, ln, ln)
				return
			}
			f.env[i] = e.newSlice(st, et, int(ub), ln, cp)
		} else {
			f.env[i] = e.newSlice(st, et, int(cp.c), ln, cp)
		}
	case *ssa.MakeMap:
		f.env[i] = MapV{obj: st.alloc(&Object{isMap: true, typ: i.Type()})}
	case *ssa.MapUpdate:
		m := e.get(st, i.Map).(MapV)
		if m.obj == 0 {
			e.goPanic(st, "assignment to entry in nil map", i.Pos())
		}
		e.mapUpdate(st, m, e.get(st, i.Key), e.get(st, i.Value))
	case *ssa.Lookup:
		f.env[i] = e.lookup(st, i)
	case *ssa.Range:
		f.env[i] = e.makeRange(st, e.get(st, i.X))
	case *ssa.Next:
		f.env[i] = e.next(st, i)
	case *ssa.SliceToArrayPointer:
		s := e.get(st, i.X).(SliceV)
		at := i.Type().Underlying().(*types.Pointer).Elem().Underlying().(*types.Array)
		e.oblige(st, Cmp("bvult", s.ln, BV(64, uint64(at.Len()))), "slice to array pointer: length too short", i.Pos())
		f.env[i] = Pointer{obj: s.obj, off: Bin("bvmul", s.off, BV(64, uint64(s.es)))}
	case *ssa.Call:
		e.call(st, f, i, &i.Call)
	case *ssa.Defer:
		fnv, args := e.resolveCall(st, &i.Call)
		f.defers = append(f.defers, deferred{fn: fnv, args: args})
	case *ssa.RunDefers:
		if len(f.defers) > 0 {
			d := f.defers[len(f.defers)-1]
			f.defers = f.defers[:len(f.defers)-1]
			f.ip-- // re-run RunDefers until the list is empty
			e.invoke(st, d.fn, d.args, nil, i.Pos())
		}
	case *ssa.Go:
		// single-threaded model: the spawned function is not run; its effects (channel pumps, timers)
		// are outside every claim. Recorded so the evidence lists it.
		fnv, args := e.resolveCall(st, &i.Call)
		e.spawn(st, fnv, args)
	case *ssa.MakeChan:
		sz := term(e.get(st, i.Size))
		capN := 0
		if sz.k {
			capN = int(sz.c)
		}
		f.env[i] = Pointer{obj: st.alloc(&Object{typ: i.Type(), isChan: true, chanCap: capN}), off: BV(64, 0)}
	case *ssa.Send:
		e.execSend(st, f, i)
	case *ssa.Select:
		e.execSelect(st, f, i)
	case *ssa.Jump:
		e.jump(st, f, f.blk.Succs[0])
	case *ssa.If:
		c := e.foldKnown(st, term(e.get(st, i.Cond)))
		if c.k {
			if c.c != 0 {
				e.jump(st, f, f.blk.Succs[0])
			} else {
				e.jump(st, f, f.blk.Succs[1])
			}
			return
		}
		succs := f.blk.Succs
		// the current path is feasible, so if one side is infeasible the other needs no query
		if e.sv.Check(c) == "unsat" {
			e.assumeFact(st, Not(c))
			e.jump(st, f, succs[1])
			return
		}
		if e.sv.Check(Not(c)) == "unsat" {
			e.assumeFact(st, c)
			e.jump(st, f, succs[0])
			return
		}
		e.branchChecked(st, []*Term{c, Not(c)}, func(s2 *State, k int) {
			e.jump(s2, s2.top(), succs[k])
		})
	case *ssa.Return:
		vals := make([]Value, len(i.Results))
		for k, r := range i.Results {
			vals[k] = e.get(st, r)
		}
		e.doReturn(st, vals)
	case *ssa.Panic:
		msg := "explicit panic"
		if iv, ok := e.get(st, i.X).(Iface); ok {
			if s, ok := iv.val.(StringV); ok && !s.isObj {
				msg += ": " + s.conc
			}
		}
		if e.canRecover(st) {
			e.startUnwindVal(st, e.get(st, i.X), msg, i.Pos())
			return
		}
		e.goPanic(st, msg, i.Pos())
	default:
		panic(unsupported{fmt.Sprintf("instruction %T", ins)})
	}
}

// maxValue returns an upper bound (<= limit) for the unsigned value of t on the current path. It
// need not be tight: callers use it to size allocations and guarded copies. A heuristic candidate
// (interval reasoning that ignores wrap-around) is validated with one solver query.
func (e *Engine) maxValue(st *State, t *Term, limit uint64) (uint64, bool) {
	if t.k {
		return t.c, t.c <= limit
	}
	if ub, ok := upperBound(t); ok && ub <= limit {
		return ub, true
	}
	if cand, ok := heurUB(st, t, 0); ok && cand < limit {
		if e.sv.Check(Cmp("bvugt", t, BV(t.w, cand))) == "unsat" {
			return cand, true
		}
	}
	for _, l := range []uint64{4, 16, 64, 256, 1024, 4096, 65536} {
		if l >= limit {
			break
		}
		if e.sv.Check(Cmp("bvugt", t, BV(t.w, l))) == "unsat" {
			return l, true
		}
	}
	if e.sv.Check(Cmp("bvugt", t, BV(t.w, limit))) == "unsat" {
		return limit, true
	}
	return 0, false
}

// heurUB: optimistic unsigned upper bound (subtraction assumed not to wrap); must be validated.
func heurUB(st *State, t *Term, depth int) (uint64, bool) {
	if depth > 40 {
		return 0, false
	}
	if t.k {
		return t.c, true
	}
	if v, ok := st.ubs[t.id]; ok {
		return v, true
	}
	switch t.op {
	case "zext":
		if v, ok := heurUB(st, t.args[0], depth+1); ok {
			return v, true
		}
		return mask(t.args[0].w), true
	case "select":
		return 255, true
	case "var":
		if t.w > 0 && t.w <= 16 {
			return mask(t.w), true
		}
	case "extract":
		if t.w <= 16 {
			return mask(t.w), true
		}
	case "concat":
		if t.w <= 16 {
			return mask(t.w), true
		}
	case "bvand":
		a, ok1 := heurUB(st, t.args[0], depth+1)
		b, ok2 := heurUB(st, t.args[1], depth+1)
		switch {
		case ok1 && ok2:
			return min(a, b), true
		case ok1:
			return a, true
		case ok2:
			return b, true
		}
	case "ite":
		a, ok1 := heurUB(st, t.args[1], depth+1)
		b, ok2 := heurUB(st, t.args[2], depth+1)
		if ok1 && ok2 {
			return max(a, b), true
		}
	case "bvadd":
		a, ok1 := heurUB(st, t.args[0], depth+1)
		b, ok2 := heurUB(st, t.args[1], depth+1)
		if ok1 && ok2 && a < 1<<40 && b < 1<<40 {
			return a + b, true
		}
		// x + (-k): treat as subtraction
		if ok1 && t.args[1].k && signExt(t.w, t.args[1].c) < 0 {
			return a, true
		}
	case "bvsub":
		return heurUB(st, t.args[0], depth+1)
	case "bvmul":
		a, ok1 := heurUB(st, t.args[0], depth+1)
		b, ok2 := heurUB(st, t.args[1], depth+1)
		if ok1 && ok2 && a < 1<<30 && b < 1<<30 {
			return a * b, true
		}
	case "bvlshr", "bvudiv":
		return heurUB(st, t.args[0], depth+1)
	case "bvshl":
		if t.args[1].k && t.args[1].c < 32 {
			if a, ok := heurUB(st, t.args[0], depth+1); ok && a < 1<<30 {
				return a << t.args[1].c, true
			}
		}
	case "bvor":
		a, ok1 := heurUB(st, t.args[0], depth+1)
		b, ok2 := heurUB(st, t.args[1], depth+1)
		if ok1 && ok2 && a < 1<<40 && b < 1<<40 {
			return a + b, true
		}
	}
	return 0, false
}

func (e *Engine) newSlice(st *State, et types.Type, n int, ln, cp *Term) SliceV {
	es := slotsOf(et)
	if b, ok := et.Underlying().(*types.Basic); ok && b.Kind() == types.Uint8 && n > 512 {
		// large byte buffers are held as one SMT array (all zero)
		o := &Object{typ: types.NewArray(et, int64(n)), n: n, arr: ConstArr(0)}
		return SliceV{obj: st.alloc(o), off: BV(64, 0), ln: ln, cap: cp, es: 1}
	}
	o := &Object{typ: types.NewArray(et, int64(n)), n: n * es}
	z := flatten(et, zeroValue(et), nil)
	for k := 0; k < n; k++ {
		o.slots = append(o.slots, z...)
	}
	return SliceV{obj: st.alloc(o), off: BV(64, 0), ln: ln, cap: cp, es: es}
}

func (e *Engine) binop(st *State, i *ssa.BinOp, x, y Value) Value {
	if u, ok := isUnknown(x, y); ok {
		panic(unsupported{"operand unknown: " + u.why})
	}
	if isFloatType(i.X.Type()) {
		return e.floatBinop(st, i, term(x), term(y))
	}
	switch a := x.(type) {
	case *Term:
		b := term(y)
		_, signed, _ := intWidth(i.X.Type())
		switch i.Op {
		case token.ADD:
			return Bin("bvadd", a, b)
		case token.SUB:
			return Bin("bvsub", a, b)
		case token.MUL:
			return Bin("bvmul", a, b)
		case token.QUO, token.REM:
			e.oblige(st, Eq(b, BV(b.w, 0)), "integer divide by zero", i.Pos())
			op := map[bool]map[token.Token]string{true: {token.QUO: "bvsdiv", token.REM: "bvsrem"}, false: {token.QUO: "bvudiv", token.REM: "bvurem"}}[signed][i.Op]
			return Bin(op, a, b)
		case token.AND:
			if a.w == 0 {
				return And(a, b)
			}
			return Bin("bvand", a, b)
		case token.OR:
			if a.w == 0 {
				return Or(a, b)
			}
			return Bin("bvor", a, b)
		case token.XOR:
			return Bin("bvxor", a, b)
		case token.AND_NOT:
			return Bin("bvand", a, Bin("bvxor", b, BV(b.w, mask(b.w))))
		case token.SHL, token.SHR:
			// Go: shift count is unsigned (or checked non-negative); counts >= width give 0 / sign fill
			cnt := b
			if cnt.w < a.w {
				cnt = ZExt(cnt, a.w)
			} else if cnt.w > a.w {
				big := Cmp("bvuge", cnt, BV(cnt.w, uint64(a.w)))
				cnt = Ite(big, BV(a.w, uint64(a.w)), Extract(cnt, a.w-1, 0))
			}
			if i.Op == token.SHL {
				return Bin("bvshl", a, cnt)
			}
			if signed {
				return Bin("bvashr", a, cnt)
			}
			return Bin("bvlshr", a, cnt)
		case token.EQL:
			return Eq(a, b)
		case token.NEQ:
			return Not(Eq(a, b))
		case token.LSS, token.LEQ, token.GTR, token.GEQ:
			op := map[token.Token]string{token.LSS: "lt", token.LEQ: "le", token.GTR: "gt", token.GEQ: "ge"}[i.Op]
			if signed {
				return Cmp("bvs"+op, a, b)
			}
			return Cmp("bvu"+op, a, b)
		}
	case Pointer:
		b, isP := y.(Pointer)
		if !isP {
			if iv, isI := y.(Iface); isI && a.obj == 0 {
				eq := Bool(iv.typ == nil)
				if i.Op == token.EQL {
					return eq
				}
				return Not(eq)
			}
			panic(unsupported{fmt.Sprintf("pointer compared with %T", y)})
		}
		eq := Bool(a.obj == b.obj)
		if a.obj == b.obj && a.obj != 0 {
			eq = Eq(a.off, b.off)
		}
		switch i.Op {
		case token.EQL:
			return eq
		case token.NEQ:
			return Not(eq)
		}
	case Iface:
		b, isI := y.(Iface)
		if !isI {
			if p, isP := y.(Pointer); isP && p.obj == 0 {
				b = Iface{}
			} else {
				panic(unsupported{fmt.Sprintf("interface compared with %T", y)})
			}
		}
		eq := e.ifaceEq(st, a, b)
		switch i.Op {
		case token.EQL:
			return eq
		case token.NEQ:
			return Not(eq)
		}
	case StringV:
		b := y.(StringV)
		switch i.Op {
		case token.ADD:
			if !a.isObj && !b.isObj && !a.opaque && !b.opaque {
				return StringV{conc: a.conc + b.conc}
			}
			if !a.opaque && !b.opaque {
				if xa, ok1 := e.stringBytes(st, a); ok1 {
					if xb, ok2 := e.stringBytes(st, b); ok2 {
						all := append(append([]*Term(nil), xa...), xb...)
						o := &Object{typ: types.NewArray(types.Typ[types.Uint8], int64(len(all))), n: len(all)}
						for _, t := range all {
							o.slots = append(o.slots, t)
						}
						return StringV{isObj: true, obj: st.alloc(o), off: BV(64, 0), ln: BV(64, uint64(len(all)))}
					}
				}
			}
			return StringV{opaque: true, nonEmpty: a.nonEmpty || b.nonEmpty || (!a.isObj && !a.opaque && a.conc != "") || (!b.isObj && !b.opaque && b.conc != "")}
		case token.EQL, token.NEQ:
			eq := e.stringEq(st, a, b)
			if i.Op == token.NEQ {
				return Not(eq)
			}
			return eq
		case token.LSS, token.GTR, token.LEQ, token.GEQ:
			if !a.isObj && !b.isObj && !a.opaque && !b.opaque {
				switch i.Op {
				case token.LSS:
					return Bool(a.conc < b.conc)
				case token.GTR:
					return Bool(a.conc > b.conc)
				case token.LEQ:
					return Bool(a.conc <= b.conc)
				default:
					return Bool(a.conc >= b.conc)
				}
			}
		}
	case SliceV:
		// only comparison with nil is legal
		b := y.(SliceV)
		isNil := Bool(a.obj == 0 && b.obj == 0)
		if i.Op == token.EQL {
			return isNil
		}
		return Not(isNil)
	case MapV:
		b := y.(MapV)
		if i.Op == token.EQL {
			return Bool(a.obj == b.obj)
		}
		return Bool(a.obj != b.obj)
	case FuncV:
		b := y.(FuncV)
		isNil := Bool(a.fn == nil && a.name == "" && b.fn == nil && b.name == "")
		if i.Op == token.EQL {
			return isNil
		}
		return Not(isNil)
	case StructV:
		eq := e.valueEq(st, i.X.Type(), a, y)
		if i.Op == token.EQL {
			return eq
		}
		return Not(eq)
	case ArrayV:
		eq := e.valueEq(st, i.X.Type(), a, y)
		if i.Op == token.EQL {
			return eq
		}
		return Not(eq)
	}
	panic(unsupported{fmt.Sprintf("binop %s on %T", i.Op, x)})
}

func (e *Engine) valueEq(st *State, t types.Type, x, y Value) *Term {
	switch u := t.Underlying().(type) {
	case *types.Struct:
		a, b := x.(StructV), y.(StructV)
		res := Bool(true)
		for k := 0; k < u.NumFields(); k++ {
			res = And(res, e.valueEq(st, u.Field(k).Type(), a.f[k], b.f[k]))
		}
		return res
	case *types.Array:
		a, b := x.(ArrayV), y.(ArrayV)
		res := Bool(true)
		for k := range a.e {
			res = And(res, e.valueEq(st, u.Elem(), a.e[k], b.e[k]))
		}
		return res
	}
	switch a := x.(type) {
	case *Term:
		return Eq(a, term(y))
	case Pointer:
		b := y.(Pointer)
		if a.obj != b.obj {
			return Bool(false)
		}
		if a.obj == 0 {
			return Bool(true)
		}
		return Eq(a.off, b.off)
	case StringV:
		return e.stringEq(st, a, y.(StringV))
	case Iface:
		return e.ifaceEq(st, a, y.(Iface))
	}
	panic(unsupported{fmt.Sprintf("valueEq on %T", x)})
}

func (e *Engine) ifaceEq(st *State, a, b Iface) *Term {
	if a.typ == nil || b.typ == nil {
		return Bool(a.typ == nil && b.typ == nil)
	}
	if !types.Identical(a.typ, b.typ) {
		return Bool(false)
	}
	return e.valueEq(st, a.typ, a.val, b.val)
}

func (e *Engine) stringBytes(st *State, s StringV) ([]*Term, bool) {
	if s.opaque {
		return nil, false
	}
	if !s.isObj {
		out := make([]*Term, len(s.conc))
		for k := 0; k < len(s.conc); k++ {
			out[k] = BV(8, uint64(s.conc[k]))
		}
		return out, true
	}
	if !s.ln.k || !s.off.k {
		return nil, false
	}
	out := make([]*Term, s.ln.c)
	for k := range out {
		out[k] = term(e.load(st, Pointer{obj: s.obj, off: BV(64, s.off.c+uint64(k))}, types.Typ[types.Uint8], token.NoPos))
	}
	return out, true
}

func (e *Engine) stringEq(st *State, a, b StringV) *Term {
	if !a.isObj && !b.isObj && !a.opaque && !b.opaque {
		return Bool(a.conc == b.conc)
	}
	// comparisons with "" only need emptiness
	if !b.isObj && !b.opaque && b.conc == "" {
		if a.opaque {
			if a.nonEmpty {
				return Bool(false)
			}
			return e.internalVar("strempty", 0)
		}
		return Eq(a.ln, BV(64, 0))
	}
	if !a.isObj && !a.opaque && a.conc == "" {
		return e.stringEq(st, b, a)
	}
	x, ok1 := e.stringBytes(st, a)
	y, ok2 := e.stringBytes(st, b)
	if !ok1 || !ok2 {
		// symbolic lengths (both backed by objects): equal lengths and equal bytes below the length
		if a.isObj && b.isObj && !a.opaque && !b.opaque {
			na, oka := e.maxValue(st, a.ln, 512)
			nb, okb := e.maxValue(st, b.ln, 512)
			if oka && okb {
				n := na
				if nb < n {
					n = nb
				}
				res := Eq(a.ln, b.ln)
				for k := uint64(0); k < n; k++ {
					ca := term(e.load(st, Pointer{obj: a.obj, off: Bin("bvadd", a.off, BV(64, k))}, types.Typ[types.Uint8], token.NoPos))
					cb := term(e.load(st, Pointer{obj: b.obj, off: Bin("bvadd", b.off, BV(64, k))}, types.Typ[types.Uint8], token.NoPos))
					res = And(res, Or(Cmp("bvuge", BV(64, k), a.ln), Eq(ca, cb)))
				}
				return res
			}
		}
		panic(unsupported{"string equality on opaque/symbolic-length strings"})
	}
	if len(x) != len(y) {
		return Bool(false)
	}
	res := Bool(true)
	for k := range x {
		res = And(res, Eq(x[k], y[k]))
	}
	return res
}

func (e *Engine) stringIndex(st *State, s StringV, idx *Term, pos token.Pos) Value {
	idx = SExt(idx, 64)
	if !s.isObj {
		if s.opaque {
			panic(unsupported{"index of opaque string"})
		}
		e.oblige(st, Cmp("bvuge", idx, BV(64, uint64(len(s.conc)))), "string index out of range", pos)
		if idx.k {
			return BV(8, uint64(s.conc[idx.c]))
		}
		var res *Term
		for j := len(s.conc) - 1; j >= 0; j-- {
			c := BV(8, uint64(s.conc[j]))
			if res == nil {
				res = c
			} else {
				res = Ite(Eq(idx, BV(64, uint64(j))), c, res)
			}
		}
		return res
	}
	e.oblige(st, Cmp("bvuge", idx, s.ln), "string index out of range", pos)
	return e.load(st, Pointer{obj: s.obj, off: Bin("bvadd", s.off, idx)}, types.Typ[types.Uint8], pos)
}

func (e *Engine) sliceOp(st *State, i *ssa.Slice) Value {
	var lo, hi, mx *Term
	if i.Low != nil {
		lo = ext64(term(e.get(st, i.Low)), i.Low.Type())
	} else {
		lo = BV(64, 0)
	}
	if i.High != nil {
		hi = ext64(term(e.get(st, i.High)), i.High.Type())
	}
	if i.Max != nil {
		mx = ext64(term(e.get(st, i.Max)), i.Max.Type())
	}
	switch x := e.get(st, i.X).(type) {
	case SliceV:
		if hi == nil {
			hi = x.ln
		}
		capT := x.cap
		if mx != nil {
			e.oblige(st, Cmp("bvugt", mx, x.cap), "slice bounds out of range (max > cap)", i.Pos())
			capT = mx
		}
		e.oblige(st, Or(Cmp("bvugt", hi, capT), Cmp("bvugt", lo, hi)), "slice bounds out of range", i.Pos())
		obj := x.obj
		return SliceV{obj: obj, off: Bin("bvadd", x.off, lo), ln: Bin("bvsub", hi, lo), cap: Bin("bvsub", capT, lo), es: x.es}
	case StringV:
		if x.opaque {
			panic(unsupported{"slice of opaque string"})
		}
		if !x.isObj {
			if hi == nil {
				hi = BV(64, uint64(len(x.conc)))
			}
			e.oblige(st, Or(Cmp("bvugt", hi, BV(64, uint64(len(x.conc)))), Cmp("bvugt", lo, hi)), "string slice bounds out of range", i.Pos())
			if lo.k && hi.k {
				return StringV{conc: x.conc[lo.c:hi.c]}
			}
			panic(unsupported{"symbolic slice of concrete string"})
		}
		if hi == nil {
			hi = x.ln
		}
		e.oblige(st, Or(Cmp("bvugt", hi, x.ln), Cmp("bvugt", lo, hi)), "string slice bounds out of range", i.Pos())
		return StringV{isObj: true, obj: x.obj, off: Bin("bvadd", x.off, lo), ln: Bin("bvsub", hi, lo)}
	case Pointer: // pointer to array
		at := i.X.Type().Underlying().(*types.Pointer).Elem().Underlying().(*types.Array)
		n := BV(64, uint64(at.Len()))
		if hi == nil {
			hi = n
		}
		capT := n
		if mx != nil {
			e.oblige(st, Cmp("bvugt", mx, n), "slice bounds out of range (max > cap)", i.Pos())
			capT = mx
		}
		e.oblige(st, Or(Cmp("bvugt", hi, capT), Cmp("bvugt", lo, hi)), "slice bounds out of range", i.Pos())
		es := slotsOf(at.Elem())
		if x.obj == 0 {
			e.goPanic(st, "nil pointer dereference (slice of nil array pointer)", i.Pos())
		}
		if !x.off.k || x.off.c%uint64(es) != 0 {
			panic(unsupported{"slice of array at symbolic offset"})
		}
		return SliceV{obj: x.obj, off: Bin("bvadd", BV(64, x.off.c/uint64(es)), lo), ln: Bin("bvsub", hi, lo), cap: Bin("bvsub", capT, lo), es: es}
	}
	panic(unsupported{fmt.Sprintf("slice of %T", e.get(st, i.X))})
}

func (e *Engine) convert(st *State, from, to types.Type, v Value, pos token.Pos) Value {
	if u, ok := v.(Unknown); ok {
		return u
	}
	fw, fsigned, fok := intWidth(from)
	tw, _, tok := intWidth(to)
	if fok && tok && fw > 0 && tw > 0 {
		t := term(v)
		if tw <= fw {
			return Extract(t, tw-1, 0)
		}
		if fsigned {
			return SExt(t, tw)
		}
		return ZExt(t, tw)
	}
	fb, _ := from.Underlying().(*types.Basic)
	tb, _ := to.Underlying().(*types.Basic)
	// string <-> []byte
	if fb != nil && fb.Info()&types.IsString != 0 {
		if ts, ok := to.Underlying().(*types.Slice); ok {
			if b, isB := ts.Elem().Underlying().(*types.Basic); isB && b.Kind() == types.Uint8 {
				s := v.(StringV)
				bs, ok := e.stringBytes(st, s)
				if !ok {
					// symbolic-length string: the copy is a snapshot of the string's bytes
					src, ok2 := e.strToSlice(st, s)
					if !ok2 {
						panic(unsupported{"[]byte(opaque string)"})
					}
					obj := e.snapshotBytes(st, src, pos)
					return SliceV{obj: obj.obj, off: obj.off, ln: src.ln, cap: src.ln, es: 1}
				}
				sl := e.newSlice(st, ts.Elem(), len(bs), BV(64, uint64(len(bs))), BV(64, uint64(len(bs))))
				o := st.wobj(sl.obj)
				for k, b := range bs {
					o.slots[k] = b
				}
				return sl
			}
		}
	}
	if tb != nil && tb.Info()&types.IsString != 0 {
		if sv, ok := v.(SliceV); ok { // string([]byte): copy
			if sv.obj == 0 {
				return StringV{}
			}
			if sv.ln.k && sv.off.k {
				o := st.obj(sv.obj)
				if o.arr == nil {
					allConst := true
					buf := make([]byte, sv.ln.c)
					for k := range buf {
						t, isT := o.slots[int(sv.off.c)+k].(*Term)
						if !isT || !t.k {
							allConst = false
							break
						}
						buf[k] = byte(t.c)
					}
					if allConst {
						return StringV{conc: string(buf)}
					}
				}
				// snapshot symbolic bytes into a fresh immutable object
				no := &Object{typ: o.typ, n: int(sv.ln.c)}
				for k := 0; k < int(sv.ln.c); k++ {
					no.slots = append(no.slots, e.load(st, Pointer{obj: sv.obj, off: BV(64, sv.off.c+uint64(k))}, types.Typ[types.Uint8], pos))
				}
				return StringV{isObj: true, obj: st.alloc(no), off: BV(64, 0), ln: sv.ln}
			}
			snap := e.snapshotBytes(st, sv, pos)
			return StringV{isObj: true, obj: snap.obj, off: snap.off, ln: sv.ln}
		}
		if fok && fw > 0 { // string(rune)
			panic(unsupported{"string(int)"})
		}
	}
	// pointer <-> unsafe.Pointer
	if _, ok := v.(Pointer); ok {
		return v
	}
	// floating point: exact on constants, otherwise an unconstrained value (DESIGN 3.1: nothing is
	// claimed about values computed in floating point)
	if isFloatType(from) || isFloatType(to) {
		t := term(v)
		toW := 64
		if tb != nil && tb.Kind() == types.Float32 {
			toW = 32
		}
		if tw > 0 && tok {
			toW = tw
		}
		if t.k {
			var f float64
			switch {
			case isFloatType(from) && fb.Kind() == types.Float32:
				f = float64(math.Float32frombits(uint32(t.c)))
			case isFloatType(from):
				f = math.Float64frombits(t.c)
			case fsigned:
				f = float64(signExt(t.w, t.c))
			default:
				f = float64(t.c)
			}
			switch {
			case isFloatType(to) && tb.Kind() == types.Float32:
				return BV(32, uint64(math.Float32bits(float32(f))))
			case isFloatType(to):
				return BV(64, math.Float64bits(f))
			default:
				_, tsigned, _ := intWidth(to)
				if tsigned {
					return BV(toW, uint64(int64(f)))
				}
				return BV(toW, uint64(f))
			}
		}
		modelsUsed["floating point on symbolic operands: SMT FloatingPoint theory (IEEE 754, RNE)"]++
		switch {
		case isFloatType(from) && isFloatType(to):
			if t.w == toW {
				return t
			}
			r := e.internalVar("float", toW)
			e.assume(st, FPCvt(r, t))
			return r
		case isFloatType(to):
			r := e.internalVar("float", toW)
			e.assume(st, FPFromInt(fsigned, r, t))
			return r
		default:
			_, tsigned, _ := intWidth(to)
			return FPToInt(tsigned, toW, t)
		}
	}
	panic(unsupported{fmt.Sprintf("convert %v -> %v", from, to)})
}

// strToSlice views a string as a byte slice (concrete strings are materialised as constant objects).
func (e *Engine) strToSlice(st *State, s StringV) (SliceV, bool) {
	if s.opaque {
		return SliceV{}, false
	}
	if s.isObj {
		return SliceV{obj: s.obj, off: s.off, ln: s.ln, cap: s.ln, es: 1}, true
	}
	n := len(s.conc)
	o := &Object{typ: types.NewArray(types.Typ[types.Uint8], int64(n)), n: n}
	for k := 0; k < n; k++ {
		o.slots = append(o.slots, BV(8, uint64(s.conc[k])))
	}
	return SliceV{obj: st.alloc(o), off: BV(64, 0), ln: BV(64, uint64(n)), cap: BV(64, uint64(n)), es: 1}, true
}

// snapshotBytes copies the bytes of a (possibly symbolic-length) byte slice into a fresh immutable
// object and returns a pointer (object, offset) to the first byte of the copy.
func (e *Engine) snapshotBytes(st *State, sv SliceV, pos token.Pos) Pointer {
	o := st.obj(sv.obj)
	if o.arr != nil {
		// SMT arrays are values: sharing the current array term is a snapshot
		no := &Object{arr: o.arr, n: o.n, typ: o.typ, poisonFrom: o.poisonFrom}
		return Pointer{obj: st.alloc(no), off: sv.off}
	}
	ub, ok := e.maxValue(st, sv.ln, 4096)
	if !ok {
		panic(unsupported{"string/[]byte conversion of unbounded symbolic length at " + e.prog.Fset.Position(pos).String()})
	}
	no := &Object{typ: types.NewArray(types.Typ[types.Uint8], int64(ub)), n: int(ub)}
	for k := 0; k < int(ub); k++ {
		no.slots = append(no.slots, e.guardedRead(st, sv, k, 1, types.Typ[types.Uint8], pos))
	}
	return Pointer{obj: st.alloc(no), off: BV(64, 0)}
}

func (e *Engine) typeAssert(st *State, i *ssa.TypeAssert) Value {
	x := e.get(st, i.X)
	if u, ok := x.(Unknown); ok {
		panic(unsupported{"typeassert on unknown: " + u.why})
	}
	iv := x.(Iface)
	ok := false
	var res Value
	if iv.typ != nil {
		if it, isI := i.AssertedType.Underlying().(*types.Interface); isI {
			ok = types.Implements(iv.typ, it)
			res = iv
		} else {
			ok = types.Identical(iv.typ, i.AssertedType)
			res = iv.val
		}
	}
	if i.CommaOk {
		if !ok {
			res = zeroValue(i.AssertedType)
		}
		return TupleV{res, Bool(ok)}
	}
	if !ok {
		e.goPanic(st, fmt.Sprintf("interface conversion: %v is not %v", iv.typ, i.AssertedType), i.Pos())
	}
	return res
}

// ---- maps (association lists, insertion ordered) ----

func (e *Engine) keyEq(st *State, kt types.Type, a, b Value) *Term { return e.valueEq(st, kt, a, b) }

func (e *Engine) mapUpdate(st *State, m MapV, k, v Value) {
	o := st.wobj(m.obj)
	kt := o.typ.Underlying().(*types.Map).Key()
	for j := range o.keys {
		eq := e.keyEq(st, kt, o.keys[j], k)
		if eq.k && eq.c != 0 {
			o.vals[j] = v
			return
		}
		if !eq.k {
			// possibly-equal symbolic key: append a shadowing entry (lookups scan newest first)
			break
		}
	}
	o.keys = append(o.keys, k)
	o.vals = append(o.vals, v)
}

func (e *Engine) lookup(st *State, i *ssa.Lookup) Value {
	x := e.get(st, i.X)
	idx := e.get(st, i.Index)
	if s, ok := x.(StringV); ok {
		return e.stringIndex(st, s, ext64(term(idx), i.Index.Type()), i.Pos())
	}
	m := x.(MapV)
	vt := i.X.Type().Underlying().(*types.Map).Elem()
	kt := i.X.Type().Underlying().(*types.Map).Key()
	var res Value = zeroValue(vt)
	found := Bool(false)
	type cand struct {
		eq  *Term
		val Value
	}
	var cands []cand
	if m.obj != 0 {
		o := st.obj(m.obj)
		for j := 0; j < len(o.keys); j++ { // oldest first; newer entries override
			eq := e.keyEq(st, kt, o.keys[j], idx)
			if eq.k && eq.c == 0 {
				continue
			}
			cands = append(cands, cand{eq, o.vals[j]})
		}
	}
	mergeable := true
	func() {
		defer func() {
			if r := recover(); r != nil {
				if _, ok := r.(unsupported); ok {
					mergeable = false
					return
				}
				panic(r)
			}
		}()
		for _, c := range cands {
			res = e.iteValue(c.eq, c.val, res)
			found = Or(found, c.eq)
		}
	}()
	if !mergeable {
		// values that cannot be combined by ite (pointers, interfaces): fork on the entry that matches.
		// Newer entries shadow older ones, so alternative k requires no later candidate to match.
		conds := make([]*Term, 0, len(cands)+1)
		none := Bool(true)
		for k := range cands {
			c := cands[k].eq
			for _, later := range cands[k+1:] {
				c = And(c, Not(later.eq))
			}
			conds = append(conds, c)
			none = And(none, Not(cands[k].eq))
		}
		conds = append(conds, none)
		e.branch(st, conds, func(s2 *State, k int) {
			var v Value = zeroValue(vt)
			ok := Bool(false)
			if k < len(cands) {
				v, ok = cands[k].val, Bool(true)
			}
			if i.CommaOk {
				s2.top().env[i] = TupleV{v, ok}
			} else {
				s2.top().env[i] = v
			}
		})
		panic("unreachable")
	}
	if i.CommaOk {
		return TupleV{res, found}
	}
	return res
}

func (e *Engine) iteValue(c *Term, a, b Value) Value {
	if c.k {
		if c.c != 0 {
			return a
		}
		return b
	}
	switch x := a.(type) {
	case *Term:
		return Ite(c, x, term(b))
	case StructV:
		y := b.(StructV)
		f := make([]Value, len(x.f))
		for k := range f {
			f[k] = e.iteValue(c, x.f[k], y.f[k])
		}
		return StructV{f}
	}
	panic(unsupported{fmt.Sprintf("ite over %T (symbolic map key with non-scalar values)", a)})
}

type rangeIter struct {
	keys []Value
	vals []Value
	pos  *int
	str  *StringV
}

func (e *Engine) makeRange(st *State, x Value) Value {
	switch v := x.(type) {
	case MapV:
		p := 0
		if v.obj == 0 {
			return rangeIter{pos: &p}
		}
		o := st.obj(v.obj)
		return rangeIter{keys: append([]Value(nil), o.keys...), vals: append([]Value(nil), o.vals...), pos: &p}
	case StringV:
		if v.isObj || v.opaque {
			panic(unsupported{"range over symbolic string"})
		}
		p := 0
		return rangeIter{str: &v, pos: &p}
	}
	panic(unsupported{fmt.Sprintf("range over %T", x)})
}

func (e *Engine) next(st *State, i *ssa.Next) Value {
	it := e.get(st, i.Iter).(rangeIter)
	// the iterator position must be per-state: store it in the frame env as a fresh iterator
	p := *it.pos
	np := p + 1
	nit := it
	nit.pos = &np
	st.top().env[i.Iter] = nit
	if it.str != nil {
		s := it.str.conc
		if p >= len(s) {
			return TupleV{Bool(false), BV(64, 0), BV(32, 0)}
		}
		if s[p] >= 0x80 {
			panic(unsupported{"range over non-ASCII string"})
		}
		return TupleV{Bool(true), BV(64, uint64(p)), BV(32, uint64(s[p]))}
	}
	tt := i.Type().(*types.Tuple)
	if p >= len(it.keys) {
		return TupleV{Bool(false), zeroValue(tt.At(1).Type()), zeroValue(tt.At(2).Type())}
	}
	return TupleV{Bool(true), it.keys[p], it.vals[p]}
}

// ---- calls ----

func (e *Engine) resolveCall(st *State, c *ssa.CallCommon) (Value, []Value) {
	var args []Value
	if c.IsInvoke() {
		recv := e.get(st, c.Value)
		if u, ok := recv.(Unknown); ok {
			panic(unsupported{"invoke on unknown: " + u.why})
		}
		iv := recv.(Iface)
		if iv.typ == nil {
			return FuncV{name: "$nilinvoke"}, nil
		}
		if iv.typ == opaqueErrType {
			if c.Method.Name() == "Error" {
				return FuncV{name: "$opaqueErrorString"}, nil
			}
			panic(unsupported{"method " + c.Method.Name() + " on an error built by fmt.Errorf (opaque)"})
		}
		ms := e.prog.MethodSets.MethodSet(iv.typ)
		sel := ms.Lookup(c.Method.Pkg(), c.Method.Name())
		if sel == nil {
			panic(unsupported{fmt.Sprintf("method %s not found on %v", c.Method.Name(), iv.typ)})
		}
		fn := e.prog.MethodValue(sel)
		args = append(args, iv.val)
		for _, a := range c.Args {
			args = append(args, e.get(st, a))
		}
		return FuncV{fn: fn}, args
	}
	fv := e.get(st, c.Value)
	for _, a := range c.Args {
		args = append(args, e.get(st, a))
	}
	return fv, args
}

func (e *Engine) call(st *State, f *Frame, i *ssa.Call, c *ssa.CallCommon) {
	fv, args := e.resolveCall(st, c)
	e.invoke(st, fv, args, i, i.Pos())
}

func (e *Engine) invoke(st *State, fv Value, args []Value, call *ssa.Call, pos token.Pos) {
	var callV ssa.Value
	if call != nil {
		callV = call
	}
	setRes := func(v Value) {
		if call != nil {
			st.top().env[call] = v
		}
	}
	fn, ok := fv.(FuncV)
	if !ok {
		if u, isU := fv.(Unknown); isU {
			panic(unsupported{"call of unknown func: " + u.why})
		}
		panic(unsupported{fmt.Sprintf("call of %T", fv)})
	}
	if fn.name == "$nilinvoke" {
		e.goPanic(st, "nil pointer dereference (method call on nil interface)", pos)
	}
	if fn.fn == nil {
		if fn.name == "" {
			e.goPanic(st, "call of nil function", pos)
		}
		if fn.name == "$swapElems" {
			sl := fn.bind[0].(SliceV)
			i, j := SExt(term(args[0]), 64), SExt(term(args[1]), 64)
			o := st.obj(sl.obj)
			et := o.elemType()
			pi := Pointer{obj: sl.obj, off: Bin("bvmul", Bin("bvadd", sl.off, i), BV(64, uint64(sl.es)))}
			pj := Pointer{obj: sl.obj, off: Bin("bvmul", Bin("bvadd", sl.off, j), BV(64, uint64(sl.es)))}
			vi, vj := e.load(st, pi, et, pos), e.load(st, pj, et, pos)
			e.store(st, pi, et, vj, pos)
			e.store(st, pj, et, vi, pos)
			setRes(TupleV{})
			return
		}
		setRes(e.builtin(st, fn.name, args, call, pos))
		return
	}
	name := fn.fn.String()
	if !e.tolerant && !e.symbolicText && fn.fn.Name() == "String" && len(args) == 1 && isStringMethod(fn.fn) && (alwaysOpaqueString[name] || e.hasSymbolic(st, args[0], 0, map[ObjID]bool{})) {
		// environment model (DESIGN 3.6): text rendering of a value with symbolic fields is an opaque,
		// non-empty string; nothing is claimed about rendered text
		modelsUsed["String() of a value with symbolic fields -> opaque string"]++
		setRes(StringV{opaque: true, nonEmpty: true})
		return
	}
	if name == "sort.Slice" || name == "sort.SliceStable" {
		// modelled by a stable insertion sort written in Go (prelude helper vInsertionSort) that calls
		// the real less closure; the reflect-based swapper is replaced by an engine builtin.
		modelsUsed["sort.Slice (insertion sort calling the real less)"]++
		iv, ok := args[0].(Iface)
		if !ok {
			panic(unsupported{"sort.Slice on non-interface"})
		}
		sl, ok := iv.val.(SliceV)
		if !ok {
			panic(unsupported{"sort.Slice on non-slice"})
		}
		helper := e.target.Func("vInsertionSort")
		if helper == nil {
			panic(unsupported{"prelude helper vInsertionSort missing"})
		}
		e.pushFrame(st, helper, []Value{sl.ln, args[1], FuncV{name: "$swapElems", bind: []Value{sl}}}, callV)
		return
	}
	if fn.name == "" && false {
		return
	}
	if m, ok := lookupModel(fn.fn); ok {
		r := m(e, st, args, call, pos)
		if _, none := r.(noModel); none {
			goto interpret
		}
		if tc, isTC := r.(tailCall); isTC {
			e.invoke(st, tc.fn, tc.args, call, pos)
			return
		}
		if tc, isTC := r.(tailCall2); isTC {
			n := len(st.frames)
			e.invoke(st, tc.fn, tc.args, call, pos)
			if len(st.frames) > n {
				st.top().post = tc.post
			} else if call != nil {
				st.top().env[call] = tc.post(st.top().env[call])
			}
			return
		}
		setRes(r)
		return
	}
interpret:
	if e.tolerant && fn.fn.Synthetic == "package initializer" {
		pp := fn.fn.Pkg.Pkg.Path()
		if !initAllowed(pp) {
			return // this package's initialiser is not interpreted; its globals are flagged on use
		}
		e.initPkgs[pp] = true
	} else if e.tolerant && fn.fn.Pkg != nil && len(st.frames) > 0 {
		pp := fn.fn.Pkg.Pkg.Path()
		if !initAllowed(pp) {
			if call != nil {
				setRes(Unknown{"init-time call into " + pp})
			}
			return
		}
	}
	if len(e.mergeSet) > 0 && (e.mergeSet[name] || e.mergeSet[shortFnName(name)]) && len(fn.fn.Blocks) > 0 && !e.tolerant {
		e.summarize(st, fn.fn, args, fn.bind, call, pos)
		return
	}
	if fn.fn.Synthetic != "" && strings.HasPrefix(fn.fn.Synthetic, "wrapper for") || len(fn.fn.Blocks) > 0 {
		all := append(append([]Value{}, args...), nil)[:len(args)]
		e.pushFrame(st, fn.fn, all, callV)
		// free variables
		fr := st.top()
		for k, fvv := range fn.fn.FreeVars {
			fr.env[fvv] = fn.bind[k]
		}
		return
	}
	panic(unsupported{"no body/model: " + name})
}

func opaqueZero(t types.Type) Value {
	if tt, ok := t.(*types.Tuple); ok && tt.Len() == 0 {
		return TupleV{}
	}
	return zeroValue(t)
}

func (e *Engine) builtin(st *State, name string, args []Value, call *ssa.Call, pos token.Pos) Value {
	switch name {
	case "len":
		switch x := args[0].(type) {
		case SliceV:
			return x.ln
		case StringV:
			if x.isObj {
				return x.ln
			}
			if x.opaque {
				l := e.internalVar("opaquelen", 64)
				lo := uint64(0)
				if x.nonEmpty {
					lo = 1
				}
				e.assume(st, And(Cmp("bvuge", l, BV(64, lo)), Cmp("bvule", l, BV(64, 1<<16))))
				return l
			}
			return BV(64, uint64(len(x.conc)))
		case MapV:
			if x.obj == 0 {
				return BV(64, 0)
			}
			o := st.obj(x.obj)
			// exact only if all keys are pairwise distinct constants
			return BV(64, uint64(len(o.keys)))
		case Pointer: // *[N]T or channel
			if _, isCh := call.Call.Args[0].Type().Underlying().(*types.Chan); isCh {
				if o, _ := chanObj(st, x); o != nil {
					return BV(64, uint64(len(o.vals)))
				}
				return BV(64, 0)
			}
			at := call.Call.Args[0].Type().Underlying().(*types.Pointer).Elem().Underlying().(*types.Array)
			return BV(64, uint64(at.Len()))
		case ArrayV:
			return BV(64, uint64(len(x.e)))
		}
	case "cap":
		switch x := args[0].(type) {
		case SliceV:
			return x.cap
		case Pointer:
			if o, _ := chanObj(st, x); o != nil {
				return BV(64, uint64(o.chanCap))
			}
			return BV(64, 0)
		}
	case "append":
		return e.appendOp(st, args[0].(SliceV), args[1], call, pos)
	case "copy":
		return e.copyOp(st, args[0].(SliceV), args[1], pos)
	case "delete":
		m := args[0].(MapV)
		if m.obj != 0 {
			o := st.wobj(m.obj)
			kt := o.typ.Underlying().(*types.Map).Key()
			nk, nv := o.keys[:0:0], o.vals[:0:0]
			for j := range o.keys {
				eq := e.keyEq(st, kt, o.keys[j], args[1])
				if !eq.k {
					panic(unsupported{"delete with symbolic key"})
				}
				if eq.c == 0 {
					nk, nv = append(nk, o.keys[j]), append(nv, o.vals[j])
				}
			}
			o.keys, o.vals = nk, nv
		}
		return TupleV{}
	case "clear":
		switch x := args[0].(type) {
		case MapV:
			if x.obj != 0 {
				o := st.wobj(x.obj)
				o.keys, o.vals = nil, nil
			}
			return TupleV{}
		case SliceV:
			if x.obj == 0 {
				return TupleV{}
			}
			n, ok := e.maxValue(st, x.ln, 4096)
			if !ok {
				panic(unsupported{"clear of a slice with unbounded length"})
			}
			et := call.Call.Args[0].Type().Underlying().(*types.Slice).Elem()
			for k := uint64(0); k < n; k++ {
				p := Pointer{obj: x.obj, off: Bin("bvmul", Bin("bvadd", x.off, BV(64, k)), BV(64, uint64(x.es)))}
				if x.ln.k {
					e.store(st, p, et, zeroValue(et), pos)
				} else {
					old := e.load(st, p, et, pos)
					e.store(st, p, et, e.iteValue(Cmp("bvult", BV(64, k), x.ln), zeroValue(et), old), pos)
				}
			}
			return TupleV{}
		}
	case "ssa:wrapnilchk":
		if p, ok := args[0].(Pointer); ok && p.obj == 0 {
			e.goPanic(st, "value method called using nil pointer", pos)
		}
		return args[0]
	case "min", "max":
		a, b := term(args[0]), term(args[1])
		_, signed, _ := intWidth(call.Type())
		op := "bvult"
		if signed {
			op = "bvslt"
		}
		lt := Cmp(op, a, b)
		if name == "min" {
			return Ite(lt, a, b)
		}
		return Ite(lt, b, a)
	case "close":
		if p, ok := args[0].(Pointer); ok && p.obj != 0 {
			if st.obj(p.obj).chanClosed {
				e.goPanic(st, "close of closed channel", pos)
			}
			st.wobj(p.obj).chanClosed = true
			st.stalled = 0
		} else {
			e.goPanic(st, "close of nil channel", pos)
		}
		return TupleV{}
	case "Sizeof", "Alignof":
		t := call.Call.Args[0].Type()
		if name == "Sizeof" {
			return BV(64, uint64(sizes.Sizeof(t)))
		}
		return BV(64, uint64(sizes.Alignof(t)))
	case "SliceData": // unsafe.SliceData
		sl := args[0].(SliceV)
		if sl.obj == 0 {
			return Pointer{}
		}
		return Pointer{obj: sl.obj, off: Bin("bvmul", sl.off, BV(64, uint64(sl.es)))}
	case "String": // unsafe.String(ptr, len): a snapshot of the bytes (strings are immutable values)
		p, ok := args[0].(Pointer)
		n := SExt(term(args[1]), 64)
		if !ok || p.obj == 0 {
			return StringV{}
		}
		snap := e.snapshotBytes(st, SliceV{obj: p.obj, off: p.off, ln: n, cap: n, es: 1}, pos)
		return StringV{isObj: true, obj: snap.obj, off: snap.off, ln: n}
	case "StringData":
		sv := args[0].(StringV)
		sl, ok := e.strToSlice(st, sv)
		if !ok {
			panic(unsupported{"unsafe.StringData of opaque string"})
		}
		return Pointer{obj: sl.obj, off: sl.off}
	case "Slice": // unsafe.Slice(ptr, len)
		p, ok := args[0].(Pointer)
		n := SExt(term(args[1]), 64)
		if !ok || p.obj == 0 {
			return zeroValue(call.Type())
		}
		es := slotsOf(call.Type().Underlying().(*types.Slice).Elem())
		if !p.off.k || p.off.c%uint64(es) != 0 {
			panic(unsupported{"unsafe.Slice at symbolic/unaligned offset"})
		}
		return SliceV{obj: p.obj, off: BV(64, p.off.c/uint64(es)), ln: n, cap: n, es: es}
	case "print", "println":
		return TupleV{}
	case "$opaqueErrorString":
		return StringV{opaque: true, nonEmpty: true}
	case "recover":
		if st.panicking != nil && st.top().panicDefer {
			v := st.panicking.val
			st.panicking = nil
			return v
		}
		return Iface{}
	}
	if len(args) == 0 {
		panic(unsupported{"builtin " + name + "()"})
	}
	panic(unsupported{fmt.Sprintf("builtin %s on %T", name, args[0])})
}

func (e *Engine) appendOp(st *State, s SliceV, src Value, call *ssa.Call, pos token.Pos) Value {
	var n *Term
	var readSrc func(k int) Value
	et := call.Type().Underlying().(*types.Slice).Elem()
	es := slotsOf(et)
	switch x := src.(type) {
	case SliceV:
		n = x.ln
		readSrc = func(k int) Value {
			return e.load(st, Pointer{obj: x.obj, off: Bin("bvmul", Bin("bvadd", x.off, BV(64, uint64(k))), BV(64, uint64(es)))}, et, pos)
		}
	case StringV:
		bs, ok := e.stringBytes(st, x)
		if !ok {
			sl, ok2 := e.strToSlice(st, x)
			if !ok2 {
				panic(unsupported{"append(opaque string...)"})
			}
			return e.appendOp(st, s, sl, call, pos)
		}
		n = BV(64, uint64(len(bs)))
		readSrc = func(k int) Value { return bs[k] }
	default:
		panic(unsupported{fmt.Sprintf("append src %T", src)})
	}
	if es == 1 && (!n.k || !s.ln.k || !s.cap.k) {
		if bt, isB := et.Underlying().(*types.Basic); isB && (bt.Kind() == types.Uint8 || bt.Kind() == types.Int8) {
			if sv, ok := src.(SliceV); ok {
				return e.appendBytesSym(st, s, sv, call, pos)
			}
		}
	}
	if !n.k {
		ub, ok := e.maxValue(st, n, 300)
		if !ok {
			panic(unsupported{"append with unbounded symbolic source length at " + e.prog.Fset.Position(pos).String()})
		}
		// fork on the source length (small)
		conds := []*Term{}
		for k := 0; k <= int(ub); k++ {
			conds = append(conds, Eq(n, BV(64, uint64(k))))
		}
		frame := st.top()
		_ = frame
		e.branch(st, conds, func(s2 *State, k int) {
			src2 := src
			if sv, ok := src2.(SliceV); ok {
				sv.ln = BV(64, uint64(k))
				src2 = sv
			}
			s2.top().env[call] = e.appendOp(s2, s, src2, call, pos)
		})
		panic("unreachable")
	}
	if s.ln.k && !s.cap.k && n.k && s.obj != 0 {
		// symbolic capacity (e.g. make([]T, 0, wireLen)): fork on whether the append fits
		need := BV(64, s.ln.c+n.c)
		fits := Cmp("bvule", need, s.cap)
		e.branch(st, []*Term{fits, Not(fits)}, func(s2 *State, k int) {
			d := s
			if k == 0 {
				d.cap = need // any capacity >= need behaves identically for this append...
				r := e.appendOp(s2, d, src, call, pos).(SliceV)
				r.cap = s.cap // ...but the header keeps the real (symbolic) capacity
				s2.top().env[call] = r
			} else {
				d.cap = s.ln // force the reallocating branch
				s2.top().env[call] = e.appendOp(s2, d, src, call, pos)
			}
		})
		panic("unreachable")
	}
	if !s.ln.k || !s.cap.k {
		// symbolic destination length: only support when nothing is appended
		if n.c == 0 {
			return s
		}
		ub, ok := e.maxValue(st, s.ln, 300)
		if !ok {
			panic(unsupported{"append to slice of unbounded symbolic length at " + e.prog.Fset.Position(pos).String()})
		}
		conds := []*Term{}
		for k := 0; k <= int(ub); k++ {
			conds = append(conds, Eq(s.ln, BV(64, uint64(k))))
		}
		e.branch(st, conds, func(s2 *State, k int) {
			d := s
			d.ln = BV(64, uint64(k))
			s2.top().env[call] = e.appendOp(s2, d, src, call, pos)
		})
		panic("unreachable")
	}
	cnt := int(n.c)
	ln, cp := int(s.ln.c), int(s.cap.c)
	if cnt == 0 {
		return s
	}
	vals := make([]Value, cnt)
	for k := range vals {
		vals[k] = readSrc(k)
	}
	dst := s
	if s.obj == 0 || ln+cnt > cp {
		ncap := cp * 2
		if ncap < ln+cnt {
			ncap = ln + cnt
		}
		dst = e.newSlice(st, et, ncap, BV(64, uint64(ln+cnt)), BV(64, uint64(ncap)))
		for k := 0; k < ln; k++ {
			v := e.load(st, Pointer{obj: s.obj, off: Bin("bvmul", Bin("bvadd", s.off, BV(64, uint64(k))), BV(64, uint64(es)))}, et, pos)
			e.store(st, Pointer{obj: dst.obj, off: BV(64, uint64(k*es))}, et, v, pos)
		}
	} else {
		dst.ln = BV(64, uint64(ln+cnt))
	}
	for k, v := range vals {
		e.store(st, Pointer{obj: dst.obj, off: Bin("bvmul", Bin("bvadd", dst.off, BV(64, uint64(ln+k))), BV(64, uint64(es)))}, et, v, pos)
	}
	return dst
}

// appendBytesSym appends a byte slice when a length or capacity involved is symbolic, without forking
// on the lengths: the only fork is on whether the append fits in place (Go's aliasing semantics).
// A reallocated result is an SMT-array object with capacity == length (Go's real growth leaves
// implementation-defined spare capacity; see DESIGN 3.1).
func (e *Engine) appendBytesSym(st *State, s SliceV, src SliceV, call *ssa.Call, pos token.Pos) Value {
	n := src.ln
	if src.obj == 0 {
		return s
	}
	ubn, ok := e.maxValue(st, n, 4096)
	if !ok {
		panic(unsupported{"append with unbounded symbolic source length at " + e.prog.Fset.Position(pos).String()})
	}
	newLen := Bin("bvadd", s.ln, n)
	fits := And(Bool(s.obj != 0), Cmp("bvule", newLen, s.cap))
	if !fits.k {
		fits = e.foldKnown(st, fits)
	}
	if !fits.k {
		r1 := e.sv.Check(fits)
		r2 := "sat"
		if r1 != "unsat" {
			r2 = e.sv.Check(Not(fits))
		}
		switch {
		case r1 == "unsat":
			fits = Bool(false)
		case r2 == "unsat":
			fits = Bool(true)
		default:
			e.branchChecked(st, []*Term{fits, Not(fits)}, func(s2 *State, k int) {
				if k == 0 {
					s2.top().env[call] = e.appendInPlaceSym(s2, s, src, int(ubn), pos)
				} else {
					s2.top().env[call] = e.appendReallocSym(s2, s, src, int(ubn), pos)
				}
			})
			panic("unreachable")
		}
	}
	if fits.c != 0 {
		return e.appendInPlaceSym(st, s, src, int(ubn), pos)
	}
	return e.appendReallocSym(st, s, src, int(ubn), pos)
}

func (e *Engine) appendInPlaceSym(st *State, s SliceV, src SliceV, ubn int, pos token.Pos) Value {
	bt := types.Typ[types.Uint8]
	vals := make([]Value, ubn)
	for k := range vals {
		vals[k] = e.guardedRead(st, src, k, 1, bt, pos)
	}
	base := Bin("bvadd", s.off, s.ln)
	for k, v := range vals {
		p := Pointer{obj: s.obj, off: Bin("bvadd", base, BV(64, uint64(k)))}
		g := Cmp("bvult", BV(64, uint64(k)), src.ln)
		if do := st.obj(s.obj); do.arr == nil && p.off.k && int(p.off.c) >= len(do.slots) {
			continue // beyond the object: cannot be within capacity, so the guard is false here
		}
		if g.k {
			if g.c != 0 {
				e.store(st, p, bt, v, pos)
			}
			continue
		}
		old := e.guardedRead(st, SliceV{obj: s.obj, off: base, ln: src.ln, cap: src.ln, es: 1}, k, 1, bt, pos)
		e.store(st, p, bt, Ite(g, term(v), term(old)), pos)
	}
	r := s
	r.ln = Bin("bvadd", s.ln, src.ln)
	return r
}

func (e *Engine) appendReallocSym(st *State, s SliceV, src SliceV, ubn int, pos token.Pos) Value {
	bt := types.Typ[types.Uint8]
	ubd := uint64(0)
	if s.obj != 0 {
		var ok bool
		ubd, ok = e.maxValue(st, s.ln, 65536)
		if !ok {
			panic(unsupported{"append to slice of unbounded symbolic length at " + e.prog.Fset.Position(pos).String()})
		}
	}
	arr := ConstArr(0)
	for k := 0; k < int(ubd); k++ {
		v := term(e.guardedRead(st, s, k, 1, bt, pos))
		g := Cmp("bvult", BV(64, uint64(k)), s.ln)
		arr = Store(arr, BV(64, uint64(k)), Ite(g, v, BV(8, 0)))
	}
	for k := 0; k < ubn; k++ {
		v := term(e.guardedRead(st, src, k, 1, bt, pos))
		idx := Bin("bvadd", s.ln, BV(64, uint64(k)))
		g := Cmp("bvult", BV(64, uint64(k)), src.ln)
		if g.k && g.c != 0 {
			arr = Store(arr, idx, v)
		} else if !g.k {
			arr = Store(arr, idx, Ite(g, v, Select(arr, idx)))
		}
	}
	total := int(ubd) + ubn
	o := &Object{arr: arr, n: total, typ: types.NewArray(bt, int64(total))}
	newLen := Bin("bvadd", s.ln, src.ln)
	return SliceV{obj: st.alloc(o), off: BV(64, 0), ln: newLen, cap: newLen, es: 1}
}

func (e *Engine) copyOp(st *State, dst SliceV, src Value, pos token.Pos) Value {
	var srcLen *Term
	var read func(k int) Value
	es := dst.es
	if dst.obj == 0 {
		return BV(64, 0)
	}
	et := st.obj(dst.obj).elemType()
	switch x := src.(type) {
	case SliceV:
		srcLen = x.ln
		if x.obj == 0 {
			return BV(64, 0)
		}
		read = func(k int) Value {
			return e.load(st, Pointer{obj: x.obj, off: Bin("bvmul", Bin("bvadd", x.off, BV(64, uint64(k))), BV(64, uint64(es)))}, et, pos)
		}
	case StringV:
		bs, ok := e.stringBytes(st, x)
		if !ok {
			sl, ok2 := e.strToSlice(st, x)
			if !ok2 {
				if e.abandonToStringMethod(st) {
					panic(resumeStep{})
				}
				panic(unsupported{"copy from opaque string"})
			}
			return e.copyOp(st, dst, sl, pos)
		}
		srcLen = BV(64, uint64(len(bs)))
		read = func(k int) Value { return bs[k] }
	}
	n := Ite(Cmp("bvult", srcLen, dst.ln), srcLen, dst.ln)
	if n.k {
		vals := make([]Value, n.c)
		for k := range vals {
			vals[k] = read(k)
		}
		for k, v := range vals {
			e.store(st, Pointer{obj: dst.obj, off: Bin("bvmul", Bin("bvadd", dst.off, BV(64, uint64(k))), BV(64, uint64(es)))}, et, v, pos)
		}
		return n
	}
	// symbolic count: guarded element writes up to a cheap bound
	ub1, ok1 := e.maxValue(st, srcLen, 512)
	ub2, ok2 := e.maxValue(st, dst.ln, 512)
	ub := uint64(0)
	switch {
	case ok1 && ok2:
		ub = ub1
		if ub2 < ub {
			ub = ub2
		}
	case ok1:
		ub = ub1
	case ok2:
		ub = ub2
	default:
		panic(unsupported{"copy with unbounded symbolic length"})
	}
	if ub > 512 || es != 1 {
		panic(unsupported{"copy: symbolic length too large or multi-slot elements"})
	}
	vals := make([]Value, ub)
	for k := range vals {
		// reading src[k] is only legal when k < n; the read itself is guarded by construction
		vals[k] = e.guardedRead(st, src, k, es, et, pos)
	}
	for k, v := range vals {
		p := Pointer{obj: dst.obj, off: Bin("bvadd", dst.off, BV(64, uint64(k)))}
		if do := st.obj(dst.obj); do.arr == nil && p.off.k && int(p.off.c) >= len(do.slots) {
			continue // beyond the destination object: k < n cannot hold here (the bound is not tight)
		}
		old := e.guardedRead(st, dst, k, es, et, pos)
		e.store(st, p, et, Ite(Cmp("bvult", BV(64, uint64(k)), n), term(v), term(old)), pos)
	}
	return n
}

func (e *Engine) guardedRead(st *State, src Value, k, es int, et types.Type, pos token.Pos) Value {
	x := src.(SliceV)
	o := st.obj(x.obj)
	idx := Bin("bvadd", x.off, BV(64, uint64(k)))
	if o.arr != nil {
		return Select(o.arr, idx) // no poison obligation here: guarded by k < n at the write
	}
	if idx.k && int(idx.c) >= len(o.slots) {
		return zeroValue(et)
	}
	return e.load(st, Pointer{obj: x.obj, off: idx}, et, pos)
}

func (o *Object) elemType() types.Type {
	if at, ok := o.typ.Underlying().(*types.Array); ok {
		return at.Elem()
	}
	return types.Typ[types.Uint8]
}


func traceUnsupp(why string) {
	if t := os.Getenv("GOSYM_TRACE"); t != "" && strings.Contains(why, t) {
		fmt.Fprintf(os.Stderr, "TRACE %s\n%s\n", why, debug.Stack())
	}
}

func traceFrames(st *State, why string) {
	if t := os.Getenv("GOSYM_FRAMES"); t != "" && strings.Contains(why, t) {
		fmt.Fprintf(os.Stderr, "FRAMES for %s:\n", why)
		for _, f := range st.frames {
			fmt.Fprintf(os.Stderr, "   %s\n", f.fn)
		}
	}
}

var shortRe = regexp.MustCompile(`[A-Za-z0-9_.\-]+/`)

// shortFnName strips import-path directories: (*github.com/osrg/gobgp/v4/pkg/packet/bgp.X).M -> (*bgp.X).M
func shortFnName(name string) string { return shortRe.ReplaceAllString(name, "") }

// abandonToStringMethod: text rendering that ends up copying an opaque string (the rendering of a
// value with symbolic fields) is itself opaque: the innermost enclosing String() method of a gobgp
// type returns an opaque string to its caller. Deferred calls of the abandoned frames are not run
// (rendering code defers nothing that matters to the harness).
func (e *Engine) abandonToStringMethod(st *State) bool {
	if e.symbolicText || e.tolerant {
		return false
	}
	for k := len(st.frames) - 1; k >= 1; k-- {
		f := st.frames[k]
		if isStringMethod(f.fn) && f.call != nil {
			st.frames = st.frames[:k]
			st.top().env[f.call] = StringV{opaque: true, nonEmpty: true}
			modelsUsed["String() of a value with symbolic fields -> opaque string"]++
			return true
		}
	}
	return false
}

// renderings that only feed logs: never interpreted
var alwaysOpaqueString = map[string]bool{
	"(*github.com/osrg/gobgp/v4/internal/pkg/table.Path).String": true,
}

func isStringMethod(fn *ssa.Function) bool {
	sig := fn.Signature
	if sig.Recv() == nil || sig.Params().Len() != 0 || sig.Results().Len() != 1 {
		return false
	}
	b, ok := sig.Results().At(0).Type().Underlying().(*types.Basic)
	if !ok || b.Kind() != types.String {
		return false
	}
	return fn.Pkg != nil && strings.HasPrefix(fn.Pkg.Pkg.Path(), "github.com/osrg/gobgp/")
}

// hasSymbolic reports whether a value (followed through pointers to a small depth) holds a non-constant scalar.
func (e *Engine) hasSymbolic(st *State, v Value, depth int, seen map[ObjID]bool) bool {
	if depth > 6 {
		return false
	}
	visitObj := func(id ObjID) bool {
		if id == 0 || seen[id] {
			return false
		}
		seen[id] = true
		o := st.heap[id]
		if o == nil {
			return false
		}
		if o.arr != nil {
			return true
		}
		for _, x := range o.slots {
			if e.hasSymbolic(st, x, depth+1, seen) {
				return true
			}
		}
		return false
	}
	switch x := v.(type) {
	case *Term:
		return !x.k
	case Pointer:
		return (x.off != nil && !x.off.k) || visitObj(x.obj)
	case SliceV:
		return !x.ln.k || !x.off.k || visitObj(x.obj)
	case StringV:
		return x.opaque || (x.isObj && (!x.ln.k || visitObj(x.obj)))
	case Iface:
		return e.hasSymbolic(st, x.val, depth+1, seen)
	case StructV:
		for _, f := range x.f {
			if e.hasSymbolic(st, f, depth+1, seen) {
				return true
			}
		}
	case ArrayV:
		for _, f := range x.e {
			if e.hasSymbolic(st, f, depth+1, seen) {
				return true
			}
		}
	}
	return false
}

func isFloatType(t types.Type) bool {
	b, ok := t.Underlying().(*types.Basic)
	return ok && b.Info()&types.IsFloat != 0
}

// floatBinop: exact on constant operands, otherwise an unconstrained result.
func (e *Engine) floatBinop(st *State, i *ssa.BinOp, a, b *Term) Value {
	is32 := a.w == 32
	val := func(t *Term) float64 {
		if is32 {
			return float64(math.Float32frombits(uint32(t.c)))
		}
		return math.Float64frombits(t.c)
	}
	mk := func(f float64) *Term {
		if is32 {
			return BV(32, uint64(math.Float32bits(float32(f))))
		}
		return BV(64, math.Float64bits(f))
	}
	if a.k && b.k {
		x, y := val(a), val(b)
		switch i.Op {
		case token.ADD:
			return mk(x + y)
		case token.SUB:
			return mk(x - y)
		case token.MUL:
			return mk(x * y)
		case token.QUO:
			return mk(x / y)
		case token.EQL:
			return Bool(x == y)
		case token.NEQ:
			return Bool(x != y)
		case token.LSS:
			return Bool(x < y)
		case token.LEQ:
			return Bool(x <= y)
		case token.GTR:
			return Bool(x > y)
		case token.GEQ:
			return Bool(x >= y)
		}
	}
	modelsUsed["floating point on symbolic operands: SMT FloatingPoint theory (IEEE 754, RNE)"]++
	switch i.Op {
	case token.EQL:
		return FPCmp("eq", a, b)
	case token.NEQ:
		return Not(FPCmp("eq", a, b))
	case token.LSS:
		return FPCmp("lt", a, b)
	case token.LEQ:
		return FPCmp("leq", a, b)
	case token.GTR:
		return FPCmp("gt", a, b)
	case token.GEQ:
		return FPCmp("geq", a, b)
	}
	op := map[token.Token]string{token.ADD: "add", token.SUB: "sub", token.MUL: "mul", token.QUO: "div"}[i.Op]
	if op == "" {
		panic(unsupported{"float operator " + i.Op.String()})
	}
	r := e.internalVar("float", a.w)
	e.assume(st, FPArith(op, r, a, b))
	return r
}
