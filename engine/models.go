package main

import (
	"fmt"
	"go/token"
	"go/types"
	"strings"

	"golang.org/x/tools/go/ssa"
)

type modelFn func(e *Engine, st *State, args []Value, call *ssa.Call, pos token.Pos) Value

var models = map[string]modelFn{}

func strArg(v Value) string {
	s, ok := v.(StringV)
	if !ok || s.isObj || s.opaque {
		return "?"
	}
	return s.conc
}

func opaqueNonEmptyIfFormat(args []Value) Value {
	ne := false
	if len(args) > 0 {
		if s, ok := args[0].(StringV); ok && !s.isObj && !s.opaque && s.conc != "" {
			ne = true
		}
	}
	return StringV{opaque: true, nonEmpty: ne}
}

func init() {
	// ---- harness intrinsics (matched by suffix in lookupModel) ----
	models["fmt.Sprintf"] = func(e *Engine, st *State, args []Value, call *ssa.Call, pos token.Pos) Value {
		return opaqueNonEmptyIfFormat(args)
	}
	models["fmt.Sprint"] = func(e *Engine, st *State, args []Value, call *ssa.Call, pos token.Pos) Value {
		return StringV{opaque: true}
	}
	models["fmt.Errorf"] = func(e *Engine, st *State, args []Value, call *ssa.Call, pos token.Pos) Value {
		return Iface{typ: opaqueErrType, val: Pointer{obj: st.alloc(&Object{typ: opaqueErrType, slots: []Value{}}), off: BV(64, 0)}}
	}
	models["strconv.Itoa"] = func(e *Engine, st *State, args []Value, call *ssa.Call, pos token.Pos) Value {
		return StringV{opaque: true, nonEmpty: true}
	}
	models["strconv.FormatUint"] = models["strconv.Itoa"]
	models["strconv.FormatInt"] = models["strconv.Itoa"]
	for _, n := range []string{"(*sync.Mutex).Lock", "(*sync.Mutex).Unlock", "(*sync.RWMutex).Lock", "(*sync.RWMutex).Unlock", "(*sync.RWMutex).RLock", "(*sync.RWMutex).RUnlock"} {
		models[n] = func(e *Engine, st *State, args []Value, call *ssa.Call, pos token.Pos) Value { return TupleV{} }
	}
	// unique.Make: intern by structural equality of (concrete) values; returns Handle{value *T}
	models["unique.Make"] = nil // generic instances are matched by prefix in lookupModel
}

var opaqueErrType = types.NewPointer(types.NewNamed(types.NewTypeName(token.NoPos, nil, "opaqueError", nil), types.NewStruct(nil, nil), nil))

var uniqueTab = map[string]ObjID{}

func uniqueMake(e *Engine, st *State, args []Value, call *ssa.Call, pos token.Pos) Value {
	key := fmt.Sprintf("%v|%#v", call.Call.Args[0].Type(), describe(args[0]))
	id, ok := uniqueTab[key]
	if !ok {
		t := call.Call.Args[0].Type()
		o := &Object{typ: t, n: slotsOf(t)}
		o.slots = flatten(t, args[0], nil)
		id = st.alloc(o)
		uniqueTab[key] = id
	} else if _, present := st.heap[id]; !present {
		t := call.Call.Args[0].Type()
		o := &Object{typ: t, n: slotsOf(t)}
		o.slots = flatten(t, args[0], nil)
		st.heap[id] = o
	}
	return StructV{f: []Value{Pointer{obj: id, off: BV(64, 0)}}}
}

func describe(v Value) string {
	switch x := v.(type) {
	case *Term:
		if x.k {
			return fmt.Sprintf("%d:%d", x.w, x.c)
		}
		return fmt.Sprintf("t%d", x.id)
	case StringV:
		return fmt.Sprintf("%q", x.conc)
	case StructV:
		parts := []string{}
		for _, f := range x.f {
			parts = append(parts, describe(f))
		}
		return "{" + strings.Join(parts, ",") + "}"
	}
	return fmt.Sprintf("%T", v)
}

// lookupModel finds a model for fn, including harness intrinsics and generic instances.
func lookupModel(fn *ssa.Function) (modelFn, bool) {
	name := fn.String()
	if m, ok := models[name]; ok && m != nil {
		return m, true
	}
	if strings.HasPrefix(name, "unique.Make[") {
		return uniqueMake, true
	}
	short := fn.Name()
	if fn.Pkg != nil && fn.Pkg.Pkg.Path() == "sync/atomic" && len(fn.Blocks) == 0 {
		elem := func(call *ssa.Call) types.Type {
			return call.Call.Args[0].Type().Underlying().(*types.Pointer).Elem()
		}
		switch {
		case strings.HasPrefix(short, "Load"):
			return func(e *Engine, st *State, args []Value, call *ssa.Call, pos token.Pos) Value {
				return e.load(st, args[0].(Pointer), elem(call), pos)
			}, true
		case strings.HasPrefix(short, "Store"):
			return func(e *Engine, st *State, args []Value, call *ssa.Call, pos token.Pos) Value {
				e.store(st, args[0].(Pointer), elem(call), args[1], pos)
				return TupleV{}
			}, true
		case strings.HasPrefix(short, "Add"):
			return func(e *Engine, st *State, args []Value, call *ssa.Call, pos token.Pos) Value {
				old := term(e.load(st, args[0].(Pointer), elem(call), pos))
				nv := Bin("bvadd", old, term(args[1]))
				e.store(st, args[0].(Pointer), elem(call), nv, pos)
				return nv
			}, true
		case strings.HasPrefix(short, "Swap"):
			return func(e *Engine, st *State, args []Value, call *ssa.Call, pos token.Pos) Value {
				old := e.load(st, args[0].(Pointer), elem(call), pos)
				e.store(st, args[0].(Pointer), elem(call), args[1], pos)
				return old
			}, true
		case strings.HasPrefix(short, "CompareAndSwap"):
			return func(e *Engine, st *State, args []Value, call *ssa.Call, pos token.Pos) Value {
				old := e.load(st, args[0].(Pointer), elem(call), pos)
				eq := e.valueEq(st, elem(call), old, args[1])
				if !eq.k {
					panic(unsupported{"symbolic CompareAndSwap"})
				}
				if eq.c != 0 {
					e.store(st, args[0].(Pointer), elem(call), args[2], pos)
				}
				return eq
			}, true
		}
	}
	if len(fn.Blocks) == 0 && strings.HasPrefix(short, "v") {
		switch short {
		case "vU8", "vU16", "vU32", "vU64", "vBool":
			w := map[string]int{"vU8": 8, "vU16": 16, "vU32": 32, "vU64": 64, "vBool": 0}[short]
			return func(e *Engine, st *State, args []Value, call *ssa.Call, pos token.Pos) Value {
				return e.fresh(strArg(args[0]), w)
			}, true
		case "vBytes": // vBytes(name string, max int, slack int) []byte: symbolic length <= max, cap = max+slack with poison tail
			return func(e *Engine, st *State, args []Value, call *ssa.Call, pos token.Pos) Value {
				name := strArg(args[0])
				max := int(term(args[1]).c)
				slack := int(term(args[2]).c)
				arr := Var("buf_"+sanitize(name), -1)
				ln := e.fresh(name+"_len", 64)
				e.assume(st, Cmp("bvule", ln, BV(64, uint64(max))))
				o := &Object{arr: arr, n: max + slack, typ: types.NewArray(types.Typ[types.Uint8], int64(max+slack)), inputName: name}
				if slack > 0 {
					o.poisonFrom = ln
				}
				id := st.alloc(o)
				capT := BV(64, uint64(max+slack))
				if slack == 0 {
					capT = ln // cap == len: the tightest slice a caller can pass
				}
				return SliceV{obj: id, off: BV(64, 0), ln: ln, cap: capT, es: 1}
			}, true
		case "vAssume":
			return func(e *Engine, st *State, args []Value, call *ssa.Call, pos token.Pos) Value {
				c := term(args[0])
				if c.k && c.c == 0 {
					panic(pathEnd{})
				}
				e.assume(st, c)
				if e.sv.Check() == "unsat" {
					panic(pathEnd{})
				}
				return TupleV{}
			}, true
		case "vAssert":
			return func(e *Engine, st *State, args []Value, call *ssa.Call, pos token.Pos) Value {
				c := term(args[0])
				e.oblige(st, Not(c), "ASSERT "+strArg(args[1]), pos)
				return TupleV{}
			}, true
		case "vReach":
			return func(e *Engine, st *State, args []Value, call *ssa.Call, pos token.Pos) Value {
				e.Reached[strArg(args[0])] = true
				return TupleV{}
			}, true
		}
	}
	return nil, false
}
