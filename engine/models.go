package main

import (
	"fmt"
	"go/token"
	"go/types"
	"strings"

	"golang.org/x/tools/go/ssa"
)

type modelFn func(e *Engine, st *State, args []Value, call *ssa.Call, pos token.Pos) Value

var models = map[string]modelFn{}

// modelsUsed records which environment models were actually invoked (reported in the evidence).
var modelsUsed = map[string]int{}

func strArg(v Value) string {
	s, ok := v.(StringV)
	if !ok || s.isObj || s.opaque {
		return "?"
	}
	return s.conc
}

func opaqueNonEmptyIfFormat(args []Value) Value {
	ne := false
	if len(args) > 0 {
		if s, ok := args[0].(StringV); ok && !s.isObj && !s.opaque && s.conc != "" {
			ne = true
		}
	}
	return StringV{opaque: true, nonEmpty: ne}
}

func noop(e *Engine, st *State, args []Value, call *ssa.Call, pos token.Pos) Value {
	if call != nil {
		return opaqueZero(call.Type())
	}
	return TupleV{}
}

func init() {
	models["fmt.Sprintf"] = func(e *Engine, st *State, args []Value, call *ssa.Call, pos token.Pos) Value {
		return opaqueNonEmptyIfFormat(args)
	}
	models["fmt.Sprint"] = func(e *Engine, st *State, args []Value, call *ssa.Call, pos token.Pos) Value {
		return StringV{opaque: true}
	}
	models["fmt.Sprintln"] = func(e *Engine, st *State, args []Value, call *ssa.Call, pos token.Pos) Value {
		return StringV{opaque: true, nonEmpty: true}
	}
	models["fmt.Errorf"] = func(e *Engine, st *State, args []Value, call *ssa.Call, pos token.Pos) Value {
		return Iface{typ: opaqueErrType, val: Pointer{obj: st.alloc(&Object{typ: opaqueErrType, slots: []Value{}}), off: BV(64, 0)}}
	}
	for _, n := range []string{"fmt.Fprintf", "fmt.Fprintln", "fmt.Fprint", "fmt.Printf", "fmt.Println", "fmt.Print"} {
		models[n] = func(e *Engine, st *State, args []Value, call *ssa.Call, pos token.Pos) Value {
			return TupleV{BV(64, 0), Iface{}}
		}
	}
	models["strconv.Itoa"] = func(e *Engine, st *State, args []Value, call *ssa.Call, pos token.Pos) Value {
		if t, ok := args[0].(*Term); ok && t.k {
			return StringV{conc: fmt.Sprint(signExt(t.w, t.c))}
		}
		return StringV{opaque: true, nonEmpty: true}
	}
	models["strconv.FormatUint"] = func(e *Engine, st *State, args []Value, call *ssa.Call, pos token.Pos) Value {
		return StringV{opaque: true, nonEmpty: true}
	}
	models["strconv.FormatInt"] = models["strconv.FormatUint"]
	for _, n := range []string{"(*sync.Mutex).Lock", "(*sync.Mutex).Unlock", "(*sync.RWMutex).Lock", "(*sync.RWMutex).Unlock",
		"(*sync.RWMutex).RLock", "(*sync.RWMutex).RUnlock", "(*sync.WaitGroup).Add", "(*sync.WaitGroup).Done", "(*sync.WaitGroup).Wait",
		"runtime.KeepAlive", "runtime.Gosched"} {
		models[n] = noop
	}
	models["(*sync.Mutex).TryLock"] = func(e *Engine, st *State, args []Value, call *ssa.Call, pos token.Pos) Value { return Bool(true) }
	models["time.Now"] = func(e *Engine, st *State, args []Value, call *ssa.Call, pos token.Pos) Value {
		// time.Time{wall uint64, ext int64, loc *Location}: wall without the monotonic bit, ext = seconds since year 1.
		// A fresh, non-decreasing instant (whole seconds, 2001..2100).
		sec := e.freshVar(st, "time.Now", 64)
		lo, hi := uint64(63113904000), uint64(66269577600)
		e.assume(st, And(Cmp("bvuge", sec, BV(64, lo)), Cmp("bvule", sec, BV(64, hi))))
		if st.clock != nil {
			e.assume(st, Cmp("bvuge", sec, st.clock))
		}
		st.clock = sec
		return StructV{f: []Value{BV(64, 0), sec, Pointer{}}}
	}
	// reflect: only what gobgp uses on this path (Kind/Uint/Int/IsNil of ValueOf(x)); the Value is
	// represented by a struct whose first field holds the interface it was made from
	models["reflect.ValueOf"] = func(e *Engine, st *State, args []Value, call *ssa.Call, pos token.Pos) Value {
		iv, ok := args[0].(Iface)
		if !ok {
			panic(unsupported{"reflect.ValueOf of non-interface"})
		}
		return StructV{f: []Value{iv, Pointer{}, BV(64, 0)}}
	}
	reflIface := func(v Value) Iface {
		sv, ok := v.(StructV)
		if !ok || len(sv.f) == 0 {
			panic(unsupported{"reflect.Value not produced by the ValueOf model"})
		}
		iv, ok := sv.f[0].(Iface)
		if !ok {
			panic(unsupported{"reflect.Value not produced by the ValueOf model"})
		}
		return iv
	}
	models["(reflect.Value).Kind"] = func(e *Engine, st *State, args []Value, call *ssa.Call, pos token.Pos) Value {
		iv := reflIface(args[0])
		if iv.typ == nil {
			return BV(64, 0)
		}
		k := uint64(0)
		switch u := iv.typ.Underlying().(type) {
		case *types.Basic:
			k = map[types.BasicKind]uint64{types.Bool: 1, types.Int: 2, types.Int8: 3, types.Int16: 4, types.Int32: 5, types.Int64: 6, types.Uint: 7,
				types.Uint8: 8, types.Uint16: 9, types.Uint32: 10, types.Uint64: 11, types.Uintptr: 12, types.Float32: 13, types.Float64: 14, types.String: 24, types.UnsafePointer: 26}[u.Kind()]
		case *types.Array:
			k = 17
		case *types.Chan:
			k = 18
		case *types.Signature:
			k = 19
		case *types.Interface:
			k = 20
		case *types.Map:
			k = 21
		case *types.Pointer:
			k = 22
		case *types.Slice:
			k = 23
		case *types.Struct:
			k = 25
		}
		return BV(64, k)
	}
	models["(reflect.Value).Uint"] = func(e *Engine, st *State, args []Value, call *ssa.Call, pos token.Pos) Value {
		return ZExt(term(reflIface(args[0]).val), 64)
	}
	models["(reflect.Value).Int"] = func(e *Engine, st *State, args []Value, call *ssa.Call, pos token.Pos) Value {
		return SExt(term(reflIface(args[0]).val), 64)
	}
	models["(reflect.Value).IsNil"] = func(e *Engine, st *State, args []Value, call *ssa.Call, pos token.Pos) Value {
		iv := reflIface(args[0])
		switch v := iv.val.(type) {
		case Pointer:
			return Bool(v.obj == 0)
		case MapV:
			return Bool(v.obj == 0)
		case SliceV:
			return Bool(v.obj == 0)
		case FuncV:
			return Bool(v.fn == nil && v.name == "")
		case Iface:
			return Bool(v.typ == nil)
		}
		panic(unsupported{"reflect.Value.IsNil on a non-nillable kind"})
	}
	models["os.Hostname"] = func(e *Engine, st *State, args []Value, call *ssa.Call, pos token.Pos) Value {
		return TupleV{StringV{conc: "verifhost"}, Iface{}}
	}
}

var opaqueErrType = types.NewPointer(types.NewNamed(types.NewTypeName(token.NoPos, nil, "opaqueError", nil), types.NewStruct(nil, nil), nil))

var uniqueTab = map[string]ObjID{}

func uniqueMake(e *Engine, st *State, args []Value, call *ssa.Call, pos token.Pos) Value {
	key := fmt.Sprintf("%v|%#v", call.Call.Args[0].Type(), describe(args[0]))
	id, ok := uniqueTab[key]
	if !ok {
		t := call.Call.Args[0].Type()
		o := &Object{typ: t, n: slotsOf(t)}
		o.slots = flatten(t, args[0], nil)
		id = st.alloc(o)
		uniqueTab[key] = id
	} else if _, present := st.heap[id]; !present {
		t := call.Call.Args[0].Type()
		o := &Object{typ: t, n: slotsOf(t)}
		o.slots = flatten(t, args[0], nil)
		st.heap[id] = o
	}
	return StructV{f: []Value{Pointer{obj: id, off: BV(64, 0)}}}
}

func describe(v Value) string {
	switch x := v.(type) {
	case *Term:
		if x.k {
			return fmt.Sprintf("%d:%d", x.w, x.c)
		}
		return fmt.Sprintf("t%d", x.id)
	case StringV:
		return fmt.Sprintf("%q", x.conc)
	case StructV:
		parts := []string{}
		for _, f := range x.f {
			parts = append(parts, describe(f))
		}
		return "{" + strings.Join(parts, ",") + "}"
	}
	return fmt.Sprintf("%T", v)
}

// freshVar creates the next nondet scalar named `name` on this path (vector key name#k).
func (e *Engine) freshVar(st *State, name string, w int) *Term {
	key := st.nextKey(name)
	t := Var(fmt.Sprintf("v_%s_w%d", sanitize(key), w), w)
	st.inputs = append(st.inputs, t)
	st.keys[t.id] = key
	return t
}

func concInt(v Value, what string) int {
	t, ok := v.(*Term)
	if !ok || !t.k {
		panic(unsupported{what + " must be a constant"})
	}
	return int(signExt(t.w, t.c))
}

// lookupModel finds a model for fn, including harness intrinsics and generic instances.
func lookupModel(fn *ssa.Function) (modelFn, bool) {
	name := fn.String()
	if m, ok := models[name]; ok && m != nil {
		return func(e *Engine, st *State, args []Value, call *ssa.Call, pos token.Pos) Value {
			modelsUsed[name]++
			return m(e, st, args, call, pos)
		}, true
	}
	if strings.HasPrefix(name, "unique.Make[") {
		modelsUsed["unique.Make"]++
		return uniqueMake, true
	}
	short := fn.Name()
	if fn.Pkg != nil && fn.Pkg.Pkg.Path() == "sync/atomic" && len(fn.Blocks) == 0 {
		modelsUsed["sync/atomic"]++
		elem := func(call *ssa.Call) types.Type {
			return call.Call.Args[0].Type().Underlying().(*types.Pointer).Elem()
		}
		switch {
		case strings.HasPrefix(short, "Load"):
			return func(e *Engine, st *State, args []Value, call *ssa.Call, pos token.Pos) Value {
				return e.load(st, args[0].(Pointer), elem(call), pos)
			}, true
		case strings.HasPrefix(short, "Store"):
			return func(e *Engine, st *State, args []Value, call *ssa.Call, pos token.Pos) Value {
				e.store(st, args[0].(Pointer), elem(call), args[1], pos)
				return TupleV{}
			}, true
		case strings.HasPrefix(short, "Add"):
			return func(e *Engine, st *State, args []Value, call *ssa.Call, pos token.Pos) Value {
				old := term(e.load(st, args[0].(Pointer), elem(call), pos))
				nv := Bin("bvadd", old, term(args[1]))
				e.store(st, args[0].(Pointer), elem(call), nv, pos)
				return nv
			}, true
		case strings.HasPrefix(short, "And"), strings.HasPrefix(short, "Or"):
			return func(e *Engine, st *State, args []Value, call *ssa.Call, pos token.Pos) Value {
				old := term(e.load(st, args[0].(Pointer), elem(call), pos))
				op := "bvand"
				if strings.HasPrefix(short, "Or") {
					op = "bvor"
				}
				e.store(st, args[0].(Pointer), elem(call), Bin(op, old, term(args[1])), pos)
				return old
			}, true
		case strings.HasPrefix(short, "Swap"):
			return func(e *Engine, st *State, args []Value, call *ssa.Call, pos token.Pos) Value {
				old := e.load(st, args[0].(Pointer), elem(call), pos)
				e.store(st, args[0].(Pointer), elem(call), args[1], pos)
				return old
			}, true
		case strings.HasPrefix(short, "CompareAndSwap"):
			return func(e *Engine, st *State, args []Value, call *ssa.Call, pos token.Pos) Value {
				old := e.load(st, args[0].(Pointer), elem(call), pos)
				eq := e.valueEq(st, elem(call), old, args[1])
				if !eq.k {
					panic(unsupported{"symbolic CompareAndSwap"})
				}
				if eq.c != 0 {
					e.store(st, args[0].(Pointer), elem(call), args[2], pos)
				}
				return eq
			}, true
		}
	}
	if fn.Pkg != nil && fn.Pkg.Pkg.Path() == "log/slog" {
		modelsUsed["log/slog"]++
		return noop, true
	}
	if len(fn.Blocks) == 0 && strings.HasPrefix(short, "v") {
		switch short {
		case "vU8", "vU16", "vU32", "vU64", "vBool":
			w := map[string]int{"vU8": 8, "vU16": 16, "vU32": 32, "vU64": 64, "vBool": 0}[short]
			return func(e *Engine, st *State, args []Value, call *ssa.Call, pos token.Pos) Value {
				return e.freshVar(st, strArg(args[0]), w)
			}, true
		case "vInt": // vInt(name, lo, hi) int, inclusive bounds
			return func(e *Engine, st *State, args []Value, call *ssa.Call, pos token.Pos) Value {
				lo, hi := concInt(args[1], "vInt lo"), concInt(args[2], "vInt hi")
				v := e.freshVar(st, strArg(args[0]), 64)
				e.assume(st, And(Cmp("bvsge", v, BV(64, uint64(lo))), Cmp("bvsle", v, BV(64, uint64(hi)))))
				return v
			}, true
		case "vChoice": // vChoice(name, n) int: forked concrete choice 0..n-1
			return func(e *Engine, st *State, args []Value, call *ssa.Call, pos token.Pos) Value {
				n := concInt(args[1], "vChoice n")
				name := strArg(args[0])
				if pin, ok := e.pins[name]; ok { // pinned by the harness instance (work splitting)
					key := st.nextKey(name)
					st.choices[key] = pin
					return BV(64, uint64(pin))
				}
				key := st.nextKey(name)
				conds := make([]*Term, n)
				for k := range conds {
					conds[k] = Bool(true)
				}
				e.branch(st, conds, func(s2 *State, k int) {
					s2.choices[key] = k
					s2.top().env[call] = BV(64, uint64(k))
				})
				panic("unreachable")
			}, true
		case "vParam":
			return func(e *Engine, st *State, args []Value, call *ssa.Call, pos token.Pos) Value {
				v, ok := e.params[strArg(args[0])]
				if !ok {
					panic(unsupported{"vParam " + strArg(args[0]) + " not set in index.json"})
				}
				return BV(64, uint64(v))
			}, true
		case "vBytes": // vBytes(name string, max int, slack int) []byte: symbolic length <= max, cap = len+slack, tail bytes are poison
			return func(e *Engine, st *State, args []Value, call *ssa.Call, pos token.Pos) Value {
				name := strArg(args[0])
				max := concInt(args[1], "vBytes max")
				slack := concInt(args[2], "vBytes slack")
				key := st.nextKey(name)
				arr := Var("buf_"+sanitize(key), -1)
				ln := Var("len_"+sanitize(key), 64)
				e.assume(st, Cmp("bvule", ln, BV(64, uint64(max))))
				o := &Object{arr: arr, n: max + slack, typ: types.NewArray(types.Typ[types.Uint8], int64(max+slack)), inputName: key}
				if slack > 0 {
					o.poisonFrom = ln
				}
				id := st.alloc(o)
				capT := Bin("bvadd", ln, BV(64, uint64(slack)))
				st.bufs = append(st.bufs, bufInput{key: key, arr: arr, ln: ln, max: max, slack: slack})
				return SliceV{obj: id, off: BV(64, 0), ln: ln, cap: capT, es: 1}
			}, true
		case "vAssume":
			return func(e *Engine, st *State, args []Value, call *ssa.Call, pos token.Pos) Value {
				c := term(args[0])
				if c.k && c.c == 0 {
					panic(pathEnd{})
				}
				e.assume(st, c)
				if !c.k && e.sv.Check() == "unsat" {
					panic(pathEnd{})
				}
				return TupleV{}
			}, true
		case "vAssert":
			return func(e *Engine, st *State, args []Value, call *ssa.Call, pos token.Pos) Value {
				c := term(args[0])
				e.obligeKind(st, Not(c), strArg(args[1]), pos, "assert")
				return TupleV{}
			}, true
		case "vReach":
			return func(e *Engine, st *State, args []Value, call *ssa.Call, pos token.Pos) Value {
				e.reach(st, strArg(args[0]))
				return TupleV{}
			}, true
		case "vObserve":
			return func(e *Engine, st *State, args []Value, call *ssa.Call, pos token.Pos) Value {
				st.obs = append(st.obs, obsEntry{strArg(args[0]), term(args[1])})
				return TupleV{}
			}, true
		}
	}
	return nil, false
}
