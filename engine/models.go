package main

import (
	"fmt"
	"math"
	"regexp"
	"regexp/syntax"
	"strconv"
	"go/token"
	"go/types"
	"strings"

	"golang.org/x/tools/go/ssa"
)

type noModel struct{}

type hashRec struct {
	key string
	in  []*Term
	out *Term
}

type modelFn func(e *Engine, st *State, args []Value, call *ssa.Call, pos token.Pos) Value

var models = map[string]modelFn{}

// modelsUsed records which environment models were actually invoked (reported in the evidence).
var modelsUsed = map[string]int{}

func strArg(v Value) string {
	s, ok := v.(StringV)
	if !ok || s.isObj || s.opaque {
		return "?"
	}
	return s.conc
}

func opaqueNonEmptyIfFormat(args []Value) Value {
	ne := false
	if len(args) > 0 {
		if s, ok := args[0].(StringV); ok && !s.isObj && !s.opaque && s.conc != "" {
			ne = true
		}
	}
	return StringV{opaque: true, nonEmpty: ne}
}

func noop(e *Engine, st *State, args []Value, call *ssa.Call, pos token.Pos) Value {
	if call != nil {
		return opaqueZero(call.Type())
	}
	return TupleV{}
}

func init() {
	models["fmt.Sprintf"] = func(e *Engine, st *State, args []Value, call *ssa.Call, pos token.Pos) Value {
		if s, ok := e.sprintfConcrete(st, args[0], args[1]); ok {
			return StringV{conc: s}
		}
		return opaqueNonEmptyIfFormat(args)
	}
	models["fmt.Fprintf"] = func(e *Engine, st *State, args []Value, call *ssa.Call, pos token.Pos) Value {
		w, ok := args[0].(Iface)
		if !ok || w.typ == nil {
			return TupleV{BV(64, 0), Iface{}}
		}
		var text Value = StringV{opaque: true}
		if s, ok := e.sprintfConcrete(st, args[1], args[2]); ok {
			text = StringV{conc: s}
		}
		// continue as w.WriteString(text) / w.Write([]byte(text)) on the real writer
		ms := e.prog.MethodSets.MethodSet(w.typ)
		for i := 0; i < ms.Len(); i++ {
			if ms.At(i).Obj().Name() == "WriteString" {
				return tailCall{FuncV{fn: e.prog.MethodValue(ms.At(i))}, []Value{w.val, text}}
			}
		}
		return TupleV{BV(64, 0), Iface{}} // writers without WriteString (loggers, files): no effect
	}
	models["fmt.Sprint"] = func(e *Engine, st *State, args []Value, call *ssa.Call, pos token.Pos) Value {
		return StringV{opaque: true}
	}
	models["fmt.Sprintln"] = func(e *Engine, st *State, args []Value, call *ssa.Call, pos token.Pos) Value {
		return StringV{opaque: true, nonEmpty: true}
	}
	models["fmt.Errorf"] = func(e *Engine, st *State, args []Value, call *ssa.Call, pos token.Pos) Value {
		return Iface{typ: opaqueErrType, val: Pointer{obj: st.alloc(&Object{typ: opaqueErrType, slots: []Value{}}), off: BV(64, 0)}}
	}
	for _, n := range []string{"fmt.Fprintln", "fmt.Fprint", "fmt.Printf", "fmt.Println", "fmt.Print"} {
		models[n] = func(e *Engine, st *State, args []Value, call *ssa.Call, pos token.Pos) Value {
			return TupleV{BV(64, 0), Iface{}}
		}
	}
	models["strconv.Itoa"] = func(e *Engine, st *State, args []Value, call *ssa.Call, pos token.Pos) Value {
		if t, ok := args[0].(*Term); ok && t.k {
			return StringV{conc: fmt.Sprint(signExt(t.w, t.c))}
		}
		return StringV{opaque: true, nonEmpty: true}
	}
	models["strconv.FormatUint"] = func(e *Engine, st *State, args []Value, call *ssa.Call, pos token.Pos) Value {
		t, b := term(args[0]), term(args[1])
		if t.k && b.k {
			return StringV{conc: strconv.FormatUint(t.c, int(b.c))}
		}
		if e.symbolicText && b.k && b.c == 10 {
			// harnesses that decide text-level properties ask for real symbolic decimal text
			e.forkDecimal(st, t, func(s2 *State, bs []*Term) {
				o := &Object{typ: types.NewArray(types.Typ[types.Uint8], int64(len(bs))), n: len(bs)}
				for _, x := range bs {
					o.slots = append(o.slots, x)
				}
				s2.top().env[call] = StringV{isObj: true, obj: s2.alloc(o), off: BV(64, 0), ln: BV(64, uint64(len(bs)))}
			})
			panic("unreachable")
		}
		return StringV{opaque: true, nonEmpty: true}
	}
	models["strconv.FormatInt"] = func(e *Engine, st *State, args []Value, call *ssa.Call, pos token.Pos) Value {
		if t, ok := args[0].(*Term); ok && t.k {
			if b, ok := args[1].(*Term); ok && b.k {
				return StringV{conc: strconv.FormatInt(int64(t.c), int(b.c))}
			}
		}
		return StringV{opaque: true, nonEmpty: true}
	}
	for n, op := range map[string]string{"(*sync.Mutex).Lock": "lock", "(*sync.Mutex).Unlock": "unlock", "(*sync.RWMutex).Lock": "lock", "(*sync.RWMutex).Unlock": "unlock",
		"(*sync.RWMutex).RLock": "rlock", "(*sync.RWMutex).RUnlock": "runlock", "(*sync.Mutex).TryLock": "trylock", "(*sync.RWMutex).TryLock": "trylock", "(*sync.RWMutex).TryRLock": "tryrlock"} {
		op := op
		models[n] = func(e *Engine, st *State, args []Value, call *ssa.Call, pos token.Pos) Value { return e.muOp(st, args[0], op) }
	}
	for _, n := range []string{"(*sync.WaitGroup).Add", "(*sync.WaitGroup).Done", "(*sync.WaitGroup).Wait",
		"runtime.KeepAlive", "runtime.Gosched"} {
		models[n] = noop
	}
	// timers on the virtual clock (sched.go): a timer channel is filled when every thread is blocked
	// and this timer has the earliest deadline
	mkTimer := func(periodic bool) modelFn {
		return func(e *Engine, st *State, args []Value, call *ssa.Call, pos token.Pos) Value {
			tt := call.Type().Underlying().(*types.Pointer).Elem()
			chT := tt.Underlying().(*types.Struct).Field(0).Type()
			o := newObjFor(tt)
			o.slots[0] = Pointer{obj: e.newTimerChan(st, chT, term(args[0]), periodic), off: BV(64, 0)}
			modelsUsed["time.NewTimer/NewTicker on the virtual clock"]++
			return Pointer{obj: st.alloc(o), off: BV(64, 0)}
		}
	}
	models["time.NewTimer"] = mkTimer(false)
	models["time.NewTicker"] = mkTimer(true)
	// time.AfterFunc: a timer on the virtual clock plus a parked thread that waits for it and then
	// calls f (prelude helper vAfterFuncWait); Stop/Reset work through the returned Timer
	models["time.AfterFunc"] = func(e *Engine, st *State, args []Value, call *ssa.Call, pos token.Pos) Value {
		tt := call.Type().Underlying().(*types.Pointer).Elem()
		chT := tt.Underlying().(*types.Struct).Field(0).Type()
		o := newObjFor(tt)
		ch := Pointer{obj: e.newTimerChan(st, chT, term(args[0]), false), off: BV(64, 0)}
		o.slots[0] = ch
		h := e.target.Func("vAfterFuncWait")
		if h == nil {
			panic(unsupported{"prelude helper vAfterFuncWait missing"})
		}
		modelsUsed["time.AfterFunc on the virtual clock (callback in its own cooperative thread)"]++
		e.spawn(st, FuncV{fn: h}, []Value{ch, args[1]})
		return Pointer{obj: st.alloc(o), off: BV(64, 0)}
	}
	models["time.After"] = func(e *Engine, st *State, args []Value, call *ssa.Call, pos token.Pos) Value {
		return Pointer{obj: e.newTimerChan(st, call.Type(), term(args[0]), false), off: BV(64, 0)}
	}
	timerIdx := func(st *State, v Value) int {
		p, ok := v.(Pointer)
		if !ok || p.obj == 0 {
			return -1
		}
		c, ok := st.obj(p.obj).slots[0].(Pointer)
		if !ok || c.obj == 0 {
			return -1
		}
		return st.timerOf(c.obj)
	}
	stopTimer := func(e *Engine, st *State, args []Value, call *ssa.Call, pos token.Pos) Value {
		i := timerIdx(st, args[0])
		if i < 0 {
			return Bool(false)
		}
		st.timers = append([]timerRec(nil), st.timers...)
		was := st.timers[i].armed
		st.timers[i].armed = false
		st.wobj(st.timers[i].ch).vals = nil // Go 1.23 semantics: no stale tick is received after Stop/Reset
		return Bool(was)
	}
	resetTimer := func(e *Engine, st *State, args []Value, call *ssa.Call, pos token.Pos) Value {
		i := timerIdx(st, args[0])
		if i < 0 {
			panic(unsupported{"Reset of a timer not created by NewTimer/NewTicker"})
		}
		st.timers = append([]timerRec(nil), st.timers...)
		was := st.timers[i].armed
		st.timers[i].armed = true
		st.timers[i].deadline = Bin("bvadd", st.now(), term(args[1]))
		if st.timers[i].period != nil {
			st.timers[i].period = term(args[1])
		}
		st.wobj(st.timers[i].ch).vals = nil
		return Bool(was)
	}
	models["(*time.Timer).Stop"] = stopTimer
	models["(*time.Timer).Reset"] = resetTimer
	models["(*time.Ticker).Stop"] = func(e *Engine, st *State, args []Value, call *ssa.Call, pos token.Pos) Value {
		stopTimer(e, st, args, call, pos)
		return TupleV{}
	}
	models["(*time.Ticker).Reset"] = func(e *Engine, st *State, args []Value, call *ssa.Call, pos token.Pos) Value {
		resetTimer(e, st, args, call, pos)
		return TupleV{}
	}
	models["time.Sleep"] = func(e *Engine, st *State, args []Value, call *ssa.Call, pos token.Pos) Value {
		st.vtime = Bin("bvadd", st.now(), term(args[0]))
		return TupleV{}
	}
	// errors.Is for errors without Is/Unwrap methods (the reflectlite comparability test is skipped:
	// every error type reaching it here is a pointer or an empty struct)
	models["errors.Is"] = func(e *Engine, st *State, args []Value, call *ssa.Call, pos token.Pos) Value {
		a, ok1 := args[0].(Iface)
		b, ok2 := args[1].(Iface)
		if !ok1 || !ok2 {
			panic(unsupported{"errors.Is on non-interface values"})
		}
		if a.typ != nil && a.typ != opaqueErrType {
			ms := e.prog.MethodSets.MethodSet(a.typ)
			for i := 0; i < ms.Len(); i++ {
				if n := ms.At(i).Obj().Name(); n == "Is" || n == "Unwrap" {
					panic(unsupported{"errors.Is on an error with " + n + " method: " + a.typ.String()})
				}
			}
		}
		return e.ifaceEq(st, a, b)
	}
	for _, n := range []string{"Load", "Store", "Delete", "Clear", "LoadOrStore", "LoadAndDelete", "Swap", "Range"} {
		helper := "vSyncMap" + n
		models["(*sync.Map)."+n] = func(e *Engine, st *State, args []Value, call *ssa.Call, pos token.Pos) Value {
			h := e.target.Func(helper)
			if h == nil {
				panic(unsupported{"prelude helper " + helper + " missing"})
			}
			modelsUsed["sync.Map as an ordinary map (prelude helper)"]++
			return tailCall{FuncV{fn: h}, args}
		}
	}
	// the dialer: (*net.Dialer).DialContext hands out whatever the harness scripted (prelude var
	// vDialFn); natively the real dialer runs. The connect timer's jitter is fixed.
	models["(*net.Dialer).DialContext"] = func(e *Engine, st *State, args []Value, call *ssa.Call, pos token.Pos) Value {
		h := e.target.Func("vDialContext")
		if h == nil {
			panic(unsupported{"prelude helper vDialContext missing"})
		}
		modelsUsed["(*net.Dialer).DialContext returns the transport scripted by the harness (vDialFn)"]++
		return tailCall{FuncV{fn: h}, args}
	}
	for _, n := range []string{"SetTCPTTLSockopt", "SetTCPMinTTLSockopt", "SetTCPMSSSockopt", "SetIPTOSSockopt"} {
		models["github.com/osrg/gobgp/v4/internal/pkg/netutils."+n] = func(e *Engine, st *State, args []Value, call *ssa.Call, pos token.Pos) Value {
			modelsUsed["netutils socket options on a connection: no effect, no error"]++
			return Iface{}
		}
	}
	models["math/rand.Float64"] = func(e *Engine, st *State, args []Value, call *ssa.Call, pos token.Pos) Value {
		modelsUsed["math/rand.Float64 = 0.5 (timer jitter fixed)"]++
		return BV(64, math.Float64bits(0.5))
	}
	models["net.JoinHostPort"] = func(e *Engine, st *State, args []Value, call *ssa.Call, pos token.Pos) Value {
		return StringV{opaque: true, nonEmpty: true}
	}
	models["net.ResolveTCPAddr"] = func(e *Engine, st *State, args []Value, call *ssa.Call, pos token.Pos) Value {
		tt := call.Type().(*types.Tuple).At(0).Type().Underlying().(*types.Pointer).Elem()
		modelsUsed["net.ResolveTCPAddr succeeds (address not interpreted)"]++
		return TupleV{Pointer{obj: st.alloc(newObjFor(tt)), off: BV(64, 0)}, Iface{}}
	}
	// farm.Hash64 over bytes that are not all constants: an uninterpreted perfect hash. Equal inputs
	// give equal results, different inputs different results (collisions are outside every claim);
	// constant inputs are hashed by the real code.
	models["github.com/dgryski/go-farm.Hash64"] = func(e *Engine, st *State, args []Value, call *ssa.Call, pos token.Pos) Value {
		sl, ok := args[0].(SliceV)
		if !ok || !sl.ln.k || sl.ln.c > 4096 {
			return noModel{}
		}
		n := int(sl.ln.c)
		bs := make([]*Term, n)
		allConst := true
		for k := 0; k < n; k++ {
			bs[k] = term(e.load(st, Pointer{obj: sl.obj, off: Bin("bvadd", sl.off, BV(64, uint64(k)))}, types.Typ[types.Uint8], pos))
			if !bs[k].k {
				allConst = false
			}
		}
		if allConst {
			return noModel{}
		}
		modelsUsed["farm.Hash64 of symbolic bytes as an uninterpreted perfect hash"]++
		key := ""
		for _, b := range bs {
			key += fmt.Sprintf("%d,", b.id)
		}
		for _, prev := range st.hashRecs {
			if prev.key == key {
				return prev.out
			}
		}
		out := e.internalVar("farmhash", 64)
		for _, prev := range st.hashRecs {
			if len(prev.in) != n {
				e.assume(st, Not(Eq(out, prev.out)))
				continue
			}
			same := Bool(true)
			for k := range bs {
				same = And(same, Eq(bs[k], prev.in[k]))
			}
			e.assume(st, Eq(Eq(out, prev.out), same))
		}
		st.hashRecs = append(st.hashRecs[:len(st.hashRecs):len(st.hashRecs)], &hashRec{key: key, in: bs, out: out})
		return out
	}
	models["os.Hostname"] = func(e *Engine, st *State, args []Value, call *ssa.Call, pos token.Pos) Value {
		modelsUsed["os.Hostname -> \"host\""]++
		return TupleV{StringV{conc: "host"}, Iface{}}
	}
	// uuid.NewRandom (crypto/rand): distinct identifiers from a counter
	models["github.com/google/uuid.NewRandom"] = func(e *Engine, st *State, args []Value, call *ssa.Call, pos token.Pos) Value {
		modelsUsed["uuid.NewRandom -> distinct counter-based identifiers"]++
		e.uuidN++
		el := make([]Value, 16)
		for i := range el {
			el[i] = BV(8, 0)
		}
		el[6], el[8] = BV(8, 0x40), BV(8, 0x80)
		el[14], el[15] = BV(8, uint64(e.uuidN>>8)), BV(8, uint64(e.uuidN))
		return TupleV{ArrayV{e: el}, Iface{}}
	}
	models["time.Now"] = func(e *Engine, st *State, args []Value, call *ssa.Call, pos token.Pos) Value {
		// time.Time{wall uint64, ext int64, loc *Location}: wall without the monotonic bit, ext = seconds since year 1.
		// A fresh, non-decreasing instant (whole seconds, 2001..2100).
		if e.fixedClock {
			// index option fixed_clock: the wall clock is 2020-01-01 plus one second per call (harnesses
			// whose subject is not wall-clock arithmetic; time.Time.Sub multiplies by 10^9)
			modelsUsed["time.Now: fixed instants one second apart (fixed_clock)"]++
			n := uint64(0)
			if st.clock != nil && st.clock.k {
				n = st.clock.c - 63713433600 + 1
			}
			st.clock = BV(64, 63713433600+n)
			return StructV{f: []Value{BV(64, 0), st.clock, Pointer{}}}
		}
		sec := e.freshVar(st, "time.Now", 64)
		lo, hi := uint64(63113904000), uint64(66269577600)
		e.assume(st, And(Cmp("bvuge", sec, BV(64, lo)), Cmp("bvule", sec, BV(64, hi))))
		if st.clock != nil {
			e.assume(st, Cmp("bvuge", sec, st.clock))
		}
		st.clock = sec
		return StructV{f: []Value{BV(64, 0), sec, Pointer{}}}
	}
	// reflect: only what gobgp uses on this path (Kind/Uint/Int/IsNil of ValueOf(x)); the Value is
	// represented by a struct whose first field holds the interface it was made from
	models["reflect.ValueOf"] = func(e *Engine, st *State, args []Value, call *ssa.Call, pos token.Pos) Value {
		iv, ok := args[0].(Iface)
		if !ok {
			panic(unsupported{"reflect.ValueOf of non-interface"})
		}
		return StructV{f: []Value{iv, Pointer{}, BV(64, 0)}}
	}
	reflIface := func(v Value) Iface {
		sv, ok := v.(StructV)
		if !ok || len(sv.f) == 0 {
			panic(unsupported{"reflect.Value not produced by the ValueOf model"})
		}
		iv, ok := sv.f[0].(Iface)
		if !ok {
			panic(unsupported{"reflect.Value not produced by the ValueOf model"})
		}
		return iv
	}
	models["(reflect.Value).Kind"] = func(e *Engine, st *State, args []Value, call *ssa.Call, pos token.Pos) Value {
		iv := reflIface(args[0])
		if iv.typ == nil {
			return BV(64, 0)
		}
		k := uint64(0)
		switch u := iv.typ.Underlying().(type) {
		case *types.Basic:
			k = map[types.BasicKind]uint64{types.Bool: 1, types.Int: 2, types.Int8: 3, types.Int16: 4, types.Int32: 5, types.Int64: 6, types.Uint: 7,
				types.Uint8: 8, types.Uint16: 9, types.Uint32: 10, types.Uint64: 11, types.Uintptr: 12, types.Float32: 13, types.Float64: 14, types.String: 24, types.UnsafePointer: 26}[u.Kind()]
		case *types.Array:
			k = 17
		case *types.Chan:
			k = 18
		case *types.Signature:
			k = 19
		case *types.Interface:
			k = 20
		case *types.Map:
			k = 21
		case *types.Pointer:
			k = 22
		case *types.Slice:
			k = 23
		case *types.Struct:
			k = 25
		}
		return BV(64, k)
	}
	models["(reflect.Value).Uint"] = func(e *Engine, st *State, args []Value, call *ssa.Call, pos token.Pos) Value {
		return ZExt(term(reflIface(args[0]).val), 64)
	}
	models["(reflect.Value).Int"] = func(e *Engine, st *State, args []Value, call *ssa.Call, pos token.Pos) Value {
		return SExt(term(reflIface(args[0]).val), 64)
	}
	models["(reflect.Value).IsNil"] = func(e *Engine, st *State, args []Value, call *ssa.Call, pos token.Pos) Value {
		iv := reflIface(args[0])
		switch v := iv.val.(type) {
		case Pointer:
			return Bool(v.obj == 0)
		case MapV:
			return Bool(v.obj == 0)
		case SliceV:
			return Bool(v.obj == 0)
		case FuncV:
			return Bool(v.fn == nil && v.name == "")
		case Iface:
			return Bool(v.typ == nil)
		}
		panic(unsupported{"reflect.Value.IsNil on a non-nillable kind"})
	}
	// regexp: exact on concrete operands (Go's own regexp engine runs natively inside the model);
	// symbolic subjects are handled only by the pikevm model where a harness asks for it
	compile := func(e *Engine, st *State, args []Value, must bool) Value {
		pat, ok := e.concString(st, args[0])
		if !ok {
			panic(unsupported{"regexp compile of a non-constant pattern"})
		}
		re, err := regexp.Compile(pat)
		if err != nil {
			if must {
				panic(unsupported{"regexp.MustCompile panics: " + err.Error()})
			}
			return TupleV{Pointer{}, Iface{typ: opaqueErrType, val: Pointer{obj: st.alloc(&Object{typ: opaqueErrType, slots: []Value{}}), off: BV(64, 0)}}}
		}
		p := Pointer{obj: st.alloc(&Object{typ: types.Typ[types.Int], slots: []Value{BV(64, 0)}, native: re}), off: BV(64, 0)}
		if must {
			return p
		}
		return TupleV{p, Iface{}}
	}
	models["regexp.MustCompile"] = func(e *Engine, st *State, args []Value, call *ssa.Call, pos token.Pos) Value {
		return compile(e, st, args, true)
	}
	models["regexp.Compile"] = func(e *Engine, st *State, args []Value, call *ssa.Call, pos token.Pos) Value {
		return compile(e, st, args, false)
	}
	reOf := func(e *Engine, st *State, v Value) *regexp.Regexp {
		p, ok := v.(Pointer)
		if !ok || p.obj == 0 {
			panic(unsupported{"regexp method on nil/unknown regexp"})
		}
		re, ok := st.obj(p.obj).native.(*regexp.Regexp)
		if !ok {
			panic(unsupported{"regexp method on an object not produced by the compile model"})
		}
		return re
	}
	models["(*regexp.Regexp).MatchString"] = func(e *Engine, st *State, args []Value, call *ssa.Call, pos token.Pos) Value {
		s, ok := e.concString(st, args[1])
		if !ok {
			if sv, isS := args[1].(StringV); isS {
				if bs, ok2 := e.stringBytes(st, sv); ok2 {
					modelsUsed["regexp match on symbolic text -> bounded symbolic Pike VM over the pattern's own syntax.Prog"]++
					return pikeMatch(reOf(e, st, args[0]), bs)
				}
			}
			panic(unsupported{"regexp match on a string of symbolic length"})
		}
		return Bool(reOf(e, st, args[0]).MatchString(s))
	}
	models["(*regexp.Regexp).Match"] = func(e *Engine, st *State, args []Value, call *ssa.Call, pos token.Pos) Value {
		sl, ok := args[1].(SliceV)
		if !ok {
			panic(unsupported{"regexp.Match on non-slice"})
		}
		s, ok := e.concString(st, StringV{isObj: true, obj: sl.obj, off: sl.off, ln: sl.ln})
		if sl.obj == 0 {
			s, ok = "", true
		}
		if !ok {
			if bs, ok2 := e.stringBytes(st, StringV{isObj: true, obj: sl.obj, off: sl.off, ln: sl.ln}); ok2 {
				modelsUsed["regexp match on symbolic text -> bounded symbolic Pike VM over the pattern's own syntax.Prog"]++
				return pikeMatch(reOf(e, st, args[0]), bs)
			}
			panic(unsupported{"regexp match on bytes of symbolic length"})
		}
		return Bool(reOf(e, st, args[0]).MatchString(s))
	}
	models["(*regexp.Regexp).String"] = func(e *Engine, st *State, args []Value, call *ssa.Call, pos token.Pos) Value {
		return StringV{conc: reOf(e, st, args[0]).String()}
	}
	models["(*regexp.Regexp).FindStringSubmatch"] = func(e *Engine, st *State, args []Value, call *ssa.Call, pos token.Pos) Value {
		s, ok := e.concString(st, args[1])
		if !ok {
			panic(unsupported{"regexp FindStringSubmatch on a symbolic string"})
		}
		res := reOf(e, st, args[0]).FindStringSubmatch(s)
		if res == nil {
			return zeroValue(call.Type())
		}
		o := &Object{typ: types.NewArray(types.Typ[types.String], int64(len(res))), n: len(res)}
		for _, x := range res {
			o.slots = append(o.slots, StringV{conc: x})
		}
		n := BV(64, uint64(len(res)))
		return SliceV{obj: st.alloc(o), off: BV(64, 0), ln: n, cap: n, es: 1}
	}
	models["(*regexp.Regexp).ReplaceAllString"] = func(e *Engine, st *State, args []Value, call *ssa.Call, pos token.Pos) Value {
		s, ok1 := e.concString(st, args[1])
		r, ok2 := e.concString(st, args[2])
		if !ok1 || !ok2 {
			return StringV{opaque: true}
		}
		return StringV{conc: reOf(e, st, args[0]).ReplaceAllString(s, r)}
	}
	// internal/bytealg (assembly in the real runtime): direct definitions over byte sequences of concrete length
	seq := func(e *Engine, st *State, v Value) []*Term {
		switch x := v.(type) {
		case StringV:
			bs, ok := e.stringBytes(st, x)
			if !ok {
				panic(unsupported{"bytealg on a string of symbolic length"})
			}
			return bs
		case SliceV:
			if x.obj == 0 {
				return nil
			}
			bs, ok := e.stringBytes(st, StringV{isObj: true, obj: x.obj, off: x.off, ln: x.ln})
			if !ok {
				panic(unsupported{"bytealg on a slice of symbolic length"})
			}
			return bs
		}
		panic(unsupported{"bytealg on unexpected value"})
	}
	indexByte := func(e *Engine, st *State, args []Value, call *ssa.Call, pos token.Pos) Value {
		bs, c := seq(e, st, args[0]), term(args[1])
		res := BV(64, ^uint64(0))
		for i := len(bs) - 1; i >= 0; i-- {
			res = Ite(Eq(bs[i], c), BV(64, uint64(i)), res)
		}
		return res
	}
	models["internal/bytealg.IndexByte"] = indexByte
	models["internal/bytealg.IndexByteString"] = indexByte
	lastIndexByte := func(e *Engine, st *State, args []Value, call *ssa.Call, pos token.Pos) Value {
		bs, c := seq(e, st, args[0]), term(args[1])
		res := BV(64, ^uint64(0))
		for i := 0; i < len(bs); i++ {
			res = Ite(Eq(bs[i], c), BV(64, uint64(i)), res)
		}
		return res
	}
	models["internal/bytealg.LastIndexByte"] = lastIndexByte
	models["internal/bytealg.LastIndexByteString"] = lastIndexByte
	count := func(e *Engine, st *State, args []Value, call *ssa.Call, pos token.Pos) Value {
		bs, c := seq(e, st, args[0]), term(args[1])
		res := BV(64, 0)
		for _, b := range bs {
			res = Bin("bvadd", res, Ite(Eq(b, c), BV(64, 1), BV(64, 0)))
		}
		return res
	}
	models["internal/bytealg.Count"] = count
	models["internal/bytealg.CountString"] = count
	models["internal/bytealg.Equal"] = func(e *Engine, st *State, args []Value, call *ssa.Call, pos token.Pos) Value {
		a, b := seq(e, st, args[0]), seq(e, st, args[1])
		if len(a) != len(b) {
			return Bool(false)
		}
		res := Bool(true)
		for i := range a {
			res = And(res, Eq(a[i], b[i]))
		}
		return res
	}
	index := func(e *Engine, st *State, args []Value, call *ssa.Call, pos token.Pos) Value {
		a, b := seq(e, st, args[0]), seq(e, st, args[1])
		res := BV(64, ^uint64(0))
		for i := len(a) - len(b); i >= 0; i-- {
			m := Bool(true)
			for j := range b {
				m = And(m, Eq(a[i+j], b[j]))
			}
			res = Ite(m, BV(64, uint64(i)), res)
		}
		return res
	}
	models["internal/bytealg.Index"] = index
	models["internal/bytealg.IndexString"] = index
	models["internal/bytealg.Compare"] = func(e *Engine, st *State, args []Value, call *ssa.Call, pos token.Pos) Value {
		a, b := seq(e, st, args[0]), seq(e, st, args[1])
		n := min(len(a), len(b))
		var res *Term
		switch {
		case len(a) < len(b):
			res = BV(64, ^uint64(0))
		case len(a) > len(b):
			res = BV(64, 1)
		default:
			res = BV(64, 0)
		}
		for i := n - 1; i >= 0; i-- {
			res = Ite(Cmp("bvult", a[i], b[i]), BV(64, ^uint64(0)), Ite(Cmp("bvugt", a[i], b[i]), BV(64, 1), res))
		}
		return res
	}
	models["internal/bytealg.MakeNoZero"] = func(e *Engine, st *State, args []Value, call *ssa.Call, pos token.Pos) Value {
		n := term(args[0])
		ub, ok := e.maxValue(st, n, 1<<16)
		if !ok {
			panic(unsupported{"MakeNoZero of unbounded size"})
		}
		return e.newSlice(st, types.Typ[types.Uint8], int(ub), n, n)
	}
	models["internal/abi.NoEscape"] = func(e *Engine, st *State, args []Value, call *ssa.Call, pos token.Pos) Value { return args[0] }
	// encoding/binary.Write (reflective in the real library): big/little-endian bytes of the fixed-width
	// integer kinds and byte slices that occur, handed to the real writer's Write method
	models["encoding/binary.Write"] = func(e *Engine, st *State, args []Value, call *ssa.Call, pos token.Pos) Value {
		w, ok := args[0].(Iface)
		if !ok || w.typ == nil {
			panic(unsupported{"binary.Write to nil writer"})
		}
		big := true
		if o, ok := args[1].(Iface); ok && o.typ != nil && strings.Contains(o.typ.String(), "littleEndian") {
			big = false
		}
		d, ok := args[2].(Iface)
		if !ok || d.typ == nil {
			panic(unsupported{"binary.Write of nil"})
		}
		var out []*Term
		emit := func(t *Term, w int) {
			n := w / 8
			for k := 0; k < n; k++ {
				sh := k
				if big {
					sh = n - 1 - k
				}
				out = append(out, Extract(t, sh*8+7, sh*8))
			}
		}
		var enc func(v Value, t types.Type)
		enc = func(v Value, t types.Type) {
			switch u := t.Underlying().(type) {
			case *types.Basic:
				wd, _, ok := intWidth(t)
				if !ok {
					panic(unsupported{"binary.Write of " + t.String()})
				}
				if wd == 0 {
					out = append(out, Ite(term(v), BV(8, 1), BV(8, 0)))
					return
				}
				emit(term(v), wd)
			case *types.Slice:
				sl := v.(SliceV)
				if sl.obj == 0 {
					return
				}
				if !sl.ln.k || !sl.off.k {
					panic(unsupported{"binary.Write of a slice of symbolic length"})
				}
				o := st.obj(sl.obj)
				for k := 0; k < int(sl.ln.c); k++ {
					enc(e.load(st, Pointer{obj: sl.obj, off: BV(64, (sl.off.c+uint64(k))*uint64(sl.es))}, u.Elem(), pos), u.Elem())
				}
				_ = o
			case *types.Array:
				av := v.(ArrayV)
				for _, x := range av.e {
					enc(x, u.Elem())
				}
			case *types.Pointer:
				p := v.(Pointer)
				enc(e.load(st, p, u.Elem(), pos), u.Elem())
			case *types.Struct:
				sv := v.(StructV)
				for i := 0; i < u.NumFields(); i++ {
					enc(sv.f[i], u.Field(i).Type())
				}
			default:
				panic(unsupported{"binary.Write of " + t.String()})
			}
		}
		enc(d.val, d.typ)
		sl := e.newSlice(st, types.Typ[types.Uint8], len(out), BV(64, uint64(len(out))), BV(64, uint64(len(out))))
		o := st.wobj(sl.obj)
		for k, b := range out {
			o.slots[k] = b
		}
		ms := e.prog.MethodSets.MethodSet(w.typ)
		for i := 0; i < ms.Len(); i++ {
			if ms.At(i).Obj().Name() == "Write" {
				return tailCall2{FuncV{fn: e.prog.MethodValue(ms.At(i))}, []Value{w.val, sl}, func(r Value) Value {
					if tv, ok := r.(TupleV); ok && len(tv) == 2 {
						return tv[1]
					}
					return Iface{}
				}}
			}
		}
		panic(unsupported{"binary.Write: writer has no Write method"})
	}
	for name, f := range map[string]func(float64) float64{"math.archTrunc": math.Trunc, "math.archFloor": math.Floor, "math.archCeil": math.Ceil, "math.archSqrt": math.Sqrt} {
		f := f
		models[name] = func(e *Engine, st *State, args []Value, call *ssa.Call, pos token.Pos) Value {
			t := term(args[0])
			if t.k {
				return BV(64, math.Float64bits(f(math.Float64frombits(t.c))))
			}
			return e.internalVar("float", 64)
		}
	}
	models["math.archModf"] = func(e *Engine, st *State, args []Value, call *ssa.Call, pos token.Pos) Value {
		t := term(args[0])
		if t.k {
			i, fr := math.Modf(math.Float64frombits(t.c))
			return TupleV{BV(64, math.Float64bits(i)), BV(64, math.Float64bits(fr))}
		}
		return TupleV{e.internalVar("float", 64), e.internalVar("float", 64)}
	}
	// sync/atomic.Value: a plain cell holding an interface value
	models["(*sync/atomic.Value).Store"] = func(e *Engine, st *State, args []Value, call *ssa.Call, pos token.Pos) Value {
		p := args[0].(Pointer)
		o := st.wobj(p.obj)
		o.slots[int(p.off.c)] = args[1]
		return TupleV{}
	}
	models["(*sync/atomic.Value).Load"] = func(e *Engine, st *State, args []Value, call *ssa.Call, pos token.Pos) Value {
		p := args[0].(Pointer)
		v := st.obj(p.obj).slots[int(p.off.c)]
		if iv, ok := v.(Iface); ok {
			return iv
		}
		return Iface{}
	}
	models["(*sync/atomic.Value).Swap"] = func(e *Engine, st *State, args []Value, call *ssa.Call, pos token.Pos) Value {
		p := args[0].(Pointer)
		o := st.wobj(p.obj)
		old := o.slots[int(p.off.c)]
		o.slots[int(p.off.c)] = args[1]
		if iv, ok := old.(Iface); ok {
			return iv
		}
		return Iface{}
	}
	// strconv.AppendUint base 10: native on a constant; on a symbolic value below 2^16 the digit count is
	// forked (1..5) and the digits are terms, so the canonical decimal text is a real symbolic string
	models["strconv.AppendUint"] = func(e *Engine, st *State, args []Value, call *ssa.Call, pos token.Pos) Value {
		dst := args[0].(SliceV)
		v, base := term(args[1]), term(args[2])
		if !base.k {
			panic(unsupported{"AppendUint with symbolic base"})
		}
		mkSrc := func(s2 *State, bs []*Term) SliceV {
			o := &Object{typ: types.NewArray(types.Typ[types.Uint8], int64(len(bs))), n: len(bs)}
			for _, b := range bs {
				o.slots = append(o.slots, b)
			}
			n := BV(64, uint64(len(bs)))
			return SliceV{obj: s2.alloc(o), off: BV(64, 0), ln: n, cap: n, es: 1}
		}
		if v.k {
			text := strconv.AppendUint(nil, v.c, int(base.c))
			bs := make([]*Term, len(text))
			for i, c := range text {
				bs[i] = BV(8, uint64(c))
			}
			return e.appendOp(st, dst, mkSrc(st, bs), call, pos)
		}
		if base.c != 10 {
			panic(unsupported{"AppendUint of a symbolic value in a base other than 10"})
		}
		e.forkDecimal(st, v, func(s2 *State, bs []*Term) {
			s2.top().env[call] = e.appendOp(s2, dst, mkSrc(s2, bs), call, pos)
		})
		panic("unreachable")
	}
	// regexp/syntax.Parse: run natively; the interpreted code only inspects the top-level operator
	models["regexp/syntax.Parse"] = func(e *Engine, st *State, args []Value, call *ssa.Call, pos token.Pos) Value {
		pat, ok := e.concString(st, args[0])
		fl := term(args[1])
		if !ok || !fl.k {
			panic(unsupported{"syntax.Parse of a non-constant pattern"})
		}
		re, err := syntax.Parse(pat, syntax.Flags(fl.c))
		tt := call.Type().(*types.Tuple)
		if err != nil {
			return TupleV{zeroValue(tt.At(0).Type()), Iface{typ: opaqueErrType, val: Pointer{obj: st.alloc(&Object{typ: opaqueErrType, slots: []Value{}}), off: BV(64, 0)}}}
		}
		rt := tt.At(0).Type().Underlying().(*types.Pointer).Elem()
		o := newObjFor(rt)
		o.slots[0] = BV(8, uint64(re.Op)) // field Op; the other fields are not modelled
		o.native = re
		return TupleV{Pointer{obj: st.alloc(o), off: BV(64, 0)}, Iface{}}
	}
	// eapache/channels.InfiniteChannel (a goroutine pumping between two channels in the real library):
	// one unbounded queue; In() and Out() are the same queue
	models["github.com/eapache/channels.NewInfiniteChannel"] = func(e *Engine, st *State, args []Value, call *ssa.Call, pos token.Pos) Value {
		return Pointer{obj: st.alloc(&Object{typ: call.Type(), isChan: true, chanCap: 1 << 30}), off: BV(64, 0)}
	}
	for _, n := range []string{"In", "Out"} {
		models["(*github.com/eapache/channels.InfiniteChannel)."+n] = func(e *Engine, st *State, args []Value, call *ssa.Call, pos token.Pos) Value {
			return args[0]
		}
	}
	models["(*github.com/eapache/channels.InfiniteChannel).Len"] = func(e *Engine, st *State, args []Value, call *ssa.Call, pos token.Pos) Value {
		p := args[0].(Pointer)
		if p.obj == 0 {
			return BV(64, 0)
		}
		return BV(64, uint64(len(st.obj(p.obj).vals)))
	}
	models["(*github.com/eapache/channels.InfiniteChannel).Close"] = func(e *Engine, st *State, args []Value, call *ssa.Call, pos token.Pos) Value {
		if p := args[0].(Pointer); p.obj != 0 {
			st.wobj(p.obj).chanClosed = true
		}
		return TupleV{}
	}
	models["os.Hostname"] = func(e *Engine, st *State, args []Value, call *ssa.Call, pos token.Pos) Value {
		return TupleV{StringV{conc: "verifhost"}, Iface{}}
	}
}

var opaqueErrType = types.NewPointer(types.NewNamed(types.NewTypeName(token.NoPos, nil, "opaqueError", nil), types.NewStruct(nil, nil), nil))

var uniqueTab = map[string]ObjID{}

func uniqueMake(e *Engine, st *State, args []Value, call *ssa.Call, pos token.Pos) Value {
	key := fmt.Sprintf("%v|%#v", call.Call.Args[0].Type(), describe(args[0]))
	id, ok := uniqueTab[key]
	if !ok {
		t := call.Call.Args[0].Type()
		o := &Object{typ: t, n: slotsOf(t)}
		o.slots = flatten(t, args[0], nil)
		id = st.alloc(o)
		uniqueTab[key] = id
	} else if _, present := st.heap[id]; !present {
		t := call.Call.Args[0].Type()
		o := &Object{typ: t, n: slotsOf(t)}
		o.slots = flatten(t, args[0], nil)
		st.heap[id] = o
	}
	return StructV{f: []Value{Pointer{obj: id, off: BV(64, 0)}}}
}

func describe(v Value) string {
	switch x := v.(type) {
	case *Term:
		if x.k {
			return fmt.Sprintf("%d:%d", x.w, x.c)
		}
		return fmt.Sprintf("t%d", x.id)
	case StringV:
		return fmt.Sprintf("%q", x.conc)
	case StructV:
		parts := []string{}
		for _, f := range x.f {
			parts = append(parts, describe(f))
		}
		return "{" + strings.Join(parts, ",") + "}"
	}
	return fmt.Sprintf("%T", v)
}

// freshVar creates the next nondet scalar named `name` on this path (vector key name#k).
func (e *Engine) freshVar(st *State, name string, w int) *Term {
	key := st.nextKey(name)
	t := Var(fmt.Sprintf("v_%s_w%d", sanitize(key), w), w)
	st.inputs = append(st.inputs, t)
	st.keys[t.id] = key
	return t
}

func concInt(v Value, what string) int {
	t, ok := v.(*Term)
	if !ok || !t.k {
		panic(unsupported{what + " must be a constant"})
	}
	return int(signExt(t.w, t.c))
}

// lookupModel finds a model for fn, including harness intrinsics and generic instances.
func lookupModel(fn *ssa.Function) (modelFn, bool) {
	name := fn.String()
	if m, ok := models[name]; ok && m != nil {
		return func(e *Engine, st *State, args []Value, call *ssa.Call, pos token.Pos) Value {
			modelsUsed[name]++
			return m(e, st, args, call, pos)
		}, true
	}
	if strings.HasPrefix(name, "slices.overlaps[") {
		// the real function compares addresses through uintptr; here: same object and intersecting element ranges
		return func(e *Engine, st *State, args []Value, call *ssa.Call, pos token.Pos) Value {
			a, b := args[0].(SliceV), args[1].(SliceV)
			if a.obj == 0 || b.obj == 0 || a.obj != b.obj {
				return Bool(false)
			}
			nonEmpty := And(Not(Eq(a.ln, BV(64, 0))), Not(Eq(b.ln, BV(64, 0))))
			aEnd := Bin("bvadd", a.off, a.ln)
			bEnd := Bin("bvadd", b.off, b.ln)
			return And(nonEmpty, And(Cmp("bvult", a.off, bEnd), Cmp("bvult", b.off, aEnd)))
		}, true
	}
	if strings.HasPrefix(name, "unique.Make[") {
		modelsUsed["unique.Make"]++
		return uniqueMake, true
	}
	short := fn.Name()
	if fn.Pkg != nil && fn.Pkg.Pkg.Path() == "sync/atomic" && len(fn.Blocks) == 0 {
		modelsUsed["sync/atomic"]++
		elem := func(call *ssa.Call) types.Type {
			return call.Call.Args[0].Type().Underlying().(*types.Pointer).Elem()
		}
		switch {
		case strings.HasPrefix(short, "Load"):
			return func(e *Engine, st *State, args []Value, call *ssa.Call, pos token.Pos) Value {
				return e.load(st, args[0].(Pointer), elem(call), pos)
			}, true
		case strings.HasPrefix(short, "Store"):
			return func(e *Engine, st *State, args []Value, call *ssa.Call, pos token.Pos) Value {
				e.store(st, args[0].(Pointer), elem(call), args[1], pos)
				return TupleV{}
			}, true
		case strings.HasPrefix(short, "Add"):
			return func(e *Engine, st *State, args []Value, call *ssa.Call, pos token.Pos) Value {
				old := term(e.load(st, args[0].(Pointer), elem(call), pos))
				nv := Bin("bvadd", old, term(args[1]))
				e.store(st, args[0].(Pointer), elem(call), nv, pos)
				return nv
			}, true
		case strings.HasPrefix(short, "And"), strings.HasPrefix(short, "Or"):
			return func(e *Engine, st *State, args []Value, call *ssa.Call, pos token.Pos) Value {
				old := term(e.load(st, args[0].(Pointer), elem(call), pos))
				op := "bvand"
				if strings.HasPrefix(short, "Or") {
					op = "bvor"
				}
				e.store(st, args[0].(Pointer), elem(call), Bin(op, old, term(args[1])), pos)
				return old
			}, true
		case strings.HasPrefix(short, "Swap"):
			return func(e *Engine, st *State, args []Value, call *ssa.Call, pos token.Pos) Value {
				old := e.load(st, args[0].(Pointer), elem(call), pos)
				e.store(st, args[0].(Pointer), elem(call), args[1], pos)
				return old
			}, true
		case strings.HasPrefix(short, "CompareAndSwap"):
			return func(e *Engine, st *State, args []Value, call *ssa.Call, pos token.Pos) Value {
				old := e.load(st, args[0].(Pointer), elem(call), pos)
				eq := e.valueEq(st, elem(call), old, args[1])
				if !eq.k {
					panic(unsupported{"symbolic CompareAndSwap"})
				}
				if eq.c != 0 {
					e.store(st, args[0].(Pointer), elem(call), args[2], pos)
				}
				return eq
			}, true
		}
	}
	if fn.Pkg != nil && fn.Pkg.Pkg.Path() == "log/slog" {
		modelsUsed["log/slog"]++
		return noop, true
	}
	if len(fn.Blocks) == 0 && strings.HasPrefix(short, "v") {
		switch short {
		case "vU8", "vU16", "vU32", "vU64", "vBool":
			w := map[string]int{"vU8": 8, "vU16": 16, "vU32": 32, "vU64": 64, "vBool": 0}[short]
			return func(e *Engine, st *State, args []Value, call *ssa.Call, pos token.Pos) Value {
				return e.freshVar(st, strArg(args[0]), w)
			}, true
		case "vInt": // vInt(name, lo, hi) int, inclusive bounds
			return func(e *Engine, st *State, args []Value, call *ssa.Call, pos token.Pos) Value {
				lo, hi := concInt(args[1], "vInt lo"), concInt(args[2], "vInt hi")
				v := e.freshVar(st, strArg(args[0]), 64)
				e.assume(st, And(Cmp("bvsge", v, BV(64, uint64(lo))), Cmp("bvsle", v, BV(64, uint64(hi)))))
				return v
			}, true
		case "vChoice": // vChoice(name, n) int: forked concrete choice 0..n-1
			return func(e *Engine, st *State, args []Value, call *ssa.Call, pos token.Pos) Value {
				n := concInt(args[1], "vChoice n")
				name := strArg(args[0])
				key := st.nextKey(name)
				pin, ok := e.pins[key] // one occurrence pinned ("name#k") ...
				if !ok {
					pin, ok = e.pins[name] // ... or every occurrence ("name"): work splitting between instances
				}
				if ok {
					st.choices[key] = pin
					return BV(64, uint64(pin))
				}
				conds := make([]*Term, n)
				for k := range conds {
					conds[k] = Bool(true)
				}
				e.branch(st, conds, func(s2 *State, k int) {
					s2.choices[key] = k
					s2.top().env[call] = BV(64, uint64(k))
				})
				panic("unreachable")
			}, true
		case "vParam":
			return func(e *Engine, st *State, args []Value, call *ssa.Call, pos token.Pos) Value {
				v, ok := e.params[strArg(args[0])]
				if !ok {
					panic(unsupported{"vParam " + strArg(args[0]) + " not set in index.json"})
				}
				return BV(64, uint64(v))
			}, true
		case "vBytes": // vBytes(name string, max int, slack int) []byte: symbolic length <= max, cap = len+slack, tail bytes are poison
			return func(e *Engine, st *State, args []Value, call *ssa.Call, pos token.Pos) Value {
				name := strArg(args[0])
				max := concInt(args[1], "vBytes max")
				slack := concInt(args[2], "vBytes slack")
				key := st.nextKey(name)
				arr := Var("buf_"+sanitize(key), -1)
				ln := Var("len_"+sanitize(key), 64)
				e.assume(st, Cmp("bvule", ln, BV(64, uint64(max))))
				o := &Object{arr: arr, n: max + slack, typ: types.NewArray(types.Typ[types.Uint8], int64(max+slack)), inputName: key}
				if slack > 0 {
					o.poisonFrom = ln
				}
				id := st.alloc(o)
				capT := Bin("bvadd", ln, BV(64, uint64(slack)))
				st.bufs = append(st.bufs, bufInput{key: key, arr: arr, ln: ln, max: max, slack: slack})
				return SliceV{obj: id, off: BV(64, 0), ln: ln, cap: capT, es: 1}
			}, true
		case "vAssume":
			return func(e *Engine, st *State, args []Value, call *ssa.Call, pos token.Pos) Value {
				c := term(args[0])
				if c.k && c.c == 0 {
					panic(pathEnd{})
				}
				e.assume(st, c)
				if !c.k && e.sv.Check() == "unsat" {
					panic(pathEnd{})
				}
				return TupleV{}
			}, true
		case "vAssert":
			return func(e *Engine, st *State, args []Value, call *ssa.Call, pos token.Pos) Value {
				c := term(args[0])
				e.obligeKind(st, Not(c), strArg(args[1]), pos, "assert")
				return TupleV{}
			}, true
		case "vReach":
			return func(e *Engine, st *State, args []Value, call *ssa.Call, pos token.Pos) Value {
				e.reach(st, strArg(args[0]))
				return TupleV{}
			}, true
		case "vSettle":
			return func(e *Engine, st *State, args []Value, call *ssa.Call, pos token.Pos) Value {
				e.settle(st, st.top())
				return TupleV{}
			}, true
		case "vElapsedSec": // whole seconds elapsed on the virtual clock (natively: real time since the harness started)
			return func(e *Engine, st *State, args []Value, call *ssa.Call, pos token.Pos) Value {
				return Bin("bvudiv", st.now(), BV(64, 1000000000))
			}, true
		case "vObserve":
			return func(e *Engine, st *State, args []Value, call *ssa.Call, pos token.Pos) Value {
				st.obs = append(st.obs, obsEntry{strArg(args[0]), term(args[1])})
				return TupleV{}
			}, true
		}
	}
	return nil, false
}

// concString returns the Go string of a StringV whose bytes are all constants.
func (e *Engine) concString(st *State, v Value) (string, bool) {
	s, ok := v.(StringV)
	if !ok || s.opaque {
		return "", false
	}
	if !s.isObj {
		return s.conc, true
	}
	bs, ok := e.stringBytes(st, s)
	if !ok {
		return "", false
	}
	buf := make([]byte, len(bs))
	for i, b := range bs {
		if !b.k {
			return "", false
		}
		buf[i] = byte(b.c)
	}
	return string(buf), true
}

// tailCall: returned by a model to continue as a call of an interpreted function whose result becomes the model's result.
type tailCall struct {
	fn   Value
	args []Value
}

// goValue converts a fully concrete basic value to a Go value for native formatting.
func (e *Engine) goValue(st *State, v Value, t types.Type) (any, bool) {
	if iv, ok := v.(Iface); ok {
		if iv.typ == nil {
			return nil, true
		}
		if types.NewMethodSet(iv.typ).Len() > 0 || types.NewMethodSet(types.NewPointer(iv.typ)).Len() > 0 {
			return nil, false // Stringer / error / Formatter: needs the real method
		}
		return e.goValue(st, iv.val, iv.typ)
	}
	b, ok := t.Underlying().(*types.Basic)
	if !ok {
		return nil, false
	}
	switch x := v.(type) {
	case *Term:
		if !x.k {
			return nil, false
		}
		switch b.Kind() {
		case types.Bool:
			return x.c != 0, true
		case types.Int, types.Int64:
			return int64(x.c), true
		case types.Int8:
			return int8(x.c), true
		case types.Int16:
			return int16(x.c), true
		case types.Int32:
			return int32(x.c), true
		case types.Uint, types.Uint64, types.Uintptr:
			return x.c, true
		case types.Uint8:
			return uint8(x.c), true
		case types.Uint16:
			return uint16(x.c), true
		case types.Uint32:
			return uint32(x.c), true
		}
	case StringV:
		if s, ok := e.concString(st, x); ok {
			return s, true
		}
	}
	return nil, false
}

// sprintfConcrete formats natively when the format and every operand are concrete basic values.
func (e *Engine) sprintfConcrete(st *State, format Value, varargs Value) (string, bool) {
	f, ok := e.concString(st, format)
	if !ok {
		return "", false
	}
	sl, ok := varargs.(SliceV)
	if !ok {
		return "", false
	}
	var goArgs []any
	if sl.obj != 0 {
		if !sl.ln.k || !sl.off.k {
			return "", false
		}
		o := st.obj(sl.obj)
		for k := 0; k < int(sl.ln.c); k++ {
			g, ok := e.goValue(st, o.slots[int(sl.off.c)+k], nil)
			if !ok {
				return "", false
			}
			goArgs = append(goArgs, g)
		}
	}
	return fmt.Sprintf(f, goArgs...), true
}

// tailCall2 is a tail call whose result is post-processed (e.g. (n, err) -> err).
type tailCall2 struct {
	fn   Value
	args []Value
	post func(Value) Value
}

// forkDecimal forks on the number of decimal digits of a symbolic unsigned value (< 10^10) and hands
// the digit bytes ('0'+d terms, most significant first) to the continuation.
func (e *Engine) forkDecimal(st *State, v *Term, cont func(s2 *State, bs []*Term)) {
	v = ZExt(v, 64)
	ub, ok := e.maxValue(st, v, 9999999999)
	if !ok {
		panic(unsupported{"decimal text of a symbolic value that may exceed 10 digits"})
	}
	maxd := 1
	for p := uint64(10); p <= ub && maxd < 10; p *= 10 {
		maxd++
	}
	pow := []uint64{1, 10, 100, 1000, 10000, 100000, 1000000, 10000000, 100000000, 1000000000, 10000000000}
	conds := make([]*Term, maxd)
	for d := 1; d <= maxd; d++ {
		c := Cmp("bvult", v, BV(64, pow[d]))
		if d > 1 {
			c = And(c, Cmp("bvuge", v, BV(64, pow[d-1])))
		}
		conds[d-1] = c
	}
	e.branch(st, conds, func(s2 *State, k int) {
		d := k + 1
		bs := make([]*Term, d)
		for i := 0; i < d; i++ {
			digit := Bin("bvurem", Bin("bvudiv", v, BV(64, pow[d-1-i])), BV(64, 10))
			bs[i] = Bin("bvadd", Extract(digit, 7, 0), BV(8, '0'))
		}
		cont(s2, bs)
	})
}
