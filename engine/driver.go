package main

import (
	"bytes"
	"context"
	"encoding/json"
	"flag"
	"fmt"
	"os"
	"os/exec"
	"path/filepath"
	"sort"
	"strconv"
	"strings"
	"sync"
	"time"
)

// ---- native replay ----

const nativePrelude = `package %s

import (
	vhex "encoding/hex"
	vjson "encoding/json"
	vfmt "fmt"
	vos "os"
	vdebug "runtime/debug"
	vstrconv "strconv"
	vsyscall "syscall"
	vnet "net"
	vtime "time"
	vunsafe "unsafe"
)

type vVecBuf struct {
	Len int
	Cap int
	Hex string
}

type vVector struct {
	Vars    map[string]string
	Bytes   map[string]vVecBuf
	Choices map[string]int
	Params  map[string]int
}

var vVec vVector
var vCount = map[string]int{}

type vAssertFail struct{ label string }
type vAssumeFail struct{}

func vLoadVector() {
	b, err := vos.ReadFile(vos.Getenv("VERIF_VECTOR"))
	if err != nil {
		panic(err)
	}
	if err := vjson.Unmarshal(b, &vVec); err != nil {
		panic(err)
	}
	vCount = map[string]int{}
}

func vKey(name string) string {
	k := vCount[name]
	vCount[name] = k + 1
	return name + "#" + vstrconv.Itoa(k)
}

func vNum(name string) uint64 {
	s, ok := vVec.Vars[vKey(name)]
	if !ok {
		return 0
	}
	u, _ := vstrconv.ParseUint(s, 10, 64)
	return u
}

func vU8(name string) uint8   { return uint8(vNum(name)) }
func vU16(name string) uint16 { return uint16(vNum(name)) }
func vU32(name string) uint32 { return uint32(vNum(name)) }
func vU64(name string) uint64 { return vNum(name) }
func vBool(name string) bool  { return vNum(name) != 0 }
func vInt(name string, lo, hi int) int {
	k := vKey(name)
	s, ok := vVec.Vars[k]
	if !ok {
		return lo
	}
	u, _ := vstrconv.ParseUint(s, 10, 64)
	return int(int64(u))
}
func vChoice(name string, n int) int { return vVec.Choices[vKey(name)] }
func vParam(name string) int         { return vVec.Params[name] }
func vBytes(name string, max int, slack int) []byte {
	b, ok := vVec.Bytes[vKey(name)]
	if !ok {
		return make([]byte, 0, slack)
	}
	raw, _ := vhex.DecodeString(b.Hex)
	if slack == 0 {
		buf := make([]byte, b.Len)
		copy(buf, raw)
		return buf
	}
	// The bytes between len and cap do not belong to the data. They are placed in an inaccessible
	// guard page so that a read through spare capacity (which Go does not trap) faults natively.
	page := vos.Getpagesize()
	dataPages := (b.Len+page-1)/page + 1
	guardPages := (b.Cap-b.Len+page-1)/page + 1
	mem, err := vsyscall.Mmap(-1, 0, (dataPages+guardPages)*page, vsyscall.PROT_READ|vsyscall.PROT_WRITE, vsyscall.MAP_ANON|vsyscall.MAP_PRIVATE)
	if err != nil {
		panic(err)
	}
	if err := vsyscall.Mprotect(mem[dataPages*page:], vsyscall.PROT_NONE); err != nil {
		panic(err)
	}
	start := dataPages*page - b.Len
	copy(mem[start:start+b.Len], raw)
	return vunsafe.Slice(&mem[start], b.Cap)[:b.Len]
}
func vAssume(c bool) {
	if !c {
		panic(vAssumeFail{})
	}
}
func vAssert(c bool, msg string) {
	if !c {
		panic(vAssertFail{msg})
	}
}
func vReach(label string)             { vfmt.Println("VERIF-REACH " + label) }
func vObserve(label string, v uint64) { vfmt.Printf("VERIF-OBS %%s=%%d\n", label, v) }

func vInsertionSort(n int, less func(i, j int) bool, swap func(i, j int)) {}

func vNative() bool { return true }

// only read by the engine's dialer model; natively the real dialer runs
var vDialFn func(address string) (vnet.Conn, error)

// natively the other goroutines get 150 ms (generous: replays may share the machine with 11 other jobs)
func vSettle() { vtime.Sleep(150 * vtime.Millisecond) }

var vStart = vtime.Now()

// real seconds since the harness started (timers run in real time natively)
func vElapsedSec() uint64 { return uint64(vtime.Since(vStart) / vtime.Second) }

func vRunHarness(fns map[string]func()) {
	vLoadVector()
	f, ok := fns[vos.Getenv("VERIF_ENTRY")]
	if !ok {
		vfmt.Println("VERIF-OUTCOME error no-such-entry")
		return
	}
	vdebug.SetPanicOnFault(true)
	defer func() {
		if r := recover(); r != nil {
			switch x := r.(type) {
			case vAssertFail:
				vfmt.Println("VERIF-OUTCOME assert " + x.label)
			case vAssumeFail:
				vfmt.Println("VERIF-OUTCOME assume-failed")
			default:
				vfmt.Printf("VERIF-OUTCOME panic %%v\n", r)
			}
		}
	}()
	f()
	vfmt.Println("VERIF-OUTCOME ok")
}
`

type replayBuild struct {
	dir     string // package dir relative to /repo
	bin     string
	err     string
	workdir string
}

// buildReplay compiles one native test binary for a package containing the given harness files.
func buildReplay(prop, dir string, files []string, entries []string) *replayBuild {
	rb := &replayBuild{dir: dir}
	work := filepath.Join(evidenceDir, "replay", prop, strings.ReplaceAll(dir, "/", "_"))
	os.MkdirAll(work, 0o755)
	rb.workdir = work
	pkgName := pkgNameOf(dir)
	prelude := filepath.Join(work, "prelude_native.go")
	os.WriteFile(prelude, []byte(fmt.Sprintf(nativePrelude, pkgName)), 0o644)
	var tb strings.Builder
	fmt.Fprintf(&tb, "package %s\n\nimport \"testing\"\n\nfunc TestVReplay(t *testing.T) {\n\tvRunHarness(map[string]func(){\n", pkgName)
	sort.Strings(entries)
	for _, en := range entries {
		fmt.Fprintf(&tb, "\t\t%q: %s,\n", en, en)
	}
	tb.WriteString("\t})\n}\n")
	testFile := filepath.Join(work, "replay_test.go")
	os.WriteFile(testFile, []byte(tb.String()), 0o644)
	ov := map[string]map[string]string{"Replace": {
		filepath.Join(repoDir, dir, "zz_verif_prelude.go"):     prelude,
		filepath.Join(repoDir, dir, "zz_verif_replay_test.go"): testFile,
	}}
	for _, f := range files {
		ov["Replace"][filepath.Join(repoDir, dir, "zz_verif_"+strings.ReplaceAll(f, "/", "_"))] = filepath.Join(verifDir, "harness", f)
	}
	ovFile := filepath.Join(work, "overlay.json")
	b, _ := json.Marshal(ov)
	os.WriteFile(ovFile, b, 0o644)
	rb.bin = filepath.Join(work, "replay.test")
	cmd := exec.Command("/usr/bin/go", "test", "-c", "-mod=mod", "-vet=off", "-tags=verif", "-overlay", ovFile, "-o", rb.bin, "./"+dir)
	cmd.Dir = repoDir
	env := []string{}
	for _, kv := range os.Environ() {
		if strings.HasPrefix(kv, "GOFLAGS=") || strings.HasPrefix(kv, "GOTOOLCHAIN=") || strings.HasPrefix(kv, "PATH=") || strings.HasPrefix(kv, "GOSUMDB=") || strings.HasPrefix(kv, "GOPROXY=") {
			continue
		}
		env = append(env, kv)
	}
	// the repository's own toolchain (go.mod's go 1.25.0, selected by the default go command from the module cache)
	cmd.Env = append(env, "GOFLAGS=-mod=mod", "GOPROXY=off", "PATH=/usr/local/go/bin:/usr/bin:/bin:/usr/local/bin")
	out, err := cmd.CombinedOutput()
	if err != nil {
		rb.err = fmt.Sprintf("native build failed: %v: %s", err, string(out))
	}
	return rb
}

type nativeOutcome struct {
	Kind    string // ok | assert | panic | assume-failed | timeout | error
	Detail  string
	Reached map[string]bool
	Obs     []string
	Raw     string
}

func (rb *replayBuild) run(vec *Vector, vecFile string, timeout time.Duration) nativeOutcome {
	b, _ := json.MarshalIndent(vec, "", " ")
	os.WriteFile(vecFile, b, 0o644)
	ctx, cancel := context.WithTimeout(context.Background(), timeout)
	defer cancel()
	cmd := exec.CommandContext(ctx, rb.bin, "-test.run", "^TestVReplay$", "-test.timeout", "0")
	cmd.Dir = filepath.Join(repoDir, rb.dir)
	cmd.Env = append(os.Environ(), "VERIF_VECTOR="+vecFile, "VERIF_ENTRY="+vec.Entry)
	var buf bytes.Buffer
	cmd.Stdout, cmd.Stderr = &buf, &buf
	err := cmd.Run()
	out := nativeOutcome{Reached: map[string]bool{}, Raw: buf.String()}
	if ctx.Err() == context.DeadlineExceeded {
		out.Kind = "timeout"
		return out
	}
	for _, line := range strings.Split(buf.String(), "\n") {
		switch {
		case strings.HasPrefix(line, "VERIF-REACH "):
			out.Reached[strings.TrimPrefix(line, "VERIF-REACH ")] = true
		case strings.HasPrefix(line, "VERIF-OBS "):
			out.Obs = append(out.Obs, strings.TrimPrefix(line, "VERIF-OBS "))
		case strings.HasPrefix(line, "VERIF-OUTCOME "):
			f := strings.SplitN(strings.TrimPrefix(line, "VERIF-OUTCOME "), " ", 2)
			out.Kind = f[0]
			if len(f) > 1 {
				out.Detail = f[1]
			}
		}
	}
	if out.Kind == "" {
		out.Kind = "error"
		out.Detail = fmt.Sprintf("no outcome line (err=%v)", err)
		if strings.Contains(out.Raw, "fatal error:") || strings.Contains(out.Raw, "panic:") {
			out.Kind = "panic"
			out.Detail = "process died: " + firstLine(out.Raw)
		}
	}
	return out
}

func firstLine(s string) string {
	for _, l := range strings.Split(s, "\n") {
		if strings.Contains(l, "fatal error:") || strings.HasPrefix(l, "panic:") {
			return l
		}
	}
	return ""
}

// ---- check command ----

type harnessReport struct {
	ID          string         `json:"id"`
	Entry       string         `json:"entry"`
	Desc        string         `json:"desc,omitempty"`
	Bounds      map[string]any `json:"bounds"`
	Complete    bool           `json:"complete"`
	Paths       int            `json:"paths"`
	Queries     int            `json:"queries"`
	SolverS     float64        `json:"solver_s"`
	MaxQueryS   float64        `json:"max_query_s"`
	WallS       float64        `json:"wall_s"`
	Obligations int            `json:"obligations"`
	Discharged  int            `json:"discharged"`
	Functions   int            `json:"functions_encoded"`
	Instrs      int            `json:"instructions"`
	Reach       map[string]string `json:"reach_witnesses"` // label -> native confirmation
	Problems    []string       `json:"problems,omitempty"`
	Solver      string         `json:"solver"`
}

func cmdCheck(args []string) {
	fs := flag.NewFlagSet("check", flag.ExitOnError)
	jobs := fs.Int("jobs", 12, "parallel harness processes")
	only := fs.String("only", "", "run only harnesses whose id contains this")
	solver := fs.String("solver", "", "override solver")
	keep := fs.Bool("keep", false, "keep per-harness result files")
	fs.Parse(args)
	rest := fs.Args()
	if len(rest) < 1 {
		die("usage: gosym check [flags] <property> [quick|thorough]")
	}
	prop := rest[0]
	tier := "quick"
	if len(rest) > 1 {
		tier = rest[1]
	}
	if t := os.Getenv("VERIF_TIER"); t != "" && len(rest) < 2 {
		tier = t
	}
	seed := 0
	if s := os.Getenv("VERIF_SEED"); s != "" {
		seed, _ = strconv.Atoi(s)
	}
	t0 := time.Now()
	ix := loadIndex()
	var hs []*Harness
	for i := range ix.Harness {
		h := &ix.Harness[i]
		if h.Property != prop || (*only != "" && !strings.Contains(h.ID, *only)) {
			continue
		}
		if tc, ok := h.Tiers[tier]; ok && tc.Skip {
			continue
		}
		hs = append(hs, h)
	}
	if len(hs) == 0 {
		die("no harness registered for property %s", prop)
	}
	self, _ := os.Executable()
	tmp := filepath.Join(evidenceDir, "replay", prop, "runs")
	os.RemoveAll(filepath.Join(evidenceDir, "replay", prop))
	os.MkdirAll(tmp, 0o755)

	// native replay binaries are built while the symbolic runs are going
	type pkgKey string
	builds := map[pkgKey]*replayBuild{}
	var bmu sync.Mutex
	var bwg sync.WaitGroup
	byDir := map[string][]*Harness{}
	for _, h := range hs {
		byDir[h.Dir] = append(byDir[h.Dir], h)
	}
	for dir, group := range byDir {
		bwg.Add(1)
		go func(dir string, group []*Harness) {
			defer bwg.Done()
			fset := map[string]bool{}
			eset := map[string]bool{}
			var files, entries []string
			for _, h := range group {
				for _, f := range h.Files {
					if !fset[f] {
						fset[f] = true
						files = append(files, f)
					}
				}
				if !eset[h.Entry] {
					eset[h.Entry] = true
					entries = append(entries, h.Entry)
				}
			}
			rb := buildReplay(prop, dir, files, entries)
			bmu.Lock()
			builds[pkgKey(dir)] = rb
			bmu.Unlock()
		}(dir, group)
	}

	results := make([]*RunResult, len(hs))
	sem := make(chan struct{}, *jobs)
	var wg sync.WaitGroup
	for i, h := range hs {
		wg.Add(1)
		go func(i int, h *Harness) {
			defer wg.Done()
			sem <- struct{}{}
			defer func() { <-sem }()
			tc := ix.tier(h, tier)
			out := filepath.Join(tmp, sanitize(h.ID)+".json")
			ctx, cancel := context.WithTimeout(context.Background(), time.Duration(tc.HarnessS+180)*time.Second)
			defer cancel()
			a := []string{"run", "-id", h.ID, "-tier", tier, "-out", out}
			if *solver != "" {
				a = append(a, "-solver", *solver)
			}
			cmd := exec.CommandContext(ctx, self, a...)
			var eb bytes.Buffer
			cmd.Stderr = &eb
			hstart := time.Now()
			err := cmd.Run()
			r := &RunResult{Harness: h.ID, Property: prop, Entry: h.Entry, Dir: h.Dir}
			if b, rerr := os.ReadFile(out); rerr == nil {
				json.Unmarshal(b, r)
			} else {
				r.Error = fmt.Sprintf("engine process failed: %v: %s", err, tail(eb.String(), 600))
			}
			if r.Bounds == nil {
				r.Bounds = map[string]any{}
			}
			r.Bounds["wall_s"] = time.Since(hstart).Seconds()
			results[i] = r
		}(i, h)
	}
	wg.Wait()
	bwg.Wait()

	// ---- triage ----
	exit := 0
	infra := false
	var reports []harnessReport
	var samples []any
	states, transitions, validated, queries, obligations, discharged := 0, 0, 0, 0, 0, 0
	solverS := 0.0
	funcs := map[string]bool{}
	modelsSeen := map[string]bool{}
	violations := 0
	var lines []string
	knownSeen := map[string]bool{}
	nvec := 0
	for i, r := range results {
		h := hs[i]
		rep := harnessReport{ID: h.ID, Entry: h.Entry, Desc: h.Desc, Bounds: r.Bounds, Complete: r.Complete, Paths: r.Paths, Queries: r.Queries,
			SolverS: r.SolverS, MaxQueryS: r.MaxQueryS, Obligations: r.Obligations, Discharged: r.Discharged, Functions: len(r.Functions), Instrs: r.Instrs,
			Reach: map[string]string{}, Solver: r.Solver}
		if w, ok := r.Bounds["wall_s"].(float64); ok {
			rep.WallS = w
		}
		if r.Error != "" {
			rep.Problems = append(rep.Problems, "ERROR "+r.Error)
			lines = append(lines, fmt.Sprintf("INFRA harness=%s %s", h.ID, r.Error))
			infra = true
			reports = append(reports, rep)
			continue
		}
		states += r.Paths
		transitions += r.Branches
		queries += r.Queries
		solverS += r.SolverS
		obligations += r.Obligations
		discharged += r.Discharged
		for _, f := range r.Functions {
			funcs[f] = true
		}
		for m := range r.Models {
			modelsSeen[m] = true
		}
		for k, n := range r.Unsupported {
			rep.Problems = append(rep.Problems, fmt.Sprintf("INCOMPLETE x%d %s", n, k))
			// not a verdict on the property: the stated bound was only partly explored (also in the evidence)
			lines = append(lines, fmt.Sprintf("INCOMPLETE harness=%s %d path(s) not explored to the end: %s", h.ID, n, k))
		}
		rb := builds[pkgKey(h.Dir)]
		if rb == nil || rb.err != "" {
			msg := "no replay binary"
			if rb != nil {
				msg = rb.err
			}
			rep.Problems = append(rep.Problems, "ERROR "+tail(msg, 800))
			lines = append(lines, fmt.Sprintf("INFRA harness=%s native replay build failed: %s", h.ID, tail(msg, 800)))
			infra = true
			reports = append(reports, rep)
			continue
		}
		// reach witnesses: non-vacuity + translator validation on one concrete path per mark
		for _, label := range h.ExpectReach {
			if _, ok := r.Reached[label]; !ok && r.Complete {
				rep.Problems = append(rep.Problems, "VACUOUS mark "+label+" not reachable")
				lines = append(lines, fmt.Sprintf("INFRA harness=%s expected mark %q is unreachable (vacuous harness)", h.ID, label))
				infra = true
			}
		}
		labels := make([]string, 0, len(r.Reached))
		for l := range r.Reached {
			labels = append(labels, l)
		}
		sort.Strings(labels)
		for _, label := range labels {
			vec := r.Reached[label]
			nvec++
			vf := filepath.Join(rb.workdir, fmt.Sprintf("%s-reach-%s.json", sanitize(h.ID), sanitize(label)))
			no := rb.run(vec, vf, 60*time.Second)
			ok := no.Reached[label] && (no.Kind == "ok" || no.Kind == "assert" || no.Kind == "panic")
			obsOK := true
			want := r.ReachObs[label]
			if ok && len(want) > 0 {
				// observations made before the mark must agree between the encoding and the native run
				for k, w := range want {
					if k >= len(no.Obs) || no.Obs[k] != w {
						obsOK = false
					}
				}
			}
			switch {
			case ok && obsOK:
				rep.Reach[label] = "native run reaches it"
				validated++
				if len(samples) < 12 && label == "end" {
					samples = append(samples, map[string]any{"harness": h.ID, "reaches": label, "inputs": vec})
				}
			case ok:
				rep.Reach[label] = fmt.Sprintf("native run reaches it but observations differ: engine %v native %v", want, no.Obs)
				rep.Problems = append(rep.Problems, "TRANSLATOR-MISMATCH at mark "+label)
				lines = append(lines, fmt.Sprintf("INFRA harness=%s translator mismatch at mark %s: engine %v native %v", h.ID, label, want, no.Obs))
				infra = true
			default:
				rep.Reach[label] = "NOT reproduced natively: " + no.Kind + " " + no.Detail
				rep.Problems = append(rep.Problems, "TRANSLATOR-MISMATCH mark "+label+" not reached natively ("+no.Kind+" "+no.Detail+")")
				lines = append(lines, fmt.Sprintf("INFRA harness=%s reach witness for %q does not reproduce natively (%s %s)", h.ID, label, no.Kind, no.Detail))
				infra = true
			}
		}
		// violations
		for vi, v := range r.Violations {
			if v.Kind == "unknown" {
				rep.Problems = append(rep.Problems, v.What+" at "+v.Pos)
				continue
			}
			if v.Vector == nil {
				continue
			}
			vf := filepath.Join(rb.workdir, fmt.Sprintf("%s-cex-%d.json", sanitize(h.ID), vi))
			to := 60 * time.Second
			if v.Kind == "unwind" {
				to = 10 * time.Second
			}
			no := rb.run(v.Vector, vf, to)
			validated++
			confirmed := false
			switch v.Kind {
			case "assert":
				confirmed = no.Kind == "assert" && no.Detail == v.What
			case "panic":
				confirmed = no.Kind == "panic"
			case "unwind":
				confirmed = no.Kind == "timeout"
			case "poison":
				// the stale bytes sit in an inaccessible guard page natively: the read faults (or, on the same
				// input, Go's own bounds check fires first) - either way the native run panics
				confirmed = no.Kind == "panic"
			}
			if !confirmed {
				rep.Problems = append(rep.Problems, fmt.Sprintf("UNCONFIRMED %s (%s at %s): native outcome %s %s", v.Kind, v.What, v.Pos, no.Kind, no.Detail))
				lines = append(lines, fmt.Sprintf("UNCONFIRMED harness=%s %s at %s native=%s %s vector=%s", h.ID, v.What, v.Pos, no.Kind, tail(no.Detail, 200), vf))
				continue
			}
			if v.Known != "" {
				if !knownSeen[v.Known] {
					knownSeen[v.Known] = true
					what := v.What
					for _, k := range loadKnownFile().Findings {
						if k.ID == v.Known {
							what = k.What
						}
					}
					lines = append(lines, fmt.Sprintf("KNOWN-FINDING: property=%s %s: %s (harness %s, replay %s)", prop, v.Known, what, h.ID, vf))
				}
				continue
			}
			violations++
			exit = 1
			lines = append(lines, fmt.Sprintf("VIOLATION property=%s replay=%s", prop, vf))
			lines = append(lines, fmt.Sprintf("  harness=%s %s: %s at %s; native outcome: %s %s", h.ID, v.Kind, v.What, v.Pos, no.Kind, tail(no.Detail, 300)))
		}
		reports = append(reports, rep)
	}
	for _, k := range loadKnownFile().Findings {
		if k.Property == prop && !knownSeen[k.ID] {
			ran := false
			for _, h := range hs {
				if h.ID == k.Harness {
					ran = true
				}
			}
			if ran {
				lines = append(lines, fmt.Sprintf("STALE-FINDING property=%s %s was not reproduced in this run", prop, k.ID))
			}
		}
	}
	incomplete := 0
	for _, rep := range reports {
		if !rep.Complete {
			incomplete++
		}
	}
	for _, l := range lines {
		fmt.Println(l)
	}
	wall := time.Since(t0).Seconds()
	fl := make([]string, 0, len(funcs))
	for f := range funcs {
		if strings.Contains(f, "gobgp") {
			fl = append(fl, f)
		}
	}
	sort.Strings(fl)
	ml := make([]string, 0, len(modelsSeen))
	for m := range modelsSeen {
		ml = append(ml, m)
	}
	sort.Strings(ml)
	if len(samples) == 0 {
		for _, r := range results {
			for l, v := range r.Reached {
				samples = append(samples, map[string]any{"harness": r.Harness, "reaches": l, "inputs": v})
				break
			}
			if len(samples) >= 4 {
				break
			}
		}
	}
	if len(samples) == 0 {
		samples = append(samples, "no reach witness produced")
	}
	ev := map[string]any{
		"property_id": prop, "tier": tier, "seed": seed, "level": "model_checking", "wall_s": wall, "violations": violations,
		"coverage": map[string]any{
			"states": max(states, 1), "transitions": max(transitions, 1), "traces_validated_against_impl": validated, "samples": samples,
			"evaluations": max(queries, 1), "distinct_nontrivial": max(states, 2),
			"rule": "evaluations = SMT queries discharged; states = feasible symbolic paths of the real code explored to completion (each a distinct path condition); transitions = symbolic branch decisions; traces_validated = solver models (reach witnesses and counterexamples) replayed against the native build of /repo",
			"harnesses": reports, "harnesses_run": len(reports), "harnesses_incomplete": incomplete,
			"functions_encoded": fl, "functions_encoded_count": len(funcs), "obligations": obligations, "discharged": discharged,
			"solver_time_s": solverS, "queries": queries, "environment_models_used": ml,
			"explanation": "bounded symbolic execution of /repo's current go/ssa form; every obligation is decided by the SMT solver for all inputs within the listed bounds; nothing is claimed outside them",
		},
		"assumptions": []string{
			"bounds per harness as listed under coverage.harnesses[].bounds (sizes, element counts, unwinding limits); inputs beyond them are outside the claim",
			"one processor: goroutines are cooperative threads that switch only at blocking channel operations (one schedule per choice among ready select cases; preemption is outside the claim), timers run on a virtual clock that advances only when every goroutine is blocked; sync and atomic primitives are no-ops/plain accesses",
			"environment models listed under coverage.environment_models_used (opaque formatting, slog no-op, time.Now nondeterministic non-decreasing)",
			"go/packages+go/ssa (x/tools v0.50.0) represent the source faithfully; z3 5.1 (z3-new) answers are trusted",
			"map iteration follows insertion order",
		},
	}
	os.MkdirAll(evidenceDir, 0o755)
	b, _ := json.MarshalIndent(ev, "", " ")
	os.WriteFile(filepath.Join(evidenceDir, prop+".json"), b, 0o644)
	fmt.Printf("check %s %s: harnesses=%d incomplete=%d paths=%d queries=%d solver=%.1fs obligations=%d/%d replayed=%d violations=%d wall=%.1fs\n",
		prop, tier, len(reports), incomplete, states, queries, solverS, discharged, obligations, validated, violations, wall)
	if !*keep {
		os.RemoveAll(tmp)
	}
	if exit == 0 && infra {
		os.Exit(3)
	}
	os.Exit(exit)
}

func tail(s string, n int) string {
	s = strings.TrimSpace(s)
	if len(s) > n {
		return "…" + s[len(s)-n:]
	}
	return s
}

func cmdReplay(args []string) {
	// gosym replay <vector.json>: re-run one vector natively against /repo's current tree
	if len(args) < 1 {
		die("usage: gosym replay <vector.json>")
	}
	b, err := os.ReadFile(args[0])
	if err != nil {
		die("%v", err)
	}
	var vec Vector
	if err := json.Unmarshal(b, &vec); err != nil {
		die("%v", err)
	}
	ix := loadIndex()
	for i := range ix.Harness {
		h := &ix.Harness[i]
		if h.ID == vec.Harness {
			rb := buildReplay(h.Property+"-manual", h.Dir, h.Files, []string{h.Entry})
			if rb.err != "" {
				die("%s", rb.err)
			}
			no := rb.run(&vec, filepath.Join(rb.workdir, "vector.json"), 60*time.Second)
			fmt.Printf("native outcome: %s %s\n%s", no.Kind, no.Detail, no.Raw)
			os.RemoveAll(rb.workdir)
			return
		}
	}
	die("harness %s not in index", vec.Harness)
}
