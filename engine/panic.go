package main

import (
	"go/token"
	"go/types"

	"golang.org/x/tools/go/ssa"
)

// Go panic semantics: a panic unwinds the interpreted stack running deferred calls; a deferred
// function that calls recover() stops it and the deferring function returns through its Recover
// block. Only a panic that escapes the harness entry is a violation.

type resumeStep struct{}

var recoverCache = map[*ssa.Function]bool{}

func fnCallsRecover(fn *ssa.Function) bool {
	if fn == nil {
		return false
	}
	if v, ok := recoverCache[fn]; ok {
		return v
	}
	recoverCache[fn] = false
	res := false
	for _, b := range fn.Blocks {
		for _, ins := range b.Instrs {
			if c, ok := ins.(*ssa.Call); ok {
				if bi, ok := c.Call.Value.(*ssa.Builtin); ok && bi.Name() == "recover" {
					res = true
				}
			}
		}
	}
	recoverCache[fn] = res
	return res
}

func (e *Engine) canRecover(st *State) bool {
	for _, f := range st.frames {
		for _, d := range f.defers {
			if fv, ok := d.fn.(FuncV); ok && fnCallsRecover(fv.fn) {
				return true
			}
		}
	}
	return false
}

func (e *Engine) startUnwind(st *State, what string, pos token.Pos) {
	e.startUnwindVal(st, Iface{typ: types.Typ[types.String], val: StringV{conc: what}}, what, pos)
}

func (e *Engine) startUnwindVal(st *State, val Value, what string, pos token.Pos) {
	st.panicking = &panicInfo{val: val, what: what, pos: pos}
	e.continueUnwind(st)
}

// continueUnwind runs the next pending deferred call of the innermost frame that has one, popping
// frames without defers; if the stack empties the panic escaped the harness entry.
func (e *Engine) continueUnwind(st *State) {
	for len(st.frames) > 0 {
		f := st.top()
		if len(f.defers) > 0 {
			d := f.defers[len(f.defers)-1]
			f.defers = f.defers[:len(f.defers)-1]
			e.invokeDeferred(st, d)
			return
		}
		st.frames = st.frames[:len(st.frames)-1]
	}
	pi := st.panicking
	e.report(st, Bool(true), "panic escaped: "+pi.what, pi.pos, "panic")
	panic(pathEnd{})
}

func (e *Engine) invokeDeferred(st *State, d deferred) {
	n := len(st.frames)
	e.invoke(st, d.fn, d.args, nil, token.NoPos)
	if len(st.frames) > n {
		st.top().panicDefer = true
		return
	}
	// the deferred call was a model / builtin and has already completed
	e.afterPanicDefer(st)
}

// afterPanicDefer is called when a deferred call started by the unwinder has returned.
func (e *Engine) afterPanicDefer(st *State) {
	if st.panicking != nil {
		e.continueUnwind(st)
		return
	}
	// recovered: run the remaining defers of this frame, then leave through the Recover block
	f := st.top()
	if len(f.defers) > 0 {
		d := f.defers[len(f.defers)-1]
		f.defers = f.defers[:len(f.defers)-1]
		e.invokeDeferred(st, d)
		return
	}
	if f.fn.Recover != nil {
		f.prev, f.blk, f.ip = f.blk, f.fn.Recover, 0
		return
	}
	// no named results: return zero values
	res := f.fn.Signature.Results()
	vals := make([]Value, res.Len())
	for i := range vals {
		vals[i] = zeroValue(res.At(i).Type())
	}
	e.doReturn(st, vals)
}

// branchPanic explores both outcomes of an implicit panic site while a recover() is pending.
func (e *Engine) branchPanic(st *State, bad *Term, what string, pos token.Pos) {
	if bad.k && bad.c != 0 {
		e.startUnwind(st, what, pos)
		panic(resumeStep{})
	}
	if e.sv.Check(bad) == "unsat" {
		return
	}
	e.branch(st, []*Term{bad, Not(bad)}, func(s2 *State, k int) {
		if k == 0 {
			e.startUnwind(s2, what, pos)
		} else {
			s2.top().ip-- // re-execute the instruction under !bad
		}
	})
}
