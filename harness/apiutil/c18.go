package apiutil

import (
	"bytes"
	"net/netip"

	"github.com/osrg/gobgp/v4/pkg/packet/bgp"
)

// C18: native -> API -> native conversion reproduces the wire bytes, per type, with symbolic
// numeric fields (addresses are concrete: their API form is text).

func c18bytesAttr(a bgp.PathAttributeInterface) []byte {
	b, err := a.Serialize()
	if err != nil {
		panic(err)
	}
	return b
}

func c18roundAttr(a bgp.PathAttributeInterface) {
	want := c18bytesAttr(a)
	api1, err := MarshalPathAttributes([]bgp.PathAttributeInterface{a})
	vAssert(err == nil && len(api1) == 1, "a constructible attribute cannot be converted to its API form")
	back, err := UnmarshalPathAttributes(api1)
	vAssert(err == nil && len(back) == 1, "the API form of an attribute cannot be converted back")
	if err != nil || len(back) != 1 {
		return
	}
	vAssert(bytes.Equal(c18bytesAttr(back[0]), want), "attribute -> API -> attribute does not reproduce the wire bytes")
	vReach("end")
}

func VH_c18_attrs() {
	a4 := netip.AddrFrom4([4]byte{10, 0, 0, 1})
	var a bgp.PathAttributeInterface
	switch vChoice("kind", 17) {
	case 0:
		a = bgp.NewPathAttributeOrigin(vU8("origin"))
	case 1:
		segs := []bgp.AsPathParamInterface{bgp.NewAs4PathParam(vU8("segtype"), []uint32{vU32("as"), vU32("as")})}
		if vBool("two_segments") {
			segs = append(segs, bgp.NewAs4PathParam(vU8("segtype"), []uint32{vU32("as")}))
		}
		a = bgp.NewPathAttributeAsPath(segs)
	case 2:
		a, _ = bgp.NewPathAttributeNextHop(a4)
	case 3:
		a = bgp.NewPathAttributeMultiExitDisc(vU32("med"))
	case 4:
		a = bgp.NewPathAttributeLocalPref(vU32("local_pref"))
	case 5:
		a = bgp.NewPathAttributeAtomicAggregate()
	case 6:
		a, _ = bgp.NewPathAttributeAggregator(vU32("as"), a4)
	case 7:
		a = bgp.NewPathAttributeCommunities([]uint32{vU32("community"), vU32("community")})
	case 8:
		a, _ = bgp.NewPathAttributeOriginatorId(a4)
	case 9:
		a, _ = bgp.NewPathAttributeClusterList([]netip.Addr{a4, netip.AddrFrom4([4]byte{10, 0, 0, 2})})
	case 10:
		a = bgp.NewPathAttributeLargeCommunities([]*bgp.LargeCommunity{bgp.NewLargeCommunity(vU32("asn"), vU32("local1"), vU32("local2"))})
	case 11:
		a = bgp.NewPathAttributeAs4Path([]*bgp.As4PathParam{bgp.NewAs4PathParam(vU8("segtype"), []uint32{vU32("as"), vU32("as")})})
	case 12:
		a, _ = bgp.NewPathAttributeAs4Aggregator(vU32("as"), a4)
	case 13:
		a = bgp.NewPathAttributeAigp([]bgp.AigpTLVInterface{bgp.NewAigpTLVIgpMetric(vU64("metric"))})
	case 14:
		flags := bgp.BGPAttrFlag(vU8("flags")) &^ bgp.BGP_ATTR_FLAG_EXTENDED_LENGTH
		typ := bgp.BGPAttrType(vU8("type"))
		vAssume(typ > 40 && typ != bgp.BGP_ATTR_TYPE_PREFIX_SID && typ != 128)
		a = bgp.NewPathAttributeUnknown(flags, typ, []byte{vU8("v"), vU8("v"), vU8("v")})
	case 15:
		var ec bgp.ExtendedCommunityInterface
		trans := vBool("transitive")
		switch vChoice("ext_kind", 4) {
		case 0:
			ec = bgp.NewTwoOctetAsSpecificExtended(bgp.ExtendedCommunityAttrSubType(vU8("subtype")&3|2), vU16("as"), vU32("local"), trans)
		case 1:
			ec = bgp.NewFourOctetAsSpecificExtended(bgp.ExtendedCommunityAttrSubType(vU8("subtype")&1|2), vU32("as"), vU16("local"), trans)
		case 2:
			ec, _ = bgp.NewIPv4AddressSpecificExtended(bgp.ExtendedCommunityAttrSubType(vU8("subtype")&1|2), a4, vU16("local"), trans)
		default:
			ec = bgp.NewOpaqueExtended(trans, []byte{0x40, vU8("o"), vU8("o"), vU8("o"), vU8("o"), vU8("o"), vU8("o")})
		}
		a = bgp.NewPathAttributeExtendedCommunities([]bgp.ExtendedCommunityInterface{ec})
	default:
		id := []byte{10, 0, 0, 9}
		a = bgp.NewPathAttributePmsiTunnel(bgp.PmsiTunnelType(vU8("tunnel_type")), vBool("leaf_info"), vU32("label")&0xfffff, bgp.NewDefaultPmsiTunnelID(id))
	}
	c18roundAttr(a)
}

func c18bytesNLRI(n bgp.NLRI) []byte {
	b, err := n.Serialize()
	if err != nil {
		panic(err)
	}
	return b
}

func VH_c18_nlri() {
	p4, _ := bgp.NewIPAddrPrefix(netip.MustParsePrefix("10.1.0.0/16"))
	p6, _ := bgp.NewIPAddrPrefix(netip.MustParsePrefix("2001:db8:1::/48"))
	q6, _ := bgp.NewIPAddrPrefix(netip.MustParsePrefix("2001:db8:2::/64"))
	var n bgp.NLRI
	var fam bgp.Family
	switch vChoice("kind", 7) {
	case 0:
		n, fam = p4, bgp.RF_IPv4_UC
	case 1:
		n, fam = p6, bgp.RF_IPv6_UC
	case 2:
		n, _ = bgp.NewLabeledIPAddrPrefix(netip.MustParsePrefix("10.1.0.0/16"), *bgp.NewMPLSLabelStack(vU32("label") & 0xfffff))
		fam = bgp.RF_IPv4_MPLS
	case 3:
		rd := bgp.NewRouteDistinguisherTwoOctetAS(vU16("rd_admin"), vU32("rd_assigned"))
		n, _ = bgp.NewLabeledVPNIPAddrPrefix(netip.MustParsePrefix("10.1.0.0/16"), *bgp.NewMPLSLabelStack(vU32("label") & 0xfffff), rd)
		fam = bgp.RF_IPv4_VPN
	case 4:
		item := bgp.NewFlowSpecComponentItem(vU8("op")&0x47, uint64(vU8("value")))
		n, _ = bgp.NewFlowSpecUnicast(bgp.RF_FS_IPv4_UC, []bgp.FlowSpecComponentInterface{bgp.NewFlowSpecDestinationPrefix(p4), bgp.NewFlowSpecSourcePrefix(p4),
			bgp.NewFlowSpecComponent(bgp.FLOW_SPEC_TYPE_IP_PROTO, []*bgp.FlowSpecComponentItem{item})})
		fam = bgp.RF_FS_IPv4_UC
	case 5:
		o1, o2 := vU8("dst_offset"), vU8("src_offset")
		vAssume(o1 <= 48 && o2 <= 64)
		n, _ = bgp.NewFlowSpecUnicast(bgp.RF_FS_IPv6_UC, []bgp.FlowSpecComponentInterface{bgp.NewFlowSpecDestinationPrefix6(p6, o1), bgp.NewFlowSpecSourcePrefix6(q6, o2)})
		fam = bgp.RF_FS_IPv6_UC
	default:
		rt := bgp.NewTwoOctetAsSpecificExtended(bgp.EC_SUBTYPE_ROUTE_TARGET, vU16("rt_as"), vU32("rt_local"), true)
		n = bgp.NewRouteTargetMembershipNLRI(vU32("origin_as"), rt)
		fam = bgp.RF_RTC_UC
	}
	vAssume(n != nil)
	want := c18bytesNLRI(n)
	a, err := MarshalNLRI(n)
	vAssert(err == nil && a != nil, "a constructible NLRI cannot be converted to its API form")
	if err != nil {
		return
	}
	back, err := UnmarshalNLRI(fam, a)
	vAssert(err == nil && back != nil, "the API form of an NLRI cannot be converted back")
	if err != nil || back == nil {
		return
	}
	vAssert(bytes.Equal(c18bytesNLRI(back), want), "NLRI -> API -> NLRI does not reproduce the wire bytes")
	vReach("end")
}

func VH_c18_caps() {
	var c bgp.ParameterCapabilityInterface
	switch vChoice("kind", 8) {
	case 0:
		c = bgp.NewCapMultiProtocol(bgp.NewFamily(vU16("afi"), vU8("safi")))
	case 1:
		c = bgp.NewCapRouteRefresh()
	case 2:
		c = bgp.NewCapFourOctetASNumber(vU32("as"))
	case 3:
		c = bgp.NewCapAddPath([]*bgp.CapAddPathTuple{bgp.NewCapAddPathTuple(bgp.NewFamily(vU16("afi"), vU8("safi")), bgp.BGPAddPathMode(vU8("mode")))})
	case 4:
		c = bgp.NewCapGracefulRestart(vBool("restarting"), vBool("notification"), vU16("time")&0xfff,
			[]*bgp.CapGracefulRestartTuple{bgp.NewCapGracefulRestartTuple(bgp.NewFamily(vU16("afi"), vU8("safi")), vBool("forward"))})
	case 5:
		c = bgp.NewCapLongLivedGracefulRestart([]*bgp.CapLongLivedGracefulRestartTuple{bgp.NewCapLongLivedGracefulRestartTuple(bgp.NewFamily(vU16("afi"), vU8("safi")), vBool("forward"), vU32("time")&0xffffff)})
	case 6:
		c = bgp.NewCapExtendedMessage()
	default:
		c = bgp.NewCapUnknown(bgp.BGPCapabilityCode(vU8("code")|0x80), []byte{vU8("v"), vU8("v")})
	}
	want, err := c.Serialize()
	vAssume(err == nil)
	a, err := MarshalCapability(c)
	vAssert(err == nil, "a constructible capability cannot be converted to its API form")
	if err != nil {
		return
	}
	back, err := unmarshalCapability(a)
	vAssert(err == nil && back != nil, "the API form of a capability cannot be converted back")
	if err != nil || back == nil {
		return
	}
	got, _ := back.Serialize()
	vAssert(bytes.Equal(got, want), "capability -> API -> capability does not reproduce the wire bytes")
	vReach("end")
}
