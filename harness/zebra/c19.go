package zebra

// C19 (Zebra API): header and body decoders return a value or an error for every byte string,
// for the supported protocol versions and software flavours.

// the (protocol version, software flavour) pairs a deployment can be configured with
var c19combos = []struct {
	ver uint8
	sw  Software
}{{2, Software{"quagga", 0}}, {3, Software{"quagga", 0}}, {4, Software{"frr", 3}}, {5, Software{"frr", 4}}, {5, Software{"cumulus", 0}}, {6, Software{"frr", 6}}, {6, Software{"frr", 7.2}}, {6, Software{"frr", 8.1}}}

func VH_c19_zebra_header() {
	buf := vBytes("hdr", vParam("n"), 8)
	h := &Header{}
	err := h.decodeFromBytes(buf)
	if err == nil {
		vAssert(h.Version >= 2 && h.Version <= 6 && h.Len >= HeaderSize(h.Version), "accepted header with unsupported version or impossible length")
		vReach("ok")
	}
	vReach("end")
}

// body decoding as the receive loop does it: header decoded from the wire, then the body
func c19zebraBody(cmdSel int) {
	combo := c19combos[vChoice("combo", len(c19combos))]
	ver, sw := combo.ver, combo.sw
	hdr := &Header{Len: vU16("hlen"), Marker: vU8("marker"), Version: ver, VrfID: vU32("vrf")}
	// the command is given in the version/flavour independent numbering and mapped to the wire
	// value the way the client does; a few raw wire values are added
	common := []APIType{interfaceAdd, interfaceAddressAdd, routerIDUpdate, nexthopUpdate, RedistributeRouteAdd, RouteAdd, labelManagerConnect, getLabelChunk, vrfLabel, ipv4NexthopLookupMRIB}
	if cmdSel < len(common) {
		hdr.Command = common[cmdSel].ToEach(ver, sw)
	} else {
		hdr.Command = APIType(vU16("rawcmd"))
	}
	buf := vBytes("body", vParam("n"), 8)
	m, err := parseMessage(hdr, buf, sw)
	if err == nil {
		vAssert(m != nil && m.Body != nil, "parseMessage returned neither a value nor an error")
		vReach("ok")
	}
	vReach("end")
}

func VH_c19_zebra_body_if()     { c19zebraBody(0) }
func VH_c19_zebra_body_ifaddr() { c19zebraBody(1) }
func VH_c19_zebra_body_rid()    { c19zebraBody(2) }
func VH_c19_zebra_body_nhupd()  { c19zebraBody(3) }
func VH_c19_zebra_body_redist() { c19zebraBody(4) }
func VH_c19_zebra_body_route()  { c19zebraBody(5) }
func VH_c19_zebra_body_lmconn() { c19zebraBody(6) }
func VH_c19_zebra_body_chunk()  { c19zebraBody(7) }
func VH_c19_zebra_body_vrflbl() { c19zebraBody(8) }
func VH_c19_zebra_body_lookup() { c19zebraBody(9) }
func VH_c19_zebra_body_rawcmd() { c19zebraBody(99) }
