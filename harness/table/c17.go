package table

import (
	"net/netip"

	"github.com/osrg/gobgp/v4/pkg/packet/bgp"
)

// C17: VRF import/export and RT Constraint distribute exactly the matching routes.

// c17rt builds a route target (or another extended community) of a forked kind with symbolic fields.
// It returns the community and its identity as (type octet, sub-type, global admin, local admin).
func c17rt(n string) (bgp.ExtendedCommunityInterface, [4]uint64) {
	tr := vBool(n + "_transitive")
	st := bgp.ExtendedCommunityAttrSubType(vU8(n + "_subtype"))
	typeBit := func(base uint8) uint64 {
		if tr {
			return uint64(base)
		}
		return uint64(base | 0x40)
	}
	switch vChoice(n+"_kind", 3) {
	case 0:
		as, la := vU16(n+"_as2"), vU32(n+"_la4")
		return bgp.NewTwoOctetAsSpecificExtended(st, as, la, tr), [4]uint64{typeBit(0), uint64(st), uint64(as), uint64(la)}
	case 1:
		a, la := vU8(n+"_ip"), vU16(n+"_la2")
		e, _ := bgp.NewIPv4AddressSpecificExtended(st, netip.AddrFrom4([4]byte{10, 0, 0, a}), la, tr)
		return e, [4]uint64{typeBit(1), uint64(st), uint64(0x0a000000) | uint64(a), uint64(la)}
	default:
		as, la := vU32(n+"_as4"), vU16(n+"_la2")
		return bgp.NewFourOctetAsSpecificExtended(st, as, la, tr), [4]uint64{typeBit(2), uint64(st), uint64(as), uint64(la)}
	}
}

// key injectivity: the VRF / RTC machinery compares 64-bit keys, so equal keys must mean equal targets
func VH_c17_key_injective() {
	a, ia := c17rt("a")
	b, ib := c17rt("b")
	ka, erra := bgp.ExtCommRouteTargetKey(a)
	kb, errb := bgp.ExtCommRouteTargetKey(b)
	vAssert(erra == nil && errb == nil, "route target key refused")
	vAssert((ka == kb) == (ia == ib), "two different route targets share a key, or one target has two keys")
	vReach("end")
}

// import: visible in the VRF iff one of the route's transitive route-target communities is in the import set
func VH_c17_import() {
	i1, id1 := c17rt("imp1")
	i2, id2 := c17rt("imp2")
	m, err := newRouteTargetMap([]bgp.ExtendedCommunityInterface{i1, i2})
	vAssert(err == nil, "import set refused")
	v := &Vrf{Name: "v", ImportRt: m}
	e1, ie1 := c17rt("ec1")
	e2, ie2 := c17rt("ec2")
	ecs := []bgp.ExtendedCommunityInterface{e1, e2}
	// a community that is no route target at all (Color, Encapsulation) may sit anywhere in the list
	if pos := vChoice("foreign_community_position", 4); pos > 0 {
		var foreign bgp.ExtendedCommunityInterface = bgp.NewColorExtended(vU32("color"))
		if vBool("foreign_is_encapsulation") {
			foreign = bgp.NewEncapExtended(bgp.TUNNEL_TYPE_VXLAN)
		}
		ecs = append(ecs[:pos-1:pos-1], append([]bgp.ExtendedCommunityInterface{foreign}, ecs[pos-1:]...)...)
	}
	attrs := []bgp.PathAttributeInterface{bgp.NewPathAttributeOrigin(0), bgp.NewPathAttributeExtendedCommunities(ecs)}
	p := &Path{info: &originInfo{source: localSource}, pathAttrs: attrs, family: bgp.RF_IPv4_VPN}
	want := false
	for _, ie := range [][4]uint64{ie1, ie2} {
		if ie[0]&0x40 != 0 { // non-transitive communities never import
			continue
		}
		if ie == id1 || ie == id2 {
			want = true
		}
	}
	vAssert(CanImportToVrf(v, p) == want, "VRF import decision differs from 'a transitive route target of the route is in the import set'")
	vReach("end")
}

// RT membership: has(rt) iff some (origin AS, path-id) membership for rt is currently announced
func VH_c17_membership() {
	rts := []bgp.ExtendedCommunityInterface{bgp.NewTwoOctetAsSpecificExtended(bgp.EC_SUBTYPE_ROUTE_TARGET, 65000, 100, true), bgp.NewTwoOctetAsSpecificExtended(bgp.EC_SUBTYPE_ROUTE_TARGET, 65000, 200, true), nil}
	h := NewRouteTargetMembershipHandler()
	type mk struct {
		rt, as int
		id     uint32
	}
	model := map[mk]bool{}
	steps := vParam("steps")
	for i := 0; i < steps; i++ {
		ri, ai, id := vChoice("rt", 3), vChoice("as", 2), uint32(vChoice("pathid", 2))
		wd := vBool("withdraw")
		nlri := bgp.NewRouteTargetMembershipNLRI(uint32(65001+ai), rts[ri])
		if rts[ri] == nil {
			nlri = bgp.NewRouteTargetMembershipNLRI(0, nil) // the default membership
			ai = 0
		}
		p := &Path{info: &originInfo{nlri: nlri, source: localSource}, family: bgp.RF_RTC_UC, remoteID: id, IsWithdraw: wd}
		h.SyncAfterImport(p)
		if wd {
			delete(model, mk{ri, ai, id})
		} else {
			model[mk{ri, ai, id}] = true
		}
		for q := 0; q < 2; q++ {
			n := 0
			for k := range model {
				if k.rt == q {
					n++
				}
			}
			vAssert(h.HasRouteTarget(rts[q]) == (n > 0), "membership for a route target differs from 'some (origin AS, path-id) announcement is not withdrawn'")
		}
		nd := 0
		for k := range model {
			if k.rt == 2 {
				nd++
			}
		}
		vAssert(h.HasDefaultRouteTarget() == (nd > 0), "default membership differs from its announcements")
	}
	vReach("end")
}

// the RT index of a VPN table holds exactly the stored paths carrying the target
func VH_c17_vpn_index() {
	idx := NewVPNPathIndex()
	rtA := bgp.NewTwoOctetAsSpecificExtended(bgp.EC_SUBTYPE_ROUTE_TARGET, 65000, 100, true)
	rtB := bgp.NewTwoOctetAsSpecificExtended(bgp.EC_SUBTYPE_ROUTE_TARGET, 65000, 200, true)
	mk := func(n int) *Path {
		var ecs []bgp.ExtendedCommunityInterface
		sel := vChoice("rts", 4) // none, A, B, A+B
		if sel&1 != 0 {
			ecs = append(ecs, rtA)
		}
		if sel&2 != 0 {
			ecs = append(ecs, rtB)
		}
		attrs := []bgp.PathAttributeInterface{bgp.NewPathAttributeOrigin(0)}
		if len(ecs) > 0 {
			attrs = append(attrs, bgp.NewPathAttributeExtendedCommunities(ecs))
		}
		return &Path{info: &originInfo{source: c02srcs[n]}, pathAttrs: attrs, family: bgp.RF_IPv4_VPN, remoteID: uint32(n)}
	}
	has := func(p *Path, rt bgp.ExtendedCommunityInterface) bool {
		for _, e := range p.GetExtCommunities() {
			if e == rt {
				return true
			}
		}
		return false
	}
	ps := []*Path{mk(0), mk(1)}
	in := []bool{false, false}
	steps := vParam("steps")
	for i := 0; i < steps; i++ {
		k := vChoice("path", 2)
		if vBool("unregister") {
			idx.UnregisterPath(ps[k].Clone(true)) // removal arrives as a withdraw clone
			in[k] = false
		} else {
			idx.RegisterPath(ps[k])
			in[k] = true
		}
		for _, rt := range []bgp.ExtendedCommunityInterface{rtA, rtB} {
			got := idx.GetPathsByRT(rt)
			want := 0
			for q := range ps {
				if in[q] && has(ps[q], rt) {
					want++
					found := false
					for _, g := range got {
						if g == ps[q] {
							found = true
						}
					}
					vAssert(found, "a stored path carrying the route target is missing from the index")
				}
			}
			vAssert(len(got) == want, "the route-target index holds a path that is not stored or does not carry the target")
		}
	}
	vReach("end")
}

// deleting a VRF withdraws exactly the routes originated in it
func VH_c17_delete_vrf() {
	tbl := NewTable(c14logger(), bgp.RF_IPv4_VPN)
	rdV := bgp.NewRouteDistinguisherTwoOctetAS(65000, 1)
	rdO := bgp.NewRouteDistinguisherTwoOctetAS(65000, 2)
	mk := func(c byte, rd bgp.RouteDistinguisherInterface, src *PeerInfo) *Path {
		nlri, _ := bgp.NewLabeledVPNIPAddrPrefix(netip.PrefixFrom(netip.AddrFrom4([4]byte{10, c, 0, 0}), 16), *bgp.NewMPLSLabelStack(100), rd)
		attrs := []bgp.PathAttributeInterface{bgp.NewPathAttributeOrigin(0)}
		return &Path{info: &originInfo{nlri: nlri, nlriString: nlri.String(), source: src}, pathAttrs: attrs, family: bgp.RF_IPv4_VPN}
	}
	own := mk(1, rdV, localSource)    // originated in the VRF
	learned := mk(2, rdV, c02srcs[0]) // learned from a peer, same RD
	other := mk(3, rdO, localSource)  // local route of another VRF
	for _, p := range []*Path{own, learned, other} {
		tbl.update(p)
	}
	wd := tbl.deletePathsByVrf(&Vrf{Name: "v", Rd: rdV})
	vAssert(len(wd) == 1 && wd[0].IsWithdraw && wd[0].GetNlri() == own.GetNlri(), "deleting a VRF does not withdraw exactly the routes originated in it")
	vReach("end")
}

// the candidate lookup of RT Constraint over several families: TableManager.GetPathsByRT returns the
// union over the families asked for - every stored route carrying the target, each once
func VH_c17_paths_by_rt() {
	fams := []bgp.Family{bgp.RF_IPv4_VPN, bgp.RF_IPv6_VPN, bgp.RF_EVPN}
	m := NewTableManager(c14logger(), fams)
	rtA := bgp.NewTwoOctetAsSpecificExtended(bgp.EC_SUBTYPE_ROUTE_TARGET, 65000, 100, true)
	rtB := bgp.NewTwoOctetAsSpecificExtended(bgp.EC_SUBTYPE_ROUTE_TARGET, 65000, 200, true)
	rd := bgp.NewRouteDistinguisherTwoOctetAS(65000, 1)
	n4, _ := bgp.NewLabeledVPNIPAddrPrefix(netip.PrefixFrom(netip.AddrFrom4([4]byte{10, 1, 0, 0}), 16), *bgp.NewMPLSLabelStack(100), rd)
	n6, _ := bgp.NewLabeledVPNIPAddrPrefix(netip.PrefixFrom(netip.AddrFrom16([16]byte{0x20, 0x01, 0x0d, 0xb8, 1}), 48), *bgp.NewMPLSLabelStack(100), rd)
	n4b, _ := bgp.NewLabeledVPNIPAddrPrefix(netip.PrefixFrom(netip.AddrFrom4([4]byte{10, 2, 0, 0}), 16), *bgp.NewMPLSLabelStack(100), rd)
	type cand struct {
		fam  bgp.Family
		nlri bgp.NLRI
	}
	cands := []cand{{bgp.RF_IPv4_VPN, n4}, {bgp.RF_IPv6_VPN, n6}, {bgp.RF_IPv4_VPN, n4b}}
	var stored []*Path
	var hasA []bool
	for i, c := range cands {
		sel := vChoice("route_targets", 4) // not stored, A, B, A+B
		if sel == 0 {
			continue
		}
		var ecs []bgp.ExtendedCommunityInterface
		if sel&1 != 0 {
			ecs = append(ecs, rtA)
		}
		if sel&2 != 0 {
			ecs = append(ecs, rtB)
		}
		attrs := []bgp.PathAttributeInterface{bgp.NewPathAttributeOrigin(0), bgp.NewPathAttributeExtendedCommunities(ecs)}
		p := &Path{info: &originInfo{nlri: c.nlri, nlriString: c.nlri.String(), source: c02srcs[0]}, pathAttrs: attrs, family: c.fam, remoteID: uint32(i)}
		m.Update(p)
		stored = append(stored, p)
		hasA = append(hasA, sel&1 != 0)
	}
	asked := fams
	if vBool("only_vpnv4_asked") {
		asked = fams[:1]
	}
	got := m.GetPathsByRT(rtA, asked)
	want := 0
	for i, p := range stored {
		if !hasA[i] || (len(asked) == 1 && p.GetFamily() != bgp.RF_IPv4_VPN) {
			continue
		}
		want++
		n := 0
		for _, g := range got {
			if g == p {
				n++
			}
		}
		vAssert(n == 1, "a stored route carrying the target is missing from (or twice in) the candidates of the families asked for")
		if p.GetFamily() == bgp.RF_IPv6_VPN {
			vReach("two_families")
		}
	}
	vAssert(len(got) == want, "the candidates hold a route that does not carry the target or is of a family not asked for")
	vReach("end")
}
