package table

import (
	"net/netip"
	"time"

	"github.com/osrg/gobgp/v4/pkg/packet/bgp"
)

// C06 (treat-as-withdraw): every prefix the malformed UPDATE names is removed from that peer's
// routes, and nothing of it is installed.
func VH_c06_treat_as_withdraw() {
	n1, _ := bgp.NewIPAddrPrefix(netip.PrefixFrom(netip.AddrFrom4([4]byte{10, vU8("n1"), 0, 0}), 16))
	n2, _ := bgp.NewIPAddrPrefix(netip.PrefixFrom(netip.AddrFrom4([4]byte{10, vU8("n2"), 1, 0}), 24))
	w1, _ := bgp.NewIPAddrPrefix(netip.PrefixFrom(netip.AddrFrom4([4]byte{172, 16, vU8("w1"), 0}), 24))
	r6, _ := bgp.NewIPAddrPrefix(netip.PrefixFrom(netip.AddrFrom16([16]byte{0x20, 0x01, 0xd, 0xb8, vU8("r6")}), 48))
	u6, _ := bgp.NewIPAddrPrefix(netip.PrefixFrom(netip.AddrFrom16([16]byte{0x20, 0x01, 0xd, 0xb9, vU8("u6")}), 48))
	reach, _ := bgp.NewPathAttributeMpReachNLRI(bgp.RF_IPv6_UC, []bgp.PathNLRI{{NLRI: r6, ID: 7}}, netip.AddrFrom16([16]byte{0x20, 0x01, 15: 1}))
	unreach, _ := bgp.NewPathAttributeMpUnreachNLRI(bgp.RF_IPv6_UC, []bgp.PathNLRI{{NLRI: u6, ID: 9}})
	nh, _ := bgp.NewPathAttributeNextHop(netip.AddrFrom4([4]byte{10, 0, 0, 1}))
	attrs := []bgp.PathAttributeInterface{bgp.NewPathAttributeOrigin(0), bgp.NewPathAttributeAsPath([]bgp.AsPathParamInterface{bgp.NewAs4PathParam(bgp.BGP_ASPATH_ATTR_TYPE_SEQ, []uint32{65001})}), nh, reach, unreach}
	msg := bgp.NewBGPUpdateMessage([]bgp.PathNLRI{{NLRI: w1, ID: 5}}, attrs, []bgp.PathNLRI{{NLRI: n1, ID: 3}, {NLRI: n2}})
	taw := vBool("treat_as_withdraw")
	paths := ProcessMessage(msg, c02srcs[0], time.Unix(1000, 0), taw)
	vAssert(len(paths) == 5, "the paths produced do not cover every prefix the UPDATE names exactly once")
	seen := map[bgp.NLRI]int{}
	for _, p := range paths {
		seen[p.GetNlri()]++
		announced := p.GetNlri() == bgp.NLRI(n1) || p.GetNlri() == bgp.NLRI(n2) || p.GetNlri() == bgp.NLRI(r6)
		if taw || !announced {
			vAssert(p.IsWithdraw, "a prefix of a treat-as-withdraw UPDATE (or a withdrawn prefix) is not a withdrawal")
		} else {
			vAssert(!p.IsWithdraw && len(p.GetPathAttrs()) >= 3, "an announced prefix of a well-formed UPDATE lost its attributes")
		}
		if taw {
			vAssert(len(p.GetPathAttrs()) == 0, "attributes of a malformed UPDATE are carried by its withdrawals")
		}
	}
	for _, n := range []bgp.NLRI{n1, n2, w1, r6, u6} {
		vAssert(seen[n] == 1, "a prefix of the UPDATE is missing or duplicated")
	}
	// every path keeps the path identifier its NLRI carried (ADD-PATH), also withdrawals
	ids := map[bgp.NLRI]uint32{n1: 3, n2: 0, w1: 5, r6: 7, u6: 9}
	for _, p := range paths {
		vAssert(p.remoteID == ids[p.GetNlri()], "a path (or withdrawal) lost the path identifier its NLRI carried")
	}
	vReach("end")
}
