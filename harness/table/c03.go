package table

import (
	"net/netip"

	"github.com/osrg/gobgp/v4/pkg/packet/bgp"
)

// C03: best path follows the documented decision process whatever the arrival order.
// Candidates are real *Path objects whose scalar leaves are symbolic. Attribute presence is fixed
// (LOCAL_PREF, MED, ORIGIN, COMMUNITIES present): an absent LOCAL_PREF / MED is value-equivalent to
// 100 / 0, which the symbolic value covers; ORIGIN is well-known mandatory (premise (ii) of DESIGN).

type c03cand struct {
	p                *Path
	stale, nhinv     bool
	lp, med          uint32
	origin           uint8
	seg1typ, seg2typ uint8
	n1, n2           int
	first            uint32 // first AS of the first non-confed segment, 0 if none
	local            bool
	src              *PeerInfo
	ts               uint16
}

func c03segLen(typ uint8, n int) int {
	switch typ {
	case bgp.BGP_ASPATH_ATTR_TYPE_SEQ:
		return n
	case bgp.BGP_ASPATH_ATTR_TYPE_SET:
		return 1
	}
	return 0 // CONFED_SEQ / CONFED_SET do not count
}

func c03mk(n string, confed bool, localAllowed bool) *c03cand {
	c := &c03cand{}
	c.src = vSrc(n, confed)
	if localAllowed && vBool(n+"_local") {
		c.src = localSource
		c.local = true
	}
	c.lp, c.med, c.origin = vU32(n+"_lp"), vU32(n+"_med"), vU8(n+"_org")
	vAssume(c.origin <= 2)
	comm := vU32(n + "_comm")
	c.stale = comm == uint32(bgp.COMMUNITY_LLGR_STALE)
	c.seg1typ = vU8(n + "_s1t")
	vAssume(c.seg1typ >= 1 && c.seg1typ <= 4)
	c.n1 = 1 + int(vU8(n+"_s1n")&1) // 1 or 2 members
	as1 := []uint32{vU32(n + "_a0"), vU32(n + "_a1")}[:c.n1]
	params := []bgp.AsPathParamInterface{bgp.NewAs4PathParam(c.seg1typ, as1)}
	if vParam("segs") >= 2 {
		c.seg2typ = vU8(n + "_s2t")
		vAssume(c.seg2typ >= 1 && c.seg2typ <= 4)
		c.n2 = 1
		b0 := vU32(n + "_b0")
		params = append(params, bgp.NewAs4PathParam(c.seg2typ, []uint32{b0}))
		if c.seg1typ <= 2 {
			c.first = as1[0]
		} else if c.seg2typ <= 2 {
			c.first = b0
		}
	} else if c.seg1typ <= 2 {
		c.first = as1[0]
	}
	attrs := []bgp.PathAttributeInterface{
		bgp.NewPathAttributeOrigin(c.origin),
		bgp.NewPathAttributeAsPath(params),
		bgp.NewPathAttributeMultiExitDisc(c.med),
		bgp.NewPathAttributeLocalPref(c.lp),
		bgp.NewPathAttributeCommunities([]uint32{comm}),
	}
	c.ts = vU16(n + "_ts")
	c.p = &Path{info: &originInfo{source: c.src, timestamp: int64(c.ts)}, pathAttrs: attrs, family: bgp.RF_IPv4_UC}
	c.nhinv = vBool(n + "_nhinv")
	c.p.IsNexthopInvalid = c.nhinv
	return c
}

func (c *c03cand) aslen() int {
	l := c03segLen(c.seg1typ, c.n1)
	if c.n2 > 0 {
		l += c03segLen(c.seg2typ, c.n2)
	}
	return l
}

func (c *c03cand) ibgp() bool { return !c.local && c.src.AS == c.src.LocalAS && c.src.AS != 0 }

// internal for the eBGP-over-iBGP step: iBGP or confederation member
func (c *c03cand) internal() bool { return c.ibgp() || (!c.local && c.src.Confederation) }

// the three route-selection options: a forked choice so that heavy harnesses can be split into one
// process per option combination (index pins)
func c03opts() {
	o := vChoice("opts", 8)
	SelectionOptions.AlwaysCompareMed = o&1 != 0
	SelectionOptions.IgnoreAsPathLength = o&2 != 0
	SelectionOptions.ExternalCompareRouterId = o&4 != 0
}

// c03less observes the real insertion predicate: does a go in front of b?
func c03less(a, b *Path) bool {
	d := &destination{knownPathList: []*Path{b}}
	d.insertSort(a)
	return d.knownPathList[0] == a
}

func c03medComparable(a, b *c03cand) bool {
	if SelectionOptions.AlwaysCompareMed {
		return true
	}
	if a.aslen() == 0 && b.aslen() == 0 {
		return true
	}
	return a.first != 0 && a.first == b.first
}

func c03rid(c *c03cand) uint32 {
	if c.local {
		return 0
	}
	b := c.src.ID.As4()
	return uint32(b[0])<<24 | uint32(b[1])<<16 | uint32(b[2])<<8 | uint32(b[3])
}

// c03ref is the documented decision process written as a plain lexicographic comparison.
// It returns -1 if a is preferred, +1 if b is preferred, 0 if the documented steps do not decide.
func c03ref(a, b *c03cand) int { return c03refSteps(a, b, true) }

// c03refSteps with full=false stops after the eBGP-over-iBGP step: 0 then means "equal cost".
func c03refSteps(a, b *c03cand, full bool) int {
	pick := func(aBetter, bBetter bool) int {
		if aBetter {
			return -1
		}
		if bBetter {
			return 1
		}
		return 0
	}
	if r := pick(!a.stale && b.stale, a.stale && !b.stale); r != 0 { // not LLGR-stale
		return r
	}
	if r := pick(!a.nhinv && b.nhinv, a.nhinv && !b.nhinv); r != 0 { // reachable next hop
		return r
	}
	if r := pick(a.lp > b.lp, a.lp < b.lp); r != 0 { // highest LOCAL_PREF
		return r
	}
	if r := pick(a.local && !b.local, b.local && !a.local); r != 0 { // locally originated
		return r
	}
	if !SelectionOptions.IgnoreAsPathLength {
		if r := pick(a.aslen() < b.aslen(), a.aslen() > b.aslen()); r != 0 { // shortest AS_PATH
			return r
		}
	}
	if r := pick(a.origin < b.origin, a.origin > b.origin); r != 0 { // lowest ORIGIN
		return r
	}
	if c03medComparable(a, b) {
		if r := pick(a.med < b.med, a.med > b.med); r != 0 { // lowest MED among comparable
			return r
		}
	}
	if r := pick(!a.internal() && b.internal(), a.internal() && !b.internal()); r != 0 { // eBGP over iBGP
		return r
	}
	if !full {
		return 0
	}
	// from here on both are external or both internal (the previous step decided otherwise)
	if !SelectionOptions.ExternalCompareRouterId && !a.internal() && !b.internal() {
		if r := pick(a.ts < b.ts, a.ts > b.ts); r != 0 { // oldest (eBGP)
			return r
		}
	} else if !(a.local && b.local) {
		if r := pick(c03rid(a) < c03rid(b), c03rid(a) > c03rid(b)); r != 0 { // lowest router-id
			return r
		}
	}
	if a.local {
		return -1
	}
	if b.local {
		return 1
	}
	return pick(a.src.Address.Less(b.src.Address), b.src.Address.Less(a.src.Address)) // lowest neighbour address
}

func c03distinct(a, b *c03cand) bool {
	if a.local || b.local {
		return a.local != b.local
	}
	return a.src.Address != b.src.Address
}

// law 1: the real predicate equals the documented process on every pair it decides
func VH_c03_spec_pair() {
	c03opts()
	a, b := c03mk("a", true, true), c03mk("b", true, false)
	vAssume(c03distinct(a, b))
	r := c03ref(a, b)
	got := c03less(a.p, b.p)
	if r < 0 {
		vAssert(got, "documented process prefers the new route but it was inserted behind")
	} else if r > 0 {
		vAssert(!got, "documented process prefers the existing route but the new one was inserted in front")
	}
	vReach("end")
}

// law 2a: totality / asymmetry on distinct sources
func VH_c03_total_pair() {
	c03opts()
	a, b := c03mk("a", true, true), c03mk("b", true, false)
	vAssume(c03distinct(a, b))
	ab, ba := c03less(a.p, b.p), c03less(b.p, a.p)
	vAssert(ab != ba, "insertion predicate is not a strict total order on two routes from distinct sources")
	vReach("end")
}

// law 2b: transitivity over triples when MED is comparable across all candidates
func c03trans(confed bool) {
	c03opts()
	a, b, c := c03mk("a", confed, false), c03mk("b", confed, false), c03mk("c", confed, false)
	vAssume(c03distinct(a, b) && c03distinct(b, c) && c03distinct(a, c))
	vAssume(c03medComparable(a, b) && c03medComparable(b, c) && c03medComparable(a, c))
	if c03less(a.p, b.p) && c03less(b.p, c.p) {
		vAssert(c03less(a.p, c.p), "insertion predicate is not transitive")
	}
	vReach("end")
}

func VH_c03_trans() { c03trans(true) }

// law 4: arrival-order independence through the real insertion, three routes, all six orders
func c03order(confed bool) {
	c03opts()
	a, b, c := c03mk("a", confed, false), c03mk("b", confed, false), c03mk("c", confed, false)
	vAssume(c03distinct(a, b) && c03distinct(b, c) && c03distinct(a, c))
	vAssume(c03medComparable(a, b) && c03medComparable(b, c) && c03medComparable(a, c))
	ins := func(x, y, z *Path) *Path {
		d := &destination{}
		d.insertSort(x)
		d.insertSort(y)
		d.insertSort(z)
		return d.knownPathList[0]
	}
	best := ins(a.p, b.p, c.p)
	vAssert(ins(c.p, b.p, a.p) == best, "best path depends on the arrival order")
	vAssert(ins(b.p, c.p, a.p) == best, "best path depends on the arrival order")
	if vParam("orders") >= 6 {
		vAssert(ins(a.p, c.p, b.p) == best, "best path depends on the arrival order")
		vAssert(ins(b.p, a.p, c.p) == best, "best path depends on the arrival order")
		vAssert(ins(c.p, a.p, b.p) == best, "best path depends on the arrival order")
	}
	vReach("end")
}

// law 3: inserting into any sorted list keeps it sorted (with laws 2a/2b this makes the final order,
// hence the best path, independent of the arrival order for any number of routes)
func VH_c03_insert_sorted() {
	c03opts()
	a, b, c := c03mk("a", true, false), c03mk("b", true, false), c03mk("c", true, false)
	vAssume(c03distinct(a, b) && c03distinct(b, c) && c03distinct(a, c))
	vAssume(c03medComparable(a, b) && c03medComparable(b, c) && c03medComparable(a, c))
	vAssume(c03less(a.p, b.p)) // [a, b] is sorted
	d := &destination{knownPathList: []*Path{a.p, b.p}}
	d.insertSort(c.p)
	l := d.knownPathList
	vAssert(len(l) == 3, "insertion lost or duplicated a route")
	vAssert(c03less(l[0], l[1]) && c03less(l[1], l[2]), "insertion into a sorted list left it unsorted")
	vReach("end")
}

func VH_c03_order() { c03order(true) }

// law 5: the equal-cost multipath set of a sorted list. "Equal cost" = the documented steps up to
// and including eBGP-over-iBGP do not separate the route from the best one (c03refSteps(...,false)==0).
//
//	M1 every member is usable and the first member is the best route;
//	M2 every member is equal-cost with the best;
//	M3 (only where Path.Compare and the documented steps coincide: MED comparable, AS_PATH length
//	   not ignored, no confederation sources) every usable equal-cost route is a member.
func c03multipath(medPremise bool) {
	c03opts()
	a, b, c := c03mk("a", !medPremise, false), c03mk("b", !medPremise, false), c03mk("c", !medPremise, false)
	vAssume(c03distinct(a, b) && c03distinct(b, c) && c03distinct(a, c))
	if medPremise {
		vAssume(c03medComparable(a, b) && c03medComparable(b, c) && c03medComparable(a, c))
	}
	vAssume(c03less(a.p, b.p) && c03less(b.p, c.p) && c03less(a.p, c.p)) // [a, b, c] is what insertion produces
	cs := []*c03cand{a, b, c}
	l := []*Path{a.p, b.p, c.p}
	m := getMultiBestPath(GLOBAL_RIB_NAME, l)
	if a.nhinv {
		vAssert(len(m) == 0, "multipath set not empty although the best route is unusable")
	} else {
		vAssert(len(m) >= 1 && m[0] == a.p, "multipath set does not start with the best route")
		for i := range l {
			in := i < len(m)
			equalCost := !cs[i].nhinv && c03refSteps(a, cs[i], false) == 0
			if in {
				vAssert(!cs[i].nhinv, "multipath set contains a route with an unreachable next hop")
				vAssert(equalCost, "multipath set contains a route that is not equal-cost with the best")
			} else if medPremise && !SelectionOptions.IgnoreAsPathLength {
				vAssert(!equalCost, "a usable equal-cost route is missing from the multipath set")
			}
		}
	}
	vReach("end")
}

func VH_c03_multipath()       { c03multipath(true) }
func VH_c03_multipath_nomed() { c03multipath(false) }

var _ = netip.Addr{}
