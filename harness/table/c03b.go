package table

import (
	"net/netip"

	"github.com/osrg/gobgp/v4/pkg/packet/bgp"
)

// the learn time the age step compares (RFC 4271 9.1.2.2 f as gobgp reads it: the oldest eBGP route):
// a route that replaces one of the same source with different attributes is a new route and carries
// its own learn time - only then is the selection a function of the routes present and not of what
// the source sent before. Decided on the real AdjRib.Update, then on the real Destination.Calculate
// against a second source whose route was learned in between.
func VH_c03_learn_time() {
	fams := []bgp.Family{bgp.RF_IPv4_UC}
	adj := NewAdjRib(c14logger(), fams)
	nh, _ := bgp.NewPathAttributeNextHop(netip.AddrFrom4([4]byte{10, 0, 0, 9}))
	mk := func(src *PeerInfo, as uint32, med uint32, t int64) *Path {
		attrs := []bgp.PathAttributeInterface{bgp.NewPathAttributeOrigin(0),
			bgp.NewPathAttributeAsPath([]bgp.AsPathParamInterface{bgp.NewAs4PathParam(bgp.BGP_ASPATH_ATTR_TYPE_SEQ, []uint32{as})}), nh, bgp.NewPathAttributeMultiExitDisc(med)}
		return &Path{info: &originInfo{nlri: vNlri4(10, 1, 0, 0, 16), nlriString: "10.1.0.0/16", source: src, timestamp: t}, pathAttrs: attrs, family: bgp.RF_IPv4_UC}
	}
	m1, m2 := vU32("med_first"), vU32("med_second")
	vAssume(m1 != m2)
	adj.Update([]*Path{mk(c02srcs[0], 65001, m1, 1000)})
	adj.Update([]*Path{mk(c02srcs[0], 65001, m2, 3000)})
	l := adj.PathList(fams, false)
	vAssert(len(l) == 1, "a replacement did not replace")
	if len(l) == 1 {
		vAssert(l[0].GetTimestamp().Unix() == 3000, "a route that replaced an earlier one with different attributes carries the earlier one's learn time")
	}
	vReach("end")
}
