package table

import (
	"net/netip"

	"github.com/osrg/gobgp/v4/pkg/config/oc"
	"github.com/osrg/gobgp/v4/pkg/packet/bgp"
)

// C09: per-peer-type export rewriting; producing a peer's copy never alters the stored route.

type c09route struct {
	p        *Path
	local    bool
	segs     []bgp.AsPathParamInterface // original AS_PATH segments (copies)
	hasAsp   bool
	nexthop  netip.Addr
	hasMed   bool
	hasLP    bool
	lp       uint32
	hasOrig  bool
	origID   netip.Addr
	hasCL    bool
	cl0      netip.Addr
	unkTrans bool
	src      *PeerInfo
	attrs    []bgp.PathAttributeInterface
}

var c09fixedPresence bool // harnesses about the AS_PATH only: no forks on attribute presence

func c09bool(name string) bool {
	if c09fixedPresence {
		return false
	}
	return vBool(name)
}

func c09mk() *c09route {
	r := &c09route{}
	// source: local, or learned from a peer with symbolic AS (eBGP or iBGP)
	if vBool("local") {
		r.src, r.local = localSource, true
	} else {
		r.src = &PeerInfo{AS: vU32("s_as"), LocalAS: 65000, ID: netip.AddrFrom4([4]byte{9, 9, 9, vU8("s_id")}), Address: netip.AddrFrom4([4]byte{10, 0, 9, 9})}
	}
	r.nexthop = netip.AddrFrom4([4]byte{vU8("nh"), vU8("nh"), vU8("nh"), vU8("nh")})
	nh, _ := bgp.NewPathAttributeNextHop(r.nexthop)
	attrs := []bgp.PathAttributeInterface{bgp.NewPathAttributeOrigin(0), nh}
	// AS_PATH shape: none / SEQ(a[,b]) / CONFED_SEQ(c) SEQ(a) / SET(a,b) SEQ(c)
	a, b, c := vU32("as_a"), vU32("as_b"), vU32("as_c")
	switch vChoice("shape", 5) {
	case 0:
	case 1:
		r.segs = []bgp.AsPathParamInterface{bgp.NewAs4PathParam(bgp.BGP_ASPATH_ATTR_TYPE_SEQ, []uint32{a})}
	case 2:
		r.segs = []bgp.AsPathParamInterface{bgp.NewAs4PathParam(bgp.BGP_ASPATH_ATTR_TYPE_SEQ, []uint32{a, b})}
	case 3:
		r.segs = []bgp.AsPathParamInterface{bgp.NewAs4PathParam(bgp.BGP_ASPATH_ATTR_TYPE_CONFED_SEQ, []uint32{c}), bgp.NewAs4PathParam(bgp.BGP_ASPATH_ATTR_TYPE_SEQ, []uint32{a})}
	default:
		r.segs = []bgp.AsPathParamInterface{bgp.NewAs4PathParam(bgp.BGP_ASPATH_ATTR_TYPE_SET, []uint32{a, b}), bgp.NewAs4PathParam(bgp.BGP_ASPATH_ATTR_TYPE_SEQ, []uint32{c})}
	}
	if r.segs != nil {
		r.hasAsp = true
		cp := make([]bgp.AsPathParamInterface, len(r.segs))
		for i, s := range r.segs {
			cp[i] = bgp.NewAs4PathParam(s.GetType(), append([]uint32(nil), s.GetAS()...))
		}
		attrs = append(attrs, bgp.NewPathAttributeAsPath(cp))
	}
	if r.hasMed = c09bool("has_med"); r.hasMed {
		attrs = append(attrs, bgp.NewPathAttributeMultiExitDisc(vU32("med")))
	}
	if r.hasLP = c09bool("has_lp"); r.hasLP {
		r.lp = vU32("lp")
		attrs = append(attrs, bgp.NewPathAttributeLocalPref(r.lp))
	}
	if r.hasOrig = c09bool("has_orig"); r.hasOrig {
		r.origID = netip.AddrFrom4([4]byte{7, 7, 7, vU8("orig")})
		o, _ := bgp.NewPathAttributeOriginatorId(r.origID)
		attrs = append(attrs, o)
	}
	if r.hasCL = c09bool("has_cl"); r.hasCL {
		r.cl0 = netip.AddrFrom4([4]byte{8, 8, 8, vU8("cl")})
		cl, _ := bgp.NewPathAttributeClusterList([]netip.Addr{r.cl0})
		attrs = append(attrs, cl)
	}
	r.unkTrans = c09bool("unk_trans")
	uf := bgp.BGP_ATTR_FLAG_OPTIONAL
	if r.unkTrans {
		uf |= bgp.BGP_ATTR_FLAG_TRANSITIVE
	}
	attrs = append(attrs, bgp.NewPathAttributeUnknown(uf, 250, []byte{1, 2, 3}))
	r.attrs = attrs
	r.p = &Path{info: &originInfo{nlri: vNlri4(10, 1, 0, 0, 16), nlriString: "10.1.0.0/16", source: r.src}, pathAttrs: attrs, family: bgp.RF_IPv4_UC}
	return r
}

// the stored route must look exactly as before: same attribute objects, same AS_PATH members
func (r *c09route) unchanged() bool {
	got := r.p.GetPathAttrs()
	if len(got) != len(r.attrs) || len(r.p.dels) != 0 || r.p.parent != nil {
		return false
	}
	for i := range got {
		if got[i] != r.attrs[i] {
			return false
		}
	}
	if r.hasAsp {
		cur := r.p.GetAsPath().Value
		if len(cur) != len(r.segs) {
			return false
		}
		for i := range cur {
			if cur[i].GetType() != r.segs[i].GetType() || len(cur[i].GetAS()) != len(r.segs[i].GetAS()) {
				return false
			}
			for j := range cur[i].GetAS() {
				if cur[i].GetAS()[j] != r.segs[i].GetAS()[j] {
					return false
				}
			}
		}
	}
	return r.p.GetNexthop() == r.nexthop
}

func c09flat(ps []bgp.AsPathParamInterface) []uint64 {
	var out []uint64
	for _, p := range ps {
		out = append(out, uint64(0xff)<<40|uint64(p.GetType())) // segment start marker
		for _, a := range p.GetAS() {
			out = append(out, uint64(a))
		}
	}
	return out
}

func c09sameU64(a, b []uint64) bool {
	if len(a) != len(b) {
		return false
	}
	for i := range a {
		if a[i] != b[i] {
			return false
		}
	}
	return true
}

func c09has(p *Path, t bgp.BGPAttrType) bool {
	for _, a := range p.GetPathAttrs() {
		if a.GetType() == t {
			return true
		}
	}
	return false
}

func VH_c09_export() {
	r := c09mk()
	localAS := uint32(65000)
	localAddr := netip.AddrFrom4([4]byte{192, 0, 2, 1})
	routerID := netip.AddrFrom4([4]byte{1, 1, 1, 1})
	clusterID := netip.AddrFrom4([4]byte{5, 5, 5, 5})
	g := &oc.Global{Config: oc.GlobalConfig{As: localAS, RouterId: routerID}}
	info := &PeerInfo{AS: vU32("t_as"), LocalAS: localAS, LocalID: routerID, LocalAddress: localAddr, Address: netip.AddrFrom4([4]byte{192, 0, 2, 9}), RouteReflectorClusterID: clusterID}
	kind := vChoice("target", 5) // 0 eBGP, 1 eBGP confederation member, 2 iBGP, 3 iBGP RR client, 4 route-server client
	switch kind {
	case 0:
		info.PeerType = oc.PEER_TYPE_EXTERNAL
		vAssume(info.AS != localAS)
	case 1:
		info.PeerType = oc.PEER_TYPE_EXTERNAL
		vAssume(info.AS != localAS)
		g.Confederation.Config.Enabled = true
		g.Confederation.Config.MemberAsList = []uint32{info.AS}
	case 2:
		info.PeerType, info.AS = oc.PEER_TYPE_INTERNAL, localAS
	case 3:
		info.PeerType, info.AS, info.RouteReflectorClient = oc.PEER_TYPE_INTERNAL, localAS, true
	default:
		info.PeerType, info.RouteServerClient = oc.PEER_TYPE_EXTERNAL, true
	}
	out := UpdatePathAttrs(c14logger(), g, info, r.p)
	vAssert(r.unchanged(), "producing a peer's copy altered the stored route")
	if kind == 4 {
		vAssert(out == r.p, "route-server client does not get the route unchanged")
		vReach("end")
		return
	}
	vAssert(out != r.p, "peer copy is the stored route itself")
	asp := out.GetAsPath()
	vAssert(asp != nil, "AS_PATH missing in the peer's copy")
	got := c09flat(asp.Value)
	switch kind {
	case 0: // local AS exactly once at the head as AS_SEQUENCE, confederation segments removed
		var rest []bgp.AsPathParamInterface
		for _, s := range r.segs {
			if s.GetType() == bgp.BGP_ASPATH_ATTR_TYPE_SEQ || s.GetType() == bgp.BGP_ASPATH_ATTR_TYPE_SET {
				rest = append(rest, s)
			}
		}
		var want []bgp.AsPathParamInterface
		if len(rest) > 0 && rest[0].GetType() == bgp.BGP_ASPATH_ATTR_TYPE_SEQ && len(r.segs) > 0 && r.segs[0].GetType() == bgp.BGP_ASPATH_ATTR_TYPE_SEQ {
			want = append(want, bgp.NewAs4PathParam(bgp.BGP_ASPATH_ATTR_TYPE_SEQ, append([]uint32{localAS}, rest[0].GetAS()...)))
			want = append(want, rest[1:]...)
		} else {
			want = append([]bgp.AsPathParamInterface{bgp.NewAs4PathParam(bgp.BGP_ASPATH_ATTR_TYPE_SEQ, []uint32{localAS})}, rest...)
		}
		// the two admissible framings of "prepended once" (merged into the leading sequence or a
		// new leading sequence) denote the same path: compare the AS numbers and segment types
		flatNums := func(ps []bgp.AsPathParamInterface) []uint64 {
			var o []uint64
			for _, p := range ps {
				for _, a := range p.GetAS() {
					o = append(o, uint64(p.GetType())<<32|uint64(a))
				}
			}
			return o
		}
		vAssert(c09sameU64(flatNums(asp.Value), flatNums(want)), "eBGP copy: AS_PATH is not the local AS prepended once to the original non-confederation path")
		_ = got
		if r.local && !r.nexthop.IsUnspecified() {
			vAssert(out.GetNexthop() == r.nexthop, "eBGP copy: specified next hop of a local route was replaced")
		} else {
			vAssert(out.GetNexthop() == localAddr, "eBGP copy: next hop is not the session's local address")
		}
		vAssert(c09has(out, bgp.BGP_ATTR_TYPE_MULTI_EXIT_DISC) == (r.hasMed && r.local), "eBGP copy: foreign MED kept or own MED dropped")
		vAssert(!c09has(out, bgp.BGP_ATTR_TYPE_ORIGINATOR_ID) && !c09has(out, bgp.BGP_ATTR_TYPE_CLUSTER_LIST), "eBGP copy carries ORIGINATOR_ID / CLUSTER_LIST")
	case 1: // confederation member: prepended as AS_CONFED_SEQUENCE, confederation segments kept
		var want []bgp.AsPathParamInterface
		if len(r.segs) > 0 && r.segs[0].GetType() == bgp.BGP_ASPATH_ATTR_TYPE_CONFED_SEQ {
			want = append(want, bgp.NewAs4PathParam(bgp.BGP_ASPATH_ATTR_TYPE_CONFED_SEQ, append([]uint32{localAS}, r.segs[0].GetAS()...)))
			want = append(want, r.segs[1:]...)
		} else {
			want = append([]bgp.AsPathParamInterface{bgp.NewAs4PathParam(bgp.BGP_ASPATH_ATTR_TYPE_CONFED_SEQ, []uint32{localAS})}, r.segs...)
		}
		vAssert(c09sameU64(got, c09flat(want)), "confederation copy: AS_PATH is not the local AS prepended once as AS_CONFED_SEQUENCE")
	default: // iBGP: AS_PATH and next hop unchanged, LOCAL_PREF present
		vAssert(c09sameU64(got, c09flat(r.segs)), "iBGP copy: AS_PATH changed")
		if r.local && r.nexthop.IsUnspecified() {
			vAssert(out.GetNexthop() == localAddr, "iBGP copy of a local route without next hop does not use the local address")
		} else {
			vAssert(out.GetNexthop() == r.nexthop, "iBGP copy: next hop changed")
		}
		lp, _ := out.GetLocalPref()
		vAssert(c09has(out, bgp.BGP_ATTR_TYPE_LOCAL_PREF), "iBGP copy without LOCAL_PREF")
		if r.hasLP {
			vAssert(lp == r.lp, "iBGP copy: LOCAL_PREF changed")
		} else {
			vAssert(lp == 100, "iBGP copy: default LOCAL_PREF is not 100")
		}
		vAssert(c09has(out, bgp.BGP_ATTR_TYPE_MULTI_EXIT_DISC) == r.hasMed, "iBGP copy: MED added or removed")
		if kind == 3 { // RR client: ORIGINATOR_ID kept or set, cluster-id prepended
			vAssert(c09has(out, bgp.BGP_ATTR_TYPE_ORIGINATOR_ID), "RR client copy without ORIGINATOR_ID")
			switch {
			case r.hasOrig:
				vAssert(out.GetOriginatorID() == r.origID, "RR client copy: existing ORIGINATOR_ID replaced")
			case r.local:
				vAssert(out.GetOriginatorID() == routerID, "RR client copy of a local route: ORIGINATOR_ID is not the local router-id")
			default:
				vAssert(out.GetOriginatorID() == r.src.ID, "RR client copy: ORIGINATOR_ID is not the source's router-id")
			}
			cl := out.GetClusterList()
			if r.hasCL {
				vAssert(len(cl) == 2 && cl[0] == clusterID && cl[1] == r.cl0, "RR client copy: cluster-id not prepended to CLUSTER_LIST")
			} else {
				vAssert(len(cl) == 1 && cl[0] == clusterID, "RR client copy: CLUSTER_LIST is not the local cluster-id")
			}
		} else {
			vAssert(!c09has(out, bgp.BGP_ATTR_TYPE_ORIGINATOR_ID) && !c09has(out, bgp.BGP_ATTR_TYPE_CLUSTER_LIST), "non-client iBGP copy carries ORIGINATOR_ID / CLUSTER_LIST")
		}
	}
	// unknown attribute: kept iff transitive, for every target kind
	vAssert(c09has(out, 250) == r.unkTrans, "unknown non-transitive attribute kept or transitive one dropped")
	vReach("end")
}

// remove-private-as (all / replace) and replace-peer-as on a stored route: the result is right and
// the stored route is untouched
func VH_c09_private_replace() {
	c09fixedPresence = true
	r := c09mk()
	vAssume(r.hasAsp)
	localAS := uint32(65000)
	isPriv := func(a uint32) bool { return 64512 <= a && a <= 65534 || 4200000000 <= a && a <= 4294967294 }
	switch vChoice("op", 3) {
	case 0, 1:
		opt := []oc.RemovePrivateAsOption{oc.REMOVE_PRIVATE_AS_OPTION_ALL, oc.REMOVE_PRIVATE_AS_OPTION_REPLACE}[vChoice("opt", 2)]
		out := r.p.Clone(false)
		out.RemovePrivateAS(localAS, opt)
		var want []uint64
		for _, s := range r.segs {
			for _, a := range s.GetAS() {
				switch {
				case !isPriv(a):
					want = append(want, uint64(s.GetType())<<32|uint64(a))
				case opt == oc.REMOVE_PRIVATE_AS_OPTION_REPLACE:
					want = append(want, uint64(s.GetType())<<32|uint64(localAS))
				}
			}
		}
		var got []uint64
		for _, s := range out.GetAsPath().Value {
			vAssert(len(s.GetAS()) > 0, "remove-private-as left an empty segment")
			for _, a := range s.GetAS() {
				got = append(got, uint64(s.GetType())<<32|uint64(a))
			}
		}
		vAssert(c09sameU64(got, want), "remove-private-as result differs from removing/replacing exactly the private ASNs")
	default:
		peerAS := vU32("peer_as")
		out := r.p.ReplaceAS(localAS, peerAS)
		var got, want []uint64
		for _, s := range out.GetAsPath().Value {
			for _, a := range s.GetAS() {
				got = append(got, uint64(s.GetType())<<32|uint64(a))
			}
		}
		for _, s := range r.segs {
			for _, a := range s.GetAS() {
				if a == peerAS {
					a = localAS
				}
				want = append(want, uint64(s.GetType())<<32|uint64(a))
			}
		}
		vAssert(c09sameU64(got, want), "replace-peer-as result differs from replacing exactly the peer's AS")
	}
	vAssert(r.unchanged(), "producing a peer's copy altered the stored route")
	vReach("end")
}

// the eBGP copy under remove-private-as: the option acts on the path as learned, the local AS is
// then prepended exactly once - also when the local AS is itself a private number
func VH_c09_export_private() {
	localAS := []uint32{64512, 100, 4200000001}[vChoice("local_as", 3)]
	isPriv := func(a uint32) bool { return 64512 <= a && a <= 65534 || 4200000000 <= a && a <= 4294967294 }
	a, b := vU32("as_a"), vU32("as_b")
	vAssume(a != 0 && b != 0)
	opt := []oc.RemovePrivateAsOption{oc.REMOVE_PRIVATE_AS_OPTION_ALL, oc.REMOVE_PRIVATE_AS_OPTION_REPLACE}[vChoice("opt", 2)]
	routerID := netip.AddrFrom4([4]byte{1, 1, 1, 1})
	g := &oc.Global{Config: oc.GlobalConfig{As: localAS, RouterId: routerID}}
	info := &PeerInfo{AS: 300, LocalAS: localAS, LocalID: routerID, LocalAddress: netip.AddrFrom4([4]byte{192, 0, 2, 1}), Address: netip.AddrFrom4([4]byte{192, 0, 2, 9}),
		PeerType: oc.PEER_TYPE_EXTERNAL, RemovePrivateAs: opt}
	nh, _ := bgp.NewPathAttributeNextHop(netip.AddrFrom4([4]byte{10, 0, 9, 9}))
	attrs := []bgp.PathAttributeInterface{bgp.NewPathAttributeOrigin(0),
		bgp.NewPathAttributeAsPath([]bgp.AsPathParamInterface{bgp.NewAs4PathParam(bgp.BGP_ASPATH_ATTR_TYPE_SEQ, []uint32{a, b})}), nh}
	src := &PeerInfo{AS: a, LocalAS: localAS, ID: netip.AddrFrom4([4]byte{9, 9, 9, 9}), Address: netip.AddrFrom4([4]byte{10, 0, 9, 9})}
	p := &Path{info: &originInfo{nlri: vNlri4(10, 1, 0, 0, 16), nlriString: "10.1.0.0/16", source: src}, pathAttrs: attrs, family: bgp.RF_IPv4_UC}
	out := UpdatePathAttrs(c14logger(), g, info, p)
	want := []uint32{localAS}
	for _, x := range []uint32{a, b} {
		switch {
		case !isPriv(x):
			want = append(want, x)
		case opt == oc.REMOVE_PRIVATE_AS_OPTION_REPLACE:
			want = append(want, localAS)
		}
	}
	got := out.GetAsList()
	vAssert(len(got) == len(want), "eBGP copy under remove-private-as: the AS_PATH is not the local AS once followed by the learned path without (or with replaced) private numbers")
	for i := range want {
		vAssert(got[i] == want[i], "eBGP copy under remove-private-as: the AS_PATH is not the local AS once followed by the learned path without (or with replaced) private numbers")
	}
	if isPriv(localAS) {
		vReach("private_local_as")
	}
	vReach("end")
}
