package table

import (
	"net/netip"

	"github.com/osrg/gobgp/v4/pkg/packet/bgp"
)

// C02: RIBs hold exactly the latest un-withdrawn route per source and path-id.
// Step lemmas on the real code: a short arbitrary history builds the pre-state through the real
// operations, one more arbitrary operation runs, and the content is compared with a set model.

var c02srcs = []*PeerInfo{
	{AS: 65001, LocalAS: 65000, ID: netip.AddrFrom4([4]byte{1, 1, 1, 1}), Address: netip.AddrFrom4([4]byte{10, 0, 0, 1})},
	{AS: 65002, LocalAS: 65000, ID: netip.AddrFrom4([4]byte{2, 2, 2, 2}), Address: netip.AddrFrom4([4]byte{10, 0, 0, 2})},
	{AS: 65000, LocalAS: 65000, ID: netip.AddrFrom4([4]byte{3, 3, 3, 3}), Address: netip.AddrFrom4([4]byte{10, 0, 0, 3})},
}

func c02path(nlri *bgp.IPAddrPrefix, key string, src *PeerInfo, rid uint32, withdraw bool) *Path {
	return c02pathLP(nlri, key, src, rid, withdraw, vU32("lp"))
}

// c02pathLP: attribute values that enter Path.Equal's hash are kept concrete by the callers that
// reach it (the hash is a chain of 64-bit multiplications no solver decides symbolically)
func c02pathLP(nlri *bgp.IPAddrPrefix, key string, src *PeerInfo, rid uint32, withdraw bool, lp uint32) *Path {
	attrs := []bgp.PathAttributeInterface{
		bgp.NewPathAttributeOrigin(0),
		bgp.NewPathAttributeAsPath([]bgp.AsPathParamInterface{bgp.NewAs4PathParam(bgp.BGP_ASPATH_ATTR_TYPE_SEQ, []uint32{src.AS})}),
		bgp.NewPathAttributeLocalPref(lp),
	}
	return &Path{info: &originInfo{nlri: nlri, nlriString: key, source: src, timestamp: int64(vU16("ts"))}, pathAttrs: attrs, family: bgp.RF_IPv4_UC, remoteID: rid, IsWithdraw: withdraw}
}

type c02key struct {
	src int
	rid uint32
}

// Loc-RIB step: destination.Calculate
func VH_c02_locrib_step() {
	SelectionOptions.AlwaysCompareMed, SelectionOptions.IgnoreAsPathLength, SelectionOptions.ExternalCompareRouterId = false, false, false
	nlri := vNlri4(10, 1, 0, 0, 16)
	d := newDestination(nlri, 64)
	model := map[c02key]*Path{}
	steps := vParam("steps")
	for i := 0; i < steps; i++ {
		si := vChoice("src", 3)
		rid := uint32(vChoice("rid", 2))
		wd := vBool("withdraw")
		p := c02path(nlri, "10.1.0.0/16", c02srcs[si], rid, wd)
		if wd && vBool("dropped") {
			p.SetDropped(true)
		}
		before := append([]*Path(nil), d.knownPathList...)
		up, old := d.Calculate(c14logger(), p)
		k := c02key{si, rid}
		prev := model[k]
		vAssert(old == prev, "Calculate returned a different old path than the one stored for this source and path-id")
		if wd {
			delete(model, k)
		} else {
			model[k] = p
		}
		// content: exactly the model, no duplicates
		vAssert(len(d.knownPathList) == len(model), "Loc-RIB holds a different number of routes than the latest un-withdrawn ones")
		for _, q := range d.knownPathList {
			found := false
			for _, m := range model {
				if m == q {
					found = true
				}
			}
			vAssert(found, "Loc-RIB holds a route that is not the latest un-withdrawn one of its source and path-id")
			vAssert(q.localID != 0, "stored route without a local identifier")
		}
		for a := range d.knownPathList {
			for b := a + 1; b < len(d.knownPathList); b++ {
				vAssert(d.knownPathList[a].localID != d.knownPathList[b].localID, "two stored routes share a local identifier")
			}
		}
		// best first: adjacent routes are ordered by the selection process
		for a := 0; a+1 < len(d.knownPathList); a++ {
			vAssert(c03less(d.knownPathList[a], d.knownPathList[a+1]), "Loc-RIB path list is not sorted best first")
		}
		// the update record shows the list before and after this step
		vAssert(len(up.OldKnownPathList) == len(before) && len(up.KnownPathList) == len(d.knownPathList), "update record does not show the lists before/after the step")
		for a := range before {
			vAssert(up.OldKnownPathList[a] == before[a], "update record's old list differs from the list before the step")
		}
	}
	vReach("end")
}

// Adj-RIB-In step: AdjRib.Update, counters and listings, and independence of listings handed out earlier
func VH_c02_adj_step() {
	adj := NewAdjRib(c14logger(), []bgp.Family{bgp.RF_IPv4_UC})
	fams := []bgp.Family{bgp.RF_IPv4_UC}
	nl := []*bgp.IPAddrPrefix{vNlri4(10, 1, 0, 0, 16), vNlri4(10, 2, 0, 0, 16)}
	names := []string{"10.1.0.0/16", "10.2.0.0/16"}
	type key struct {
		p   int
		rid uint32
	}
	model := map[key]*Path{}
	steps := vParam("steps")
	var listed, snapshot []*Path
	var heldDst *destination
	var heldList []*Path
	for i := 0; i < steps; i++ {
		pi := vChoice("prefix", 2)
		rid := uint32(vChoice("rid", 2))
		wd := vBool("withdraw")
		p := c02pathLP(nl[pi], names[pi], c02srcs[0], rid, wd, 100)
		p.SetRejected(vBool("rejected"))
		if i == steps-1 {
			// results handed to readers before the last step (the table walks cover 2048 shards, so the
			// full listing is taken once)
			listed = adj.PathList(fams, false)
			snapshot = append([]*Path(nil), listed...)
			heldDst = adj.table[bgp.RF_IPv4_UC].GetDestination(nl[pi])
			if heldDst != nil {
				heldList = append([]*Path(nil), heldDst.knownPathList...)
			}
		}
		adj.Update([]*Path{p})
		k := key{pi, rid}
		if wd {
			delete(model, k)
		} else {
			model[k] = p
		}
		accepted := 0
		for _, m := range model {
			if !m.IsRejected() {
				accepted++
			}
		}
		vAssert(adj.Accepted(fams) == accepted, "accepted counter differs from the number of stored routes that are not rejected")
		// exact lookup agrees with the content
		for qi := range nl {
			dst := adj.table[bgp.RF_IPv4_UC].GetDestination(nl[qi])
			n := 0
			for k2 := range model {
				if k2.p == qi {
					n++
				}
			}
			if n == 0 {
				vAssert(dst == nil, "a destination without routes is still present")
			} else {
				vAssert(dst != nil && len(dst.knownPathList) == n, "exact lookup differs from the stored routes")
				for _, q := range dst.knownPathList {
					vAssert(model[key{qi, q.remoteID}] == q, "Adj-RIB-In holds a route that is not the latest un-withdrawn one for its path-id")
				}
			}
		}
	}
	accepted := 0
	for _, m := range model {
		if !m.IsRejected() {
			accepted++
		}
	}
	vAssert(adj.Count(fams) == len(model), "Adj-RIB-In holds a different number of routes than the latest un-withdrawn ones")
	all := adj.PathList(fams, false)
	vAssert(len(all) == len(model), "listing differs from the stored routes")
	vAssert(len(adj.PathList(fams, true)) == accepted, "accepted listing differs from the accepted counter")
	for a := range snapshot {
		vAssert(listed[a] == snapshot[a], "a listing handed out earlier was changed by a later update")
	}
	for a := range heldList {
		vAssert(heldDst.knownPathList[a] == heldList[a], "an exact-lookup result handed out earlier was changed by a later update")
	}
	vReach("end")
}

// snapshots handed to readers do not change when the live destination is edited afterwards
func VH_c02_snapshot_independent() {
	tbl := NewTable(c14logger(), bgp.RF_IPv4_UC)
	nlri := vNlri4(10, 1, 0, 0, 16)
	shard := tbl.destinations.getShard(nlri)
	d := tbl.getOrCreateDest(shard, nlri, 64)
	for i := 0; i < 3; i++ {
		d.Calculate(c14logger(), c02path(nlri, "10.1.0.0/16", c02srcs[i], 0, false))
	}
	snap := tbl.GetDestination(nlri)
	held := append([]*Path(nil), snap.knownPathList...)
	all := tbl.GetDestinations()
	vAssert(len(all) == 1 && len(all[0].knownPathList) == 3, "table dump differs from the stored routes")
	heldAll := append([]*Path(nil), all[0].knownPathList...)
	// a later withdraw of one source (any of the three)
	w := c02path(nlri, "10.1.0.0/16", c02srcs[vChoice("wsrc", 3)], 0, true)
	d.Calculate(c14logger(), w)
	vAssert(len(d.knownPathList) == 2, "withdraw did not remove exactly one route")
	for i := range held {
		vAssert(snap.knownPathList[i] == held[i], "an exact-lookup result changed after a later withdraw")
		vAssert(all[0].knownPathList[i] == heldAll[i], "a table-dump result changed after a later withdraw")
	}
	vReach("end")
}
