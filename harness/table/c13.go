package table

import (
	"strconv"

	"github.com/osrg/gobgp/v4/pkg/config/oc"
	"github.com/osrg/gobgp/v4/pkg/packet/bgp"
)

// C13: compiled community matchers decide exactly what their regular expressions decide.
// The pattern list is a concrete program (compiled by the real NewCommunitySet inside the engine,
// Go's regexp running natively on concrete texts); the community values are symbolic 32-bit
// numbers and the reference - the configured regexps on the canonical text - is evaluated by the
// bounded symbolic Pike VM over each regexp's own syntax.Prog.

var c13pool = []string{
	// exact, canonical and not
	"65000:100", "^65000:100$", "0650:1", "^650:01$", "^65000:0$",
	// fixed-AS wildcards and near misses
	"^65000:.*$", `^65000:\d+$`, "^65000:[0-9]+$", "65000:.*", `^65000:\d*$`, "^65000:1:.*$",
	// fixed-AS with a finite / regular local part
	"^65000:1[0-9]{2}$", "^65000:(100|200)$", "^65000:6553[0-9]$", "^65000:[0-9]{5}$", "^6500[01]:1.$",
	// wildcard AS
	`^\d+:100$`, "^[0-9]+:(100|200)$", `^\d*:100$`, `^\d+:0100$`,
	// alternation at top level and inside
	"^65000:100$|^65001:200$", "^(65000|65001):100$", "^65000:100|200$",
	// out of range values and unanchored patterns
	"^65536:1$", "^65000:65536$", "650:1", "5000:10",
	// alternations whose members are written with leading zeros (canonical text never has them)
	`^\d+:(0100|200)$`, "^65000:(0100|200)$",
}

func c13text(c uint32) []byte {
	var buf [32]byte
	b := strconv.AppendUint(buf[:0], uint64(c>>16), 10)
	b = append(b, ':')
	return strconv.AppendUint(b, uint64(c&0xffff), 10)
}

func c13check(patterns []string, ncomm int) {
	set, err := NewCommunitySet(oc.CommunitySet{CommunitySetName: "s", CommunityList: patterns})
	vAssert(err == nil && set != nil && len(set.list) == len(patterns), "community set rejected")
	c13eval(set, ncomm)
}

func c13eval(set *CommunitySet, ncomm int) {
	opt := []MatchOption{MATCH_OPTION_ANY, MATCH_OPTION_ALL, MATCH_OPTION_INVERT}[vChoice("opt", 3)]
	cs := make([]uint32, ncomm)
	for i := range cs {
		cs[i] = vU32("c")
	}
	attrs := []bgp.PathAttributeInterface{bgp.NewPathAttributeOrigin(0), bgp.NewPathAttributeCommunities(cs)}
	p := &Path{info: &originInfo{nlri: vNlri4(10, 1, 0, 0, 16), nlriString: "10.1.0.0/16", source: localSource}, pathAttrs: attrs, family: bgp.RF_IPv4_UC}
	got := (&CommunityCondition{set: set, option: opt}).Evaluate(p, &PolicyOptions{})
	// reference: every configured regexp on the canonical text of every community
	texts := make([][]byte, ncomm)
	for i, c := range cs {
		texts[i] = c13text(c)
	}
	anyM, allM := false, true
	for _, re := range set.list {
		m := false
		for _, t := range texts {
			if re.Match(t) {
				m = true
			}
		}
		anyM = anyM || m
		allM = allM && m
	}
	want := false
	switch opt {
	case MATCH_OPTION_ANY:
		want = anyM
	case MATCH_OPTION_ALL:
		want = allM
	case MATCH_OPTION_INVERT:
		want = !anyM
	}
	vAssert(got == want, "compiled community matcher differs from its regular expressions")
	vReach("end")
}

func VH_c13_single() { c13check([]string{c13pool[vChoice("pat", len(c13pool))]}, 1) }

var c13pairs = [][2]int{{1, 5}, {1, 11}, {11, 16}, {16, 17}, {5, 16}, {12, 20}, {2, 25}, {13, 21}, {10, 1}, {19, 16}}

func VH_c13_pair() {
	pr := c13pairs[vChoice("pair", len(c13pairs))]
	c13check([]string{c13pool[pr[0]], c13pool[pr[1]]}, vParam("ncomm"))
}

// editing a set leaves the compiled form equivalent to the edited pattern list
func VH_c13_edit() {
	pr := c13pairs[vChoice("pair", len(c13pairs))]
	set, err := NewCommunitySet(oc.CommunitySet{CommunitySetName: "s", CommunityList: []string{c13pool[pr[0]]}})
	vAssert(err == nil, "community set rejected")
	other, err := NewCommunitySet(oc.CommunitySet{CommunitySetName: "s", CommunityList: []string{c13pool[pr[1]]}})
	vAssert(err == nil, "community set rejected")
	switch vChoice("edit", 3) {
	case 0:
		vAssert(set.Append(other) == nil, "append failed")
	case 1:
		vAssert(set.Append(other) == nil && set.Remove(other) == nil, "append/remove failed")
	default:
		vAssert(set.Replace(other) == nil, "replace failed")
	}
	c13eval(set, 1)
}

// ---- extended communities (two-octet-AS specific): exact / AS-only / bitmap / any-match index ----

var c13extPool = []string{
	"rt:65000:100", "rt:^65000:100$", "rt:^65000:.*$", `rt:^\d+:100$`, `rt:^\d+:200$`, "rt:^65000:(100|200)$",
	"soo:^65000:100$", "rt:^65000:70000$", "rt:65000:1[0-9]+", "rt:^0650:1$", `rt:^65000:\d+$`,
	"rt:^65000:65535$", "rt:^65000:65536$", // exact entries on both sides of the 16-bit local administrator boundary
	"rt:^65000:(0100|200)$", `rt:^\d+:(0100|200)$`, // alternation members with leading zeros
}

var c13extSets = [][]int{{1}, {2}, {3}, {5}, {7}, {8}, {9}, {3, 4}, {1, 6}, {5, 3}, {2, 8}, {10, 7}, {11}, {11, 12}, {13}, {14}}

func c13extEval(set *ExtCommunitySet) {
	opt := []MatchOption{MATCH_OPTION_ANY, MATCH_OPTION_ALL, MATCH_OPTION_INVERT}[vChoice("opt", 3)]
	st := bgp.EC_SUBTYPE_ROUTE_TARGET
	if vBool("soo") {
		st = bgp.EC_SUBTYPE_ROUTE_ORIGIN
	}
	la := vU32("la")
	if m := vParam("lamax"); m > 0 {
		vAssume(la <= uint32(m)) // quick tier: local admin up to 6 decimal digits (covers both sides of 65535)
	}
	ec := bgp.NewTwoOctetAsSpecificExtended(st, vU16("as"), la, vBool("transitive"))
	attrs := []bgp.PathAttributeInterface{bgp.NewPathAttributeOrigin(0), bgp.NewPathAttributeExtendedCommunities([]bgp.ExtendedCommunityInterface{ec})}
	p := &Path{info: &originInfo{nlri: vNlri4(10, 1, 0, 0, 16), nlriString: "10.1.0.0/16", source: localSource}, pathAttrs: attrs, family: bgp.RF_IPv4_UC}
	got := (&ExtCommunityCondition{set: set, option: opt}).Evaluate(p, &PolicyOptions{})
	// reference: a pattern matches a community when the community is transitive, has the pattern's
	// sub-type and the configured regexp matches its canonical text "AS:local"
	text := ec.String()
	anyM, allM := false, true
	for i, re := range set.list {
		m := ec.IsTransitive && ec.SubType == set.subtypeList[i] && re.MatchString(text)
		anyM = anyM || m
		allM = allM && m
	}
	want := false
	switch opt {
	case MATCH_OPTION_ANY:
		want = anyM
	case MATCH_OPTION_ALL:
		want = allM
	case MATCH_OPTION_INVERT:
		want = !anyM
	}
	vAssert(got == want, "compiled ext-community matcher differs from its regular expressions")
	vReach("end")
}

func VH_c13_ext() {
	sel := c13extSets[vChoice("set", len(c13extSets))]
	var pats []string
	for _, i := range sel {
		pats = append(pats, c13extPool[i])
	}
	set, err := NewExtCommunitySet(oc.ExtCommunitySet{ExtCommunitySetName: "e", ExtCommunityList: pats})
	vAssert(err == nil && set != nil, "ext-community set rejected")
	c13extEval(set)
}

func VH_c13_ext_edit() {
	sel := c13extSets[7+vChoice("set", 4)] // the two-pattern sets: build by Append / Replace
	a, err := NewExtCommunitySet(oc.ExtCommunitySet{ExtCommunitySetName: "e", ExtCommunityList: []string{c13extPool[sel[0]]}})
	vAssert(err == nil, "ext-community set rejected")
	b, err := NewExtCommunitySet(oc.ExtCommunitySet{ExtCommunitySetName: "e", ExtCommunityList: []string{c13extPool[sel[1]]}})
	vAssert(err == nil, "ext-community set rejected")
	if vBool("replace") {
		vAssert(a.Replace(b) == nil, "replace failed")
	} else {
		vAssert(a.Append(b) == nil, "append failed")
	}
	c13extEval(a)
}
