package table

import (
	"net/netip"
	"regexp"
	"strings"

	"github.com/osrg/gobgp/v4/pkg/config/oc"
	"github.com/osrg/gobgp/v4/pkg/packet/bgp"
)

// C10: policy evaluation equals the documented model and never mutates shared routes.
// Policies are built directly as structs (their constructors parse text); operands are symbolic.

// reference state of a route under the documented model
type c10ref struct {
	med    uint32
	hasMed bool
	lp     uint32
	hasLP  bool
	origin uint8
	comms  []uint32
	aslen  uint32
	ibgp   bool
	local  bool
	family bgp.Family
}

func c10route(r *c10ref) *Path { return c10routeShape(r, false) }

func c10routeShape(r *c10ref, fixedShape bool) *Path {
	r.med, r.lp, r.origin = vU32("r_med"), vU32("r_lp"), vU8("r_origin")
	vAssume(r.origin <= 2)
	r.hasMed, r.hasLP = true, true
	nc := 1
	if !fixedShape {
		nc = vInt("r_ncomm", 0, 2)
	}
	all := []uint32{vU32("r_c0"), vU32("r_c1")}
	r.comms = append([]uint32(nil), all[:nc]...)
	nas := 1
	if !fixedShape {
		nas = vInt("r_nas", 1, 2)
	}
	asl := []uint32{vU32("r_a0"), vU32("r_a1")}
	r.aslen = uint32(nas)
	src := &PeerInfo{AS: vU32("r_as"), LocalAS: vU32("r_las"), Address: vNlri4(10, 0, 0, 1, 32).Prefix.Addr()}
	r.ibgp = src.AS == src.LocalAS && src.AS != 0
	r.family = bgp.RF_IPv4_UC
	attrs := []bgp.PathAttributeInterface{
		bgp.NewPathAttributeOrigin(r.origin),
		bgp.NewPathAttributeAsPath([]bgp.AsPathParamInterface{bgp.NewAs4PathParam(bgp.BGP_ASPATH_ATTR_TYPE_SEQ, asl[:nas])}),
		bgp.NewPathAttributeMultiExitDisc(r.med),
		bgp.NewPathAttributeLocalPref(r.lp),
	}
	if nc > 0 {
		attrs = append(attrs, bgp.NewPathAttributeCommunities(all[:nc]))
	}
	return &Path{info: &originInfo{nlri: vNlri4(10, 1, 0, 0, 16), nlriString: "10.1.0.0/16", source: src}, pathAttrs: attrs, family: bgp.RF_IPv4_UC}
}

var c10origins = []oc.BgpOriginAttrType{oc.BGP_ORIGIN_ATTR_TYPE_IGP, oc.BGP_ORIGIN_ATTR_TYPE_EGP, oc.BGP_ORIGIN_ATTR_TYPE_INCOMPLETE}

func c10cmp(op AttributeComparison, x, v uint32) bool {
	switch op {
	case ATTRIBUTE_EQ:
		return x == v
	case ATTRIBUTE_GE:
		return x >= v
	case ATTRIBUTE_LE:
		return x <= v
	}
	return false
}

// c10cond builds the k-th kind of condition with symbolic operands and returns it with its
// documented meaning evaluated on the reference state.
func c10cond(kind int, r *c10ref) (Condition, bool) {
	switch kind {
	case 0:
		v := vU32("c_med")
		return &MedEqCondition{med: v}, r.hasMed && r.med == v
	case 1:
		v := vU32("c_lp")
		return &LocalPreqEqCondition{localPref: v}, r.lp == v
	case 2:
		o := vChoice("c_origin", 3)
		return &OriginCondition{origin: c10origins[o]}, int(r.origin) == o
	case 3:
		op, v := AttributeComparison(vInt("c_op", 0, 2)), vU32("c_len")
		return &AsPathLengthCondition{length: v, operator: op}, c10cmp(op, r.aslen, v)
	case 4:
		op, v := AttributeComparison(vInt("c_op", 0, 2)), vU32("c_cnt")
		return &CommunityCountCondition{count: v, operator: op}, c10cmp(op, uint32(len(r.comms)), v)
	case 5:
		t := vChoice("c_rt", 3)
		typ := []oc.RouteType{oc.ROUTE_TYPE_LOCAL, oc.ROUTE_TYPE_INTERNAL, oc.ROUTE_TYPE_EXTERNAL}[t]
		want := (t == 0 && r.local) || (t == 1 && !r.local && r.ibgp) || (t == 2 && !r.local && !r.ibgp)
		return &RouteTypeCondition{typ: typ}, want
	default:
		f := []bgp.Family{bgp.RF_IPv4_UC, bgp.RF_IPv6_UC}[vChoice("c_fam", 2)]
		return &AfiSafiInCondition{routeFamilies: []bgp.Family{f}}, f == r.family
	}
}

const c10condKinds = 7

// c10action builds the k-th kind of modification and applies its documented meaning to the reference state.
func c10action(kind int, r *c10ref) Action {
	switch kind {
	case 0:
		v := vU32("a_med")
		r.med, r.hasMed = v, true
		return &MedAction{value: int64(v), action: MED_ACTION_REPLACE}
	case 1:
		d := int64(int32(vU32("a_dmed")))
		nv := int64(r.med) + d
		if nv >= 0 && nv <= 0xffffffff { // out-of-range results leave the MED unchanged (the action fails and is logged)
			r.med, r.hasMed = uint32(nv), true
		}
		return &MedAction{value: d, action: MED_ACTION_MOD}
	case 2:
		v := vU32("a_lp")
		r.lp, r.hasLP = v, true
		return &LocalPrefAction{value: v}
	case 3:
		o := vChoice("a_origin", 3)
		r.origin = uint8(o)
		return &OriginAction{value: c10origins[o]}
	case 4:
		c := vU32("a_addc")
		r.comms = append(append([]uint32(nil), r.comms...), c)
		return &CommunityAction{action: oc.BGP_SET_COMMUNITY_OPTION_TYPE_ADD, list: []uint32{c}}
	case 5:
		c := vU32("a_repc")
		r.comms = []uint32{c}
		return &CommunityAction{action: oc.BGP_SET_COMMUNITY_OPTION_TYPE_REPLACE, list: []uint32{c}}
	default: // replace with the empty list: clears the attribute
		r.comms = nil
		return &CommunityAction{action: oc.BGP_SET_COMMUNITY_OPTION_TYPE_REPLACE, list: []uint32{}}
	}
}

const c10actionKinds = 7

func c10same(p *Path, r *c10ref) bool {
	med, err := p.GetMed()
	if (err == nil) != r.hasMed || (r.hasMed && med != r.med) {
		return false
	}
	lp, _ := p.GetLocalPref()
	if lp != r.lp {
		return false
	}
	o, _ := p.GetOrigin()
	if o != r.origin {
		return false
	}
	cs := p.GetCommunities()
	if len(cs) != len(r.comms) {
		return false
	}
	for i := range cs {
		if cs[i] != r.comms[i] {
			return false
		}
	}
	// the attribute list that is advertised must say the same
	nMed, nLP, nOrg, nComm := 0, 0, 0, 0
	for _, a := range p.GetPathAttrs() {
		switch x := a.(type) {
		case *bgp.PathAttributeMultiExitDisc:
			nMed++
			if !r.hasMed || x.Value != r.med {
				return false
			}
		case *bgp.PathAttributeLocalPref:
			nLP++
			if x.Value != r.lp {
				return false
			}
		case *bgp.PathAttributeOrigin:
			nOrg++
			if x.Value != r.origin {
				return false
			}
		case *bgp.PathAttributeCommunities:
			nComm++
			if len(x.Value) != len(r.comms) {
				return false
			}
			for i := range x.Value {
				if x.Value[i] != r.comms[i] {
					return false
				}
			}
		}
	}
	wantMed, wantComm := 0, 0
	if r.hasMed {
		wantMed = 1
	}
	if len(r.comms) > 0 {
		wantComm = 1
	}
	return nMed == wantMed && nLP == 1 && nOrg == 1 && nComm == wantComm
}

func c10policyEngine(pols []*Policy, def RouteType, dir PolicyDirection) *RoutingPolicy {
	a := &Assignment{}
	if dir == POLICY_DIRECTION_IMPORT {
		a.importPolicies, a.defaultImportPolicy = pols, def
	} else {
		a.exportPolicies, a.defaultExportPolicy = pols, def
	}
	return &RoutingPolicy{assignmentMap: map[string]*Assignment{"peer": a}, logger: c14logger()}
}

func c10dir() PolicyDirection {
	if vBool("export") {
		return POLICY_DIRECTION_EXPORT
	}
	return POLICY_DIRECTION_IMPORT
}

func c10routeAction(k int) Action {
	switch k {
	case 1:
		return &RoutingAction{AcceptRoute: true}
	case 2:
		return &RoutingAction{AcceptRoute: false}
	}
	return nil
}

// H1: control flow. 2 policies x 2 statements; each statement: a MED-equality condition with a
// symbolic operand, a MED "+d" modification, a route action in {none, accept, reject}; default in
// {accept, reject}. Verdict and resulting attributes equal the documented model: statements in
// order, modifications of every matching statement accumulate, first accept/reject decides, else default.
func VH_c10_flow() {
	var r c10ref
	p := c10routeShape(&r, true)
	orig := r
	orig.comms = append([]uint32(nil), r.comms...)
	var pols []*Policy
	decided, accept := false, false
	for pi := 0; pi < 2; pi++ {
		pol := &Policy{Name: "p"}
		for si := 0; si < 2; si++ {
			v := vU32("s_med")
			d := int64(vU8("s_d"))
			ra := vChoice("s_route", 3)
			st := &Statement{Name: "s", Conditions: []Condition{&MedEqCondition{med: v}}, ModActions: []Action{&MedAction{value: d, action: MED_ACTION_MOD}}, RouteAction: c10routeAction(ra)}
			pol.Statements = append(pol.Statements, st)
			if !decided && r.med == v {
				if nv := int64(r.med) + d; nv <= 0xffffffff {
					r.med = uint32(nv)
				}
				if ra != 0 {
					decided, accept = true, ra == 1
				}
			}
		}
		pols = append(pols, pol)
	}
	defAccept := vBool("default_accept")
	def := ROUTE_TYPE_REJECT
	if defAccept {
		def = ROUTE_TYPE_ACCEPT
	}
	if !decided {
		accept = defAccept
	}
	dir := c10dir()
	out := c10policyEngine(pols, def, dir).ApplyPolicy("peer", dir, p, &PolicyOptions{})
	vAssert((out != nil) == accept, "verdict differs from the documented model (first decisive statement, else default)")
	if out != nil {
		vAssert(c10same(out, &r), "resulting attributes differ from the accumulated modifications of the matching statements")
	}
	vAssert(c10same(p, &orig), "the route as stored was changed by applying policy")
	vReach("end")
}

// H2: every condition kind, alone and in pairs (a statement applies when ALL its conditions hold)
func VH_c10_conditions() {
	var r c10ref
	p := c10route(&r)
	k1 := vChoice("kind", c10condKinds)
	c1, w1 := c10cond(k1, &r)
	conds, want := []Condition{c1}, w1
	if vParam("pairs") > 0 {
		k2 := vChoice("kind", c10condKinds)
		c2, w2 := c10cond(k2, &r)
		conds, want = append(conds, c2), w1 && w2
	}
	st := &Statement{Name: "s", Conditions: conds, RouteAction: &RoutingAction{AcceptRoute: true}}
	out := c10policyEngine([]*Policy{{Name: "p", Statements: []*Statement{st}}}, ROUTE_TYPE_REJECT, POLICY_DIRECTION_IMPORT).ApplyPolicy("peer", POLICY_DIRECTION_IMPORT, p, &PolicyOptions{})
	vAssert((out != nil) == want, "condition verdict differs from its documented meaning")
	vReach("end")
}

// H3: every modification kind, two stages (import policy, then export policy applied to the import
// result: a copy of a copy): modifications accumulate in order, the advertised attribute list agrees
// with the getters, and neither the stored route nor the intermediate copy is changed.
func VH_c10_actions() {
	var r c10ref
	p := c10route(&r)
	orig := r
	orig.comms = append([]uint32(nil), r.comms...)
	a1 := c10action(vChoice("akind", c10actionKinds), &r)
	mid := r
	mid.comms = append([]uint32(nil), r.comms...)
	st1 := &Statement{Name: "s1", ModActions: []Action{a1}, RouteAction: &RoutingAction{AcceptRoute: true}}
	out1 := c10policyEngine([]*Policy{{Name: "p1", Statements: []*Statement{st1}}}, ROUTE_TYPE_REJECT, POLICY_DIRECTION_IMPORT).ApplyPolicy("peer", POLICY_DIRECTION_IMPORT, p, &PolicyOptions{})
	vAssert(out1 != nil, "accepted route was rejected")
	vAssert(c10same(out1, &mid), "resulting attributes differ from the documented effect of the modification")
	a2 := c10action(vChoice("akind", c10actionKinds), &r)
	st2 := &Statement{Name: "s2", ModActions: []Action{a2}, RouteAction: &RoutingAction{AcceptRoute: true}}
	out2 := c10policyEngine([]*Policy{{Name: "p2", Statements: []*Statement{st2}}}, ROUTE_TYPE_REJECT, POLICY_DIRECTION_EXPORT).ApplyPolicy("peer", POLICY_DIRECTION_EXPORT, out1, &PolicyOptions{})
	vAssert(out2 != nil, "accepted route was rejected")
	vAssert(c10same(out2, &r), "attributes after import then export policy differ from the accumulated modifications")
	vAssert(c10same(out1, &mid), "the import result was changed by applying the export policy")
	vAssert(c10same(p, &orig), "the route as stored was changed by applying policy")
	vReach("end")
}

// H4: sibling independence. One stored route whose community-like attribute slices have spare
// capacity (0..2); two per-peer copies are pushed through two different "add" actions. Neither
// copy, nor the stored route, may see the other's addition.
func VH_c10_siblings() {
	spare := vInt("spare", 0, 2)
	cs := make([]uint32, 1, 1+spare)
	cs[0] = vU32("c0")
	ls := make([]*bgp.LargeCommunity, 1, 1+spare)
	ls[0] = bgp.NewLargeCommunity(vU32("l0"), 1, 2)
	es := make([]bgp.ExtendedCommunityInterface, 1, 1+spare)
	es[0] = bgp.NewTwoOctetAsSpecificExtended(bgp.EC_SUBTYPE_ROUTE_TARGET, vU16("e0"), 1, true)
	attrs := []bgp.PathAttributeInterface{
		bgp.NewPathAttributeOrigin(0),
		bgp.NewPathAttributeCommunities(cs),
		bgp.NewPathAttributeLargeCommunities(ls),
		bgp.NewPathAttributeExtendedCommunities(es),
	}
	stored := &Path{info: &originInfo{nlri: vNlri4(10, 1, 0, 0, 16), nlriString: "10.1.0.0/16", source: localSource}, pathAttrs: attrs, family: bgp.RF_IPv4_UC}
	x, y := vU32("x"), vU32("y")
	mk := func(v uint32) []*Policy {
		st := &Statement{Name: "s", ModActions: []Action{
			&CommunityAction{action: oc.BGP_SET_COMMUNITY_OPTION_TYPE_ADD, list: []uint32{v}},
			&LargeCommunityAction{action: oc.BGP_SET_COMMUNITY_OPTION_TYPE_ADD, list: []*bgp.LargeCommunity{bgp.NewLargeCommunity(v, 0, 0)}},
			&ExtCommunityAction{action: oc.BGP_SET_COMMUNITY_OPTION_TYPE_ADD, list8: []bgp.ExtendedCommunityInterface{bgp.NewTwoOctetAsSpecificExtended(bgp.EC_SUBTYPE_ROUTE_TARGET, 7, v, true)}},
		}, RouteAction: &RoutingAction{AcceptRoute: true}}
		return []*Policy{{Name: "p", Statements: []*Statement{st}}}
	}
	a := c10policyEngine(mk(x), ROUTE_TYPE_REJECT, POLICY_DIRECTION_EXPORT).ApplyPolicy("peer", POLICY_DIRECTION_EXPORT, stored, &PolicyOptions{})
	b := c10policyEngine(mk(y), ROUTE_TYPE_REJECT, POLICY_DIRECTION_EXPORT).ApplyPolicy("peer", POLICY_DIRECTION_EXPORT, stored, &PolicyOptions{})
	vAssert(a != nil && b != nil, "accepted route was rejected")
	ac, al, ae := a.GetCommunities(), a.GetLargeCommunities(), a.GetExtCommunities()
	vAssert(len(ac) == 2 && ac[1] == x, "peer A's communities were changed by producing peer B's copy")
	vAssert(len(al) == 2 && al[1].ASN == x, "peer A's large communities were changed by producing peer B's copy")
	vAssert(len(ae) == 2 && ae[1].(*bgp.TwoOctetAsSpecificExtended).LocalAdmin == x, "peer A's extended communities were changed by producing peer B's copy")
	vAssert(len(stored.GetCommunities()) == 1 && len(stored.GetLargeCommunities()) == 1 && len(stored.GetExtCommunities()) == 1, "the stored route was changed by applying policy")
	vReach("end")
}

// H5: as-path sets. A set mixes "simple" patterns (^N_, _N_, _N$, ^N$: compiled to a fast integer
// match) and general regular expressions. The documented meaning of every member is the regular
// expression (with '_' as the AS-boundary magic) on the textual AS path; members combine under
// any / all / invert.
var c10asPatterns = []string{"^65001_", "_65002_", "_65003$", "^65004$", "_6500[0-9]_", "^6500[12]_", "_65002 65003$"}
var c10asPool = []uint32{65001, 65002, 65003, 65009}

func VH_c10_aspath() {
	n := 1 + vChoice("n", 2)
	asl := make([]uint32, n)
	for i := range asl {
		asl[i] = c10asPool[vChoice("as", len(c10asPool))]
	}
	p1, p2 := c10asPatterns[vChoice("pat", len(c10asPatterns))], c10asPatterns[vChoice("pat", len(c10asPatterns))]
	opt := []MatchOption{MATCH_OPTION_ANY, MATCH_OPTION_ALL, MATCH_OPTION_INVERT}[vChoice("opt", 3)]
	set, err := NewAsPathSet(oc.AsPathSet{AsPathSetName: "s", AsPathList: []string{p1, p2}})
	vAssert(err == nil && set != nil, "as-path set rejected")
	attrs := []bgp.PathAttributeInterface{
		bgp.NewPathAttributeOrigin(0),
		bgp.NewPathAttributeAsPath([]bgp.AsPathParamInterface{bgp.NewAs4PathParam(bgp.BGP_ASPATH_ATTR_TYPE_SEQ, asl)}),
	}
	p := &Path{info: &originInfo{nlri: vNlri4(10, 1, 0, 0, 16), nlriString: "10.1.0.0/16", source: localSource}, pathAttrs: attrs, family: bgp.RF_IPv4_UC}
	text := p.GetAsString()
	m1 := regexp.MustCompile(strings.ReplaceAll(p1, "_", ASPATH_REGEXP_MAGIC)).MatchString(text)
	m2 := regexp.MustCompile(strings.ReplaceAll(p2, "_", ASPATH_REGEXP_MAGIC)).MatchString(text)
	want := false
	switch opt {
	case MATCH_OPTION_ANY:
		want = m1 || m2
	case MATCH_OPTION_ALL:
		want = m1 && m2
	case MATCH_OPTION_INVERT:
		want = !(m1 || m2)
	}
	got := (&AsPathCondition{set: set, option: opt}).Evaluate(p, &PolicyOptions{})
	b2u := func(b bool) uint64 {
		if b {
			return 1
		}
		return 0
	}
	vObserve("textlen", uint64(len(text)))
	vObserve("m1", b2u(m1))
	vObserve("m2", b2u(m2))
	vObserve("nsingle", uint64(len(set.singleList)))
	vObserve("nlist", uint64(len(set.list)))
	vObserve("got", b2u(got))
	vAssert(got == want, "as-path condition differs from its regular expressions under any/all/invert")
	vReach("end")
}

// C10 (prefix sets): a prefix-set condition holds iff SOME entry of the set contains the route's
// prefix and admits its mask length - also when the entries are nested and only the less specific
// one admits it. Entries: 10.0.0.0/8, 10.1.0.0/16 (nested), 192.0.2.0/24, with symbolic mask-length
// ranges; routes inside, beside and below them; any / invert.
func VH_c10_prefix_set() {
	entries := []struct {
		pfx  string
		bits int
	}{{"10.0.0.0/8", 8}, {"10.1.0.0/16", 16}, {"192.0.2.0/24", 24}}
	var list []oc.Prefix
	for _, e := range entries {
		list = append(list, oc.Prefix{IpPrefix: netip.MustParsePrefix(e.pfx)})
	}
	ps, err := NewPrefixSet(oc.PrefixSet{PrefixSetName: "ps", PrefixList: list})
	vAssume(err == nil && ps != nil)
	var lo, hi [3]uint8
	for i, e := range entries {
		got, ok := ps.tree.Get(netip.MustParsePrefix(e.pfx))
		vAssume(ok && len(got) == 1)
		lo[i], hi[i] = vU8("range_min"), vU8("range_max")
		vAssume(int(lo[i]) >= e.bits && lo[i] <= hi[i] && hi[i] <= 32)
		got[0].MasklengthRangeMin, got[0].MasklengthRangeMax = lo[i], hi[i]
	}
	routes := []struct {
		pfx    string
		bits   uint8
		inside [3]bool
	}{{"10.1.2.0/24", 24, [3]bool{true, true, false}}, {"10.1.0.0/16", 16, [3]bool{true, true, false}}, {"10.2.0.0/16", 16, [3]bool{true, false, false}},
		{"10.1.2.128/25", 25, [3]bool{true, true, false}}, {"192.0.2.128/25", 25, [3]bool{false, false, true}}, {"172.16.0.0/12", 12, [3]bool{false, false, false}},
		{"10.0.0.0/8", 8, [3]bool{true, false, false}}}
	r := routes[vChoice("route", len(routes))]
	nlri, _ := bgp.NewIPAddrPrefix(netip.MustParsePrefix(r.pfx))
	p := &Path{info: &originInfo{nlri: nlri, nlriString: r.pfx, source: c10src}, family: bgp.RF_IPv4_UC}
	opt := MATCH_OPTION_ANY
	if vBool("invert") {
		opt = MATCH_OPTION_INVERT
	}
	c := &PrefixCondition{set: ps, option: opt}
	want := false
	for i := range entries {
		if r.inside[i] && lo[i] <= r.bits && r.bits <= hi[i] {
			want = true
		}
	}
	if opt == MATCH_OPTION_INVERT {
		want = !want
	}
	vAssert(c.Evaluate(p, nil) == want, "a prefix-set condition does not hold exactly when some entry contains the route and admits its mask length")
	vReach("end")
}

// C10 (AS_PATH prepend at the segment-size boundary): prepending an AS `repeat` times to a path
// whose first AS_SEQUENCE already has k members yields exactly repeat copies of the AS followed by
// the old path, in segments of at most 255 members - also when repeat + k exceeds 255.
func VH_c10_prepend_boundary() {
	k := 1 + vChoice("existing_members", 3)
	repeat := uint8(253 + vChoice("repeat", 3))
	old := []uint32{vU32("old_as"), vU32("old_as"), vU32("old_as")}[:k]
	asn := vU32("prepended_as")
	nlri, _ := bgp.NewIPAddrPrefix(netip.MustParsePrefix("10.1.0.0/16"))
	attrs := []bgp.PathAttributeInterface{bgp.NewPathAttributeOrigin(0),
		bgp.NewPathAttributeAsPath([]bgp.AsPathParamInterface{bgp.NewAs4PathParam(bgp.BGP_ASPATH_ATTR_TYPE_SEQ, append([]uint32(nil), old...))})}
	stored := &Path{info: &originInfo{nlri: nlri, nlriString: "10.1.0.0/16", source: c10src}, pathAttrs: attrs, family: bgp.RF_IPv4_UC}
	p := stored.Clone(false)
	p.PrependAsn(asn, repeat, false)
	var flat []uint32
	for _, seg := range p.GetAsPath().Value {
		l := seg.GetAS()
		vAssert(len(l) >= 1 && len(l) <= 255 && seg.GetType() == bgp.BGP_ASPATH_ATTR_TYPE_SEQ, "prepending produced an empty, over-long or wrongly typed segment")
		flat = append(flat, l...)
	}
	vAssert(len(flat) == int(repeat)+k, "prepending did not add exactly `repeat` members")
	if len(flat) != int(repeat)+k {
		return
	}
	for i := 0; i < int(repeat); i++ {
		vAssert(flat[i] == asn, "a prepended position does not hold the prepended AS")
	}
	for i := 0; i < k; i++ {
		vAssert(flat[int(repeat)+i] == old[i], "the original AS_PATH was changed by prepending")
	}
	so := stored.GetAsPath().Value[0].GetAS()
	vAssert(len(so) == k && so[0] == old[0], "prepending on a copy changed the stored route")
	vReach("end")
}

var c10src = &PeerInfo{AS: 65001, LocalAS: 65000, ID: netip.AddrFrom4([4]byte{1, 1, 1, 1}), Address: netip.AddrFrom4([4]byte{10, 0, 0, 1})}
