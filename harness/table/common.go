package table

import (
	"net/netip"

	"github.com/osrg/gobgp/v4/pkg/packet/bgp"
)

// vSrc builds a route source with symbolic AS numbers, router-id and neighbour address.
func vSrc(n string, confedAllowed bool) *PeerInfo {
	s := &PeerInfo{
		AS:      vU32(n + "_as"),
		LocalAS: vU32(n + "_las"),
		ID:      netip.AddrFrom4([4]byte{vU8(n + "_id0"), vU8(n + "_id1"), vU8(n + "_id2"), vU8(n + "_id3")}),
		Address: netip.AddrFrom4([4]byte{10, 0, vU8(n + "_ad2"), vU8(n + "_ad3")}),
	}
	if confedAllowed {
		s.Confederation = vBool(n + "_confed")
	}
	return s
}

func vNlri4(a, b, c, d byte, bits int) *bgp.IPAddrPrefix {
	nlri, _ := bgp.NewIPAddrPrefix(netip.PrefixFrom(netip.AddrFrom4([4]byte{a, b, c, d}), bits))
	return nlri
}
