package table

import (
	"io"
	"log/slog"

	"github.com/osrg/gobgp/v4/pkg/packet/bgp"
)

// C14: the 2-octet/4-octet AS transition loses nothing.

func c14logger() *slog.Logger { return slog.New(slog.NewTextHandler(io.Discard, nil)) }

// c14seg builds one segment with symbolic type (from the allowed set) and 1..maxn symbolic members.
func c14seg(name string, confed bool, maxn int, as16 bool) *bgp.As4PathParam {
	t := vU8(name + "_t")
	if confed {
		vAssume(t == bgp.BGP_ASPATH_ATTR_TYPE_CONFED_SEQ || t == bgp.BGP_ASPATH_ATTR_TYPE_CONFED_SET)
	} else {
		vAssume(t == bgp.BGP_ASPATH_ATTR_TYPE_SEQ || t == bgp.BGP_ASPATH_ATTR_TYPE_SET)
	}
	n := vInt(name+"_n", 1, maxn)
	as := make([]uint32, maxn)
	for i := range as {
		as[i] = vU32(name + "_as")
		if as16 {
			vAssume(as[i] <= 65535)
		}
	}
	return bgp.NewAs4PathParam(t, as[:n])
}

// c14flat lists the path as (segment type, member) pairs with a boundary marker between segments,
// except between two adjacent AS_SEQUENCE segments: that boundary carries no meaning and the
// reconstruction is free to coalesce them.
func c14flat(ps []bgp.AsPathParamInterface) []uint64 {
	var out []uint64
	prev := uint8(0)
	for i, p := range ps {
		t := p.GetType()
		if i > 0 && !(t == bgp.BGP_ASPATH_ATTR_TYPE_SEQ && prev == bgp.BGP_ASPATH_ATTR_TYPE_SEQ) {
			out = append(out, 1<<40)
		}
		for _, a := range p.GetAS() {
			out = append(out, uint64(t)<<32|uint64(a))
		}
		prev = t
	}
	return out
}

func c14samePath(x, y []bgp.AsPathParamInterface) bool {
	a, b := c14flat(x), c14flat(y)
	if len(a) != len(b) {
		return false
	}
	for i := range a {
		if a[i] != b[i] {
			return false
		}
	}
	return true
}

func c14sameParams(x, y []bgp.AsPathParamInterface) bool {
	if len(x) != len(y) {
		return false
	}
	for i := range x {
		if x[i].GetType() != y[i].GetType() {
			return false
		}
		a, b := x[i].GetAS(), y[i].GetAS()
		if len(a) != len(b) {
			return false
		}
		for j := range a {
			if a[j] != b[j] {
				return false
			}
		}
	}
	return true
}

// NEW -> OLD -> NEW round trip of a valid AS_PATH: optional leading confederation segment (2-octet
// members: AS4_PATH may not carry confed segments, the property excepts their 4-octet members),
// then `segs` SEQUENCE/SET segments of 1..3 symbolic 32-bit members.
func VH_c14_roundtrip() {
	var params []bgp.AsPathParamInterface
	if vBool("confed") {
		params = append(params, c14seg("c", true, 2, true))
		if vBool("second_confed_segment") { // a leading confederation run of two segments
			params = append(params, c14seg("c", true, 1, true))
		}
	}
	segs := vParam("segs")
	for i := 0; i < segs; i++ {
		params = append(params, c14seg("s", false, vParam("maxn"), false))
	}
	orig := make([]bgp.AsPathParamInterface, len(params))
	any4 := false
	for i, p := range params {
		as := append([]uint32(nil), p.GetAS()...)
		for _, a := range as {
			if a > 65535 {
				any4 = true
			}
		}
		orig[i] = bgp.NewAs4PathParam(p.GetType(), as)
	}
	msg := &bgp.BGPUpdate{PathAttributes: []bgp.PathAttributeInterface{bgp.NewPathAttributeOrigin(0), bgp.NewPathAttributeAsPath(params)}}
	UpdatePathAttrs2ByteAs(msg)
	// the OLD form: every AS_PATH member fits 2 octets, AS_TRANS exactly where the original did not
	var as4 *bgp.PathAttributeAs4Path
	for _, a := range msg.PathAttributes {
		switch x := a.(type) {
		case *bgp.PathAttributeAsPath:
			vAssert(len(x.Value) == len(orig), "down-conversion changed the number of segments")
			for i, p := range x.Value {
				p2, ok := p.(*bgp.AsPathParam)
				vAssert(ok, "AS_PATH for a 2-octet peer still holds 4-octet segments")
				vAssert(p2.Type == orig[i].GetType() && len(p2.AS) == len(orig[i].GetAS()) && len(p2.AS) >= 1 && len(p2.AS) <= 255, "down-converted segment changed shape or is malformed")
				for j, v := range p2.AS {
					o := orig[i].GetAS()[j]
					if o > 65535 {
						vAssert(v == bgp.AS_TRANS, "4-octet AS not replaced by AS_TRANS")
					} else {
						vAssert(uint32(v) == o, "2-octet AS changed by down-conversion")
					}
				}
			}
		case *bgp.PathAttributeAs4Path:
			as4 = x
		}
	}
	vAssert((as4 != nil) == any4, "AS4_PATH must be attached exactly when a 4-octet AS was replaced")
	if as4 != nil {
		for _, p := range as4.Value {
			vAssert(p.Type == bgp.BGP_ASPATH_ATTR_TYPE_SEQ || p.Type == bgp.BGP_ASPATH_ATTR_TYPE_SET, "AS4_PATH carries a confederation segment")
			vAssert(len(p.AS) >= 1 && len(p.AS) <= 255, "AS4_PATH segment empty or over-long")
		}
	}
	UpdatePathAttrs4ByteAs(c14logger(), msg)
	found := false
	for _, a := range msg.PathAttributes {
		switch x := a.(type) {
		case *bgp.PathAttributeAsPath:
			found = true
			vAssert(c14samePath(x.Value, orig), "reconstruction as a 4-octet speaker does not give back the original AS_PATH")
			for _, p := range x.Value {
				vAssert(len(p.GetAS()) >= 1 && len(p.GetAS()) <= 255, "reconstructed segment empty or over-long")
			}
		case *bgp.PathAttributeAs4Path:
			vAssert(false, "AS4_PATH left in the attribute list after reconstruction")
		}
	}
	vAssert(found, "AS_PATH lost")
	vReach("end")
}

// independently generated (AS_PATH, AS4_PATH) pairs, as an OLD speaker chain could deliver them
func VH_c14_pairs() {
	var ap []bgp.AsPathParamInterface
	na := vInt("na", 1, vParam("segs"))
	for i := 0; i < na; i++ {
		t := vU8("a_t")
		vAssume(t >= 1 && t <= 4)
		n := vInt("a_n", 1, vParam("maxn"))
		as := []uint16{vU16("a_as"), vU16("a_as"), vU16("a_as")}
		ap = append(ap, bgp.NewAsPathParam(t, as[:n]))
	}
	var a4 []*bgp.As4PathParam
	n4 := vInt("n4", 1, vParam("segs"))
	for i := 0; i < n4; i++ {
		t := vU8("b_t")
		vAssume(t >= 1 && t <= 4)
		n := vInt("b_n", 1, vParam("maxn"))
		as := []uint32{vU32("b_as"), vU32("b_as"), vU32("b_as")}
		a4 = append(a4, bgp.NewAs4PathParam(t, as[:n]))
	}
	asLen, confed := 0, 0
	var before []bgp.AsPathParamInterface
	for _, p := range ap {
		asLen += p.ASLen()
		switch p.GetType() {
		case bgp.BGP_ASPATH_ATTR_TYPE_CONFED_SEQ:
			confed += len(p.GetAS())
		case bgp.BGP_ASPATH_ATTR_TYPE_CONFED_SET:
			confed++
		}
		as := make([]uint32, len(p.GetAS()))
		copy(as, p.GetAS())
		before = append(before, bgp.NewAs4PathParam(p.GetType(), as))
	}
	as4Len := 0
	for _, p := range a4 {
		if p.Type == bgp.BGP_ASPATH_ATTR_TYPE_SEQ || p.Type == bgp.BGP_ASPATH_ATTR_TYPE_SET {
			as4Len += p.ASLen()
		}
	}
	msg := &bgp.BGPUpdate{PathAttributes: []bgp.PathAttributeInterface{bgp.NewPathAttributeAsPath(ap), bgp.NewPathAttributeAs4Path(a4)}}
	UpdatePathAttrs4ByteAs(c14logger(), msg)
	vAssert(len(msg.PathAttributes) == 1, "AS4_PATH not removed from the attribute list")
	res := msg.PathAttributes[0].(*bgp.PathAttributeAsPath)
	resLen := 0
	for _, p := range res.Value {
		vAssert(len(p.GetAS()) >= 1, "reconstruction produced an empty segment")
		vAssert(len(p.GetAS()) <= 255, "reconstruction produced an over-long segment")
		resLen += p.ASLen()
	}
	vAssert(resLen <= asLen, "reconstruction lengthened the path")
	if as4Len > asLen {
		vAssert(c14sameParams(res.Value, before), "an AS4_PATH longer than the AS_PATH was not ignored")
	}
	vReach("end")
}

// AGGREGATOR / AS4_AGGREGATOR round trip
func VH_c14_aggregator() {
	as := vU32("as")
	addr := vNlri4(10, 0, 0, vU8("a3"), 32).Prefix.Addr()
	agg, _ := bgp.NewPathAttributeAggregator(as, addr)
	msg := &bgp.BGPUpdate{PathAttributes: []bgp.PathAttributeInterface{bgp.NewPathAttributeOrigin(0), agg}}
	UpdatePathAggregator2ByteAs(msg)
	n4 := 0
	for _, a := range msg.PathAttributes {
		switch x := a.(type) {
		case *bgp.PathAttributeAggregator:
			if as > 65535 {
				vAssert(x.Value.AS == bgp.AS_TRANS, "4-octet aggregator AS not replaced by AS_TRANS")
			} else {
				vAssert(x.Value.AS == as, "2-octet aggregator AS changed")
			}
			vAssert(x.Value.Address == addr, "aggregator address changed")
		case *bgp.PathAttributeAs4Aggregator:
			n4++
			vAssert(x.Value.AS == as && x.Value.Address == addr, "AS4_AGGREGATOR differs from the original aggregator")
		}
	}
	vAssert((n4 == 1) == (as > 65535) && n4 <= 1, "AS4_AGGREGATOR must be attached exactly when the AS needs 4 octets")
	err := UpdatePathAggregator4ByteAs(msg)
	vAssert(err == nil, "reconstruction of a well-formed aggregator pair failed")
	cnt := 0
	for _, a := range msg.PathAttributes {
		switch x := a.(type) {
		case *bgp.PathAttributeAggregator:
			cnt++
			vAssert(x.Value.AS == as && x.Value.Address == addr, "reconstructed AGGREGATOR differs from the original")
		case *bgp.PathAttributeAs4Aggregator:
			vAssert(false, "AS4_AGGREGATOR left after reconstruction")
		}
	}
	vAssert(cnt == 1, "AGGREGATOR lost or duplicated")
	vReach("end")
}

// the 255-member boundary of the SEQUENCE merge: AS_PATH SEQ(n1) SEQ(n2) with AS4_PATH SEQ(n2),
// n1+n2 ranging over 253..257 (members concrete except the ends)
func VH_c14_boundary255() {
	n1 := vInt("n1", 99, 101)
	n2 := vInt("n2", 154, 156)
	a1 := make([]uint16, 101)
	a2 := make([]uint16, 156)
	b := make([]uint32, 156)
	for i := range a1 {
		a1[i] = uint16(1000 + i)
	}
	for i := range a2 {
		a2[i] = bgp.AS_TRANS
		b[i] = uint32(70000 + i)
	}
	a1[0], b[0] = vU16("first"), vU32("b_first")
	ap := []bgp.AsPathParamInterface{bgp.NewAsPathParam(bgp.BGP_ASPATH_ATTR_TYPE_SEQ, a1[:n1]), bgp.NewAsPathParam(bgp.BGP_ASPATH_ATTR_TYPE_SEQ, a2[:n2])}
	a4 := []*bgp.As4PathParam{bgp.NewAs4PathParam(bgp.BGP_ASPATH_ATTR_TYPE_SEQ, b[:n2])}
	msg := &bgp.BGPUpdate{PathAttributes: []bgp.PathAttributeInterface{bgp.NewPathAttributeAsPath(ap), bgp.NewPathAttributeAs4Path(a4)}}
	UpdatePathAttrs4ByteAs(c14logger(), msg)
	vAssert(len(msg.PathAttributes) == 1, "AS4_PATH not removed from the attribute list")
	res := msg.PathAttributes[0].(*bgp.PathAttributeAsPath)
	total := 0
	for _, p := range res.Value {
		vAssert(len(p.GetAS()) >= 1, "reconstruction produced an empty segment")
		vAssert(len(p.GetAS()) <= 255, "reconstruction produced an over-long segment")
		total += len(p.GetAS())
	}
	vAssert(total == n1+n2, "reconstruction changed the number of AS numbers")
	// the last n2 members are the AS4_PATH's, the first n1 the kept AS_PATH prefix
	flat := c14flat(res.Value)
	vAssert(len(flat) == n1+n2 && flat[0] == uint64(bgp.BGP_ASPATH_ATTR_TYPE_SEQ)<<32|uint64(a1[0]) && flat[n1] == uint64(bgp.BGP_ASPATH_ATTR_TYPE_SEQ)<<32|uint64(b[0]), "reconstructed members are not the kept prefix followed by the AS4_PATH")
	vReach("end")
}
