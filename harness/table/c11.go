package table

import (
	"net/netip"

	"github.com/osrg/gobgp/v4/pkg/packet/bgp"
)

// C11: UPDATE packing respects the session's size limit for every attribute size, and no route is
// dropped without either appearing in a message or being the reported oversize case.

func c11path(attrLen uint16, prefix *bgp.IPAddrPrefix, key string) *Path {
	nh, _ := bgp.NewPathAttributeNextHop(netip.AddrFrom4([4]byte{10, 0, 0, 1}))
	unk := bgp.NewPathAttributeUnknown(bgp.BGP_ATTR_FLAG_OPTIONAL|bgp.BGP_ATTR_FLAG_TRANSITIVE, 250, []byte{1, 2, 3})
	unk.Length = attrLen // Len() is derived from the cached header: stands for an attribute set of any size
	attrs := []bgp.PathAttributeInterface{
		bgp.NewPathAttributeOrigin(0),
		bgp.NewPathAttributeAsPath([]bgp.AsPathParamInterface{bgp.NewAs4PathParam(bgp.BGP_ASPATH_ATTR_TYPE_SEQ, []uint32{65001})}),
		nh,
		unk,
	}
	return &Path{info: &originInfo{nlri: prefix, nlriString: key, source: localSource}, pathAttrs: attrs, family: bgp.RF_IPv4_UC}
}

func c11limit(ext bool) int {
	if ext {
		return 65535
	}
	return 4096
}

func c11msgSize(u *bgp.BGPUpdate, addpath bool) int {
	total := 19 + 2 + 2
	for _, a := range u.PathAttributes {
		total += a.Len()
	}
	for _, n := range u.NLRI {
		total += n.NLRI.Len()
		if addpath {
			total += 4
		}
	}
	for _, n := range u.WithdrawnRoutes {
		total += n.NLRI.Len()
		if addpath {
			total += 4
		}
	}
	return total
}

// one IPv4 route, attribute size free (0..65535), extended message free
func VH_c11_v4size_one() {
	p := c11path(vU16("attrlen"), vNlri4(10, 1, 0, 0, 16), "10.1.0.0/16")
	ext := vBool("ext")
	msgs := CreateUpdateMsgFromPaths([]*Path{p}, &bgp.MarshallingOption{ExtendedMessage: ext})
	for _, m := range msgs {
		u := m.Body.(*bgp.BGPUpdate)
		vAssert(c11msgSize(u, false) <= c11limit(ext) || len(u.NLRI) == 1, "message exceeds the session limit")
	}
	vAssert(len(msgs) >= 1, "route dropped without any message (neither sent nor reported)")
	vReach("end")
}

// three IPv4 routes sharing one attribute set of free size: every emitted message fits or carries one NLRI,
// and the three routes are all accounted for
func VH_c11_v4size_three() {
	al := vU16("attrlen")
	ps := []*Path{
		c11path(al, vNlri4(10, 1, 0, 0, 16), "10.1.0.0/16"),
		c11path(al, vNlri4(10, 2, 0, 0, 16), "10.2.0.0/16"),
		c11path(al, vNlri4(10, 3, 3, 0, 24), "10.3.3.0/24"),
	}
	ext := vBool("ext")
	msgs := CreateUpdateMsgFromPaths(ps, &bgp.MarshallingOption{ExtendedMessage: ext})
	carried := 0
	for _, m := range msgs {
		u := m.Body.(*bgp.BGPUpdate)
		vAssert(c11msgSize(u, false) <= c11limit(ext) || len(u.NLRI) == 1, "message exceeds the session limit")
		carried += len(u.NLRI)
	}
	vAssert(carried == 3, "a route was dropped or duplicated by the packer")
	vReach("end")
}

// ---- equivalence: applying the emitted messages in order == applying the changes one at a time ----

type c11key struct {
	prefix int
	id     uint32
}

func c11attrs(set int) []bgp.PathAttributeInterface {
	nh, _ := bgp.NewPathAttributeNextHop(netip.AddrFrom4([4]byte{10, 0, 0, 1}))
	return []bgp.PathAttributeInterface{
		bgp.NewPathAttributeOrigin(0),
		bgp.NewPathAttributeAsPath([]bgp.AsPathParamInterface{bgp.NewAs4PathParam(bgp.BGP_ASPATH_ATTR_TYPE_SEQ, []uint32{65001})}),
		nh,
		bgp.NewPathAttributeMultiExitDisc(uint32(100 + set)),
	}
}

func VH_c11_equiv() {
	k := vParam("k")
	prefixes := []*bgp.IPAddrPrefix{vNlri4(10, 1, 0, 0, 16), vNlri4(10, 2, 0, 0, 16)}
	names := []string{"10.1.0.0/16", "10.2.0.0/16"}
	addpath := vBool("addpath")
	opt := &bgp.MarshallingOption{}
	if addpath {
		opt.AddPath = map[bgp.Family]bgp.BGPAddPathMode{bgp.RF_IPv4_UC: bgp.BGP_ADD_PATH_SEND}
	}
	// receiver view before and reference result: med+1 per key, 0 = absent
	var recv, ref [2][2]uint32
	for p := 0; p < 2; p++ {
		for id := 0; id < 2; id++ {
			had := uint32(vU8("had")&1) * 1000 // arbitrary prior state without forking
			recv[p][id], ref[p][id] = had, had
		}
	}
	var changes []*Path
	for i := 0; i < k; i++ {
		c := vChoice("change", 16)
		pi, id, wd, set := c&1, uint32(c>>1&1), c>>2&1 == 1, c>>3&1
		if !addpath {
			id = 0
		}
		p := &Path{info: &originInfo{nlri: prefixes[pi], nlriString: names[pi], source: localSource}, family: bgp.RF_IPv4_UC, localID: id, IsWithdraw: wd}
		if !wd {
			p.pathAttrs = c11attrs(set)
			ref[pi][id] = uint32(100+set) + 1
		} else {
			p.pathAttrs = c11attrs(set) // a withdrawal still carries the attributes of the route it withdraws
			ref[pi][id] = 0
		}
		changes = append(changes, p)
	}
	msgs := CreateUpdateMsgFromPaths(changes, opt)
	for _, m := range msgs {
		u := m.Body.(*bgp.BGPUpdate)
		for _, w := range u.WithdrawnRoutes {
			pi := 0
			if w.NLRI.(*bgp.IPAddrPrefix).Prefix == prefixes[1].Prefix {
				pi = 1
			}
			recv[pi][w.ID] = 0
		}
		med := uint32(0)
		for _, a := range u.PathAttributes {
			if ma, ok := a.(*bgp.PathAttributeMultiExitDisc); ok {
				med = ma.Value + 1
			}
		}
		for _, n := range u.NLRI {
			pi := 0
			if n.NLRI.(*bgp.IPAddrPrefix).Prefix == prefixes[1].Prefix {
				pi = 1
			}
			vAssert(med != 0, "announcement without its route's attributes")
			recv[pi][n.ID] = med
		}
	}
	vAssert(recv == ref, "applying the emitted messages differs from applying the changes one at a time")
	vReach("end")
}

// ---- MP packer (IPv6 unicast): same size obligation with the NLRI inside MP_REACH_NLRI ----

func c11path6(attrLen uint16, c byte, key string) *Path {
	unk := bgp.NewPathAttributeUnknown(bgp.BGP_ATTR_FLAG_OPTIONAL|bgp.BGP_ATTR_FLAG_TRANSITIVE, 250, []byte{1, 2, 3})
	unk.Length = attrLen
	nlri, _ := bgp.NewIPAddrPrefix(netip.PrefixFrom(netip.AddrFrom16([16]byte{0x20, 0x01, 0xd, 0xb8, c}), 48))
	mp, _ := bgp.NewPathAttributeMpReachNLRI(bgp.RF_IPv6_UC, []bgp.PathNLRI{{NLRI: nlri}}, netip.AddrFrom16([16]byte{0x20, 0x01, 0xd, 0xb8, 0xff, 0xff, 15: 1}))
	attrs := []bgp.PathAttributeInterface{
		bgp.NewPathAttributeOrigin(0),
		bgp.NewPathAttributeAsPath([]bgp.AsPathParamInterface{bgp.NewAs4PathParam(bgp.BGP_ASPATH_ATTR_TYPE_SEQ, []uint32{65001})}),
		mp,
		unk,
	}
	return &Path{info: &originInfo{nlri: nlri, nlriString: key, source: localSource}, pathAttrs: attrs, family: bgp.RF_IPv6_UC}
}

func VH_c11_v6size() {
	al := vU16("attrlen")
	ps := []*Path{c11path6(al, 1, "2001:db8:100::/48"), c11path6(al, 2, "2001:db8:200::/48")}
	ext := vBool("ext")
	msgs := CreateUpdateMsgFromPaths(ps, &bgp.MarshallingOption{ExtendedMessage: ext})
	carried := 0
	for _, m := range msgs {
		u := m.Body.(*bgp.BGPUpdate)
		total := 19 + 2 + 2
		n := 0
		for _, a := range u.PathAttributes {
			total += a.Len()
			if r, ok := a.(*bgp.PathAttributeMpReachNLRI); ok {
				n += len(r.Value)
			}
		}
		carried += n
		vAssert(total <= c11limit(ext) || n == 1, "MP message exceeds the session limit")
	}
	vAssert(carried == 2, "an IPv6 route was dropped or duplicated by the packer")
	vReach("end")
}

// ---- MP withdrawals: the per-message NLRI budget at its boundary. The NLRI byte length is made
// symbolic with OPAQUE-family NLRIs whose value is a buffer of symbolic length, so three withdrawals
// reach the budget boundary that otherwise needs hundreds of prefixes.
func VH_c11_mp_withdraw_size() {
	ext := vBool("ext")
	var ps []*Path
	lens := 0
	for i, k := range []string{"k1", "k2", "k3"} {
		val := vBytes("val", vParam("maxlen"), 0)
		n := bgp.NewOpaqueNLRI([]byte(k), val)
		lens += n.Len()
		ps = append(ps, &Path{info: &originInfo{nlri: n, nlriString: k, source: localSource}, family: bgp.RF_OPAQUE, IsWithdraw: true, localID: uint32(i)})
	}
	msgs := CreateUpdateMsgFromPaths(ps, &bgp.MarshallingOption{ExtendedMessage: ext})
	carried := 0
	for _, m := range msgs {
		u := m.Body.(*bgp.BGPUpdate)
		total := 19 + 2 + 2
		n := 0
		for _, a := range u.PathAttributes {
			total += a.Len()
			if r, ok := a.(*bgp.PathAttributeMpUnreachNLRI); ok {
				n += len(r.Value)
			}
		}
		carried += n
		vAssert(total <= c11limit(ext) || n == 1, "MP withdraw message exceeds the session limit")
	}
	vAssert(carried == 3, "an MP withdrawal was dropped or duplicated by the packer")
	vReach("end")
}

// ---- MP announcements: every prefix carries its own route's next hops; sharing only when identical ----
func c11v6(c byte, key string, gsel, llsel int) *Path {
	nlri, _ := bgp.NewIPAddrPrefix(netip.PrefixFrom(netip.AddrFrom16([16]byte{0x20, 0x01, 0xd, 0xb8, c}), 48))
	g := netip.AddrFrom16([16]byte{0x20, 0x01, 0xd, 0xb8, 0xff, 0xff, 15: byte(1 + gsel)})
	nhs := []netip.Addr{g}
	if llsel > 0 {
		nhs = append(nhs, netip.AddrFrom16([16]byte{0xfe, 0x80, 15: byte(llsel)}))
	}
	mp, _ := bgp.NewPathAttributeMpReachNLRI(bgp.RF_IPv6_UC, []bgp.PathNLRI{{NLRI: nlri}}, nhs...)
	attrs := []bgp.PathAttributeInterface{
		bgp.NewPathAttributeOrigin(0),
		bgp.NewPathAttributeAsPath([]bgp.AsPathParamInterface{bgp.NewAs4PathParam(bgp.BGP_ASPATH_ATTR_TYPE_SEQ, []uint32{65001})}),
		mp,
	}
	return &Path{info: &originInfo{nlri: nlri, nlriString: key, source: localSource}, pathAttrs: attrs, family: bgp.RF_IPv6_UC}
}

func VH_c11_mp_nexthops() {
	s1, s2 := vChoice("nh", 6), vChoice("nh", 6)
	ps := []*Path{c11v6(1, "2001:db8:100::/48", s1&1, s1>>1), c11v6(2, "2001:db8:200::/48", s2&1, s2>>1)}
	msgs := CreateUpdateMsgFromPaths(ps, &bgp.MarshallingOption{})
	seen := 0
	for _, m := range msgs {
		u := m.Body.(*bgp.BGPUpdate)
		for _, a := range u.PathAttributes {
			r, ok := a.(*bgp.PathAttributeMpReachNLRI)
			if !ok {
				continue
			}
			for _, n := range r.Value {
				seen++
				own := ps[0]
				if n.NLRI.(*bgp.IPAddrPrefix).Prefix == ps[1].GetNlri().(*bgp.IPAddrPrefix).Prefix {
					own = ps[1]
				}
				want := own.getPathAttr(bgp.BGP_ATTR_TYPE_MP_REACH_NLRI).(*bgp.PathAttributeMpReachNLRI)
				vAssert(r.Nexthop == want.Nexthop && r.LinkLocalNexthop == want.LinkLocalNexthop, "announced prefix does not carry its own route's next hops")
			}
		}
	}
	vAssert(seen == 2, "an IPv6 announcement was dropped or duplicated")
	vReach("end")
}

// C11 (IPv4 routes with an IPv6 next hop, RFC 8950, on an ADD-PATH session): two paths of one
// prefix under different (symbolic) path identifiers, each with its own next hop. The messages,
// serialised and parsed back under the same options, give the receiver both paths under their own
// identifiers and next hops; a withdrawal removes exactly its identifier.
func VH_c11_v4_over_v6() {
	nlri, _ := bgp.NewIPAddrPrefix(netip.MustParsePrefix("10.20.30.0/24"))
	id1, id2 := vU32("path_id"), vU32("path_id")
	vAssume(id1 != 0 && id2 != 0 && id1 != id2)
	mk := func(id uint32, nh byte, withdraw bool) *Path {
		mp, _ := bgp.NewPathAttributeMpReachNLRI(bgp.RF_IPv4_UC, []bgp.PathNLRI{{NLRI: nlri}}, netip.AddrFrom16([16]byte{0x20, 0x01, 0xd, 0xb8, 15: nh}))
		attrs := []bgp.PathAttributeInterface{bgp.NewPathAttributeOrigin(0),
			bgp.NewPathAttributeAsPath([]bgp.AsPathParamInterface{bgp.NewAs4PathParam(bgp.BGP_ASPATH_ATTR_TYPE_SEQ, []uint32{65001})}), mp}
		p := &Path{info: &originInfo{nlri: nlri, nlriString: "10.20.30.0/24", source: localSource}, pathAttrs: attrs, family: bgp.RF_IPv4_UC, IsWithdraw: withdraw}
		p.localID = id
		return p
	}
	ps := []*Path{mk(id1, 1, false), mk(id2, 2, false)}
	if vBool("then_withdraw_first") {
		ps = append(ps, mk(id1, 1, true))
	}
	opt := &bgp.MarshallingOption{AddPath: map[bgp.Family]bgp.BGPAddPathMode{bgp.RF_IPv4_UC: bgp.BGP_ADD_PATH_BOTH}}
	// the receiver's table: one slot per identifier in use, anything else is recorded as a stray
	var have [2]bool
	var nhOf [2]byte
	stray := false
	put := func(id uint32, nh byte, present bool) {
		switch id {
		case id1:
			have[0], nhOf[0] = present, nh
		case id2:
			have[1], nhOf[1] = present, nh
		default:
			stray = true
		}
	}
	for _, m := range CreateUpdateMsgFromPaths(ps, opt) {
		b, err := m.Serialize(opt)
		vAssert(err == nil && len(b) <= 4096, "a message of the packer cannot be serialised within the limit")
		if err != nil {
			return
		}
		back, err := bgp.ParseBGPMessage(b, opt)
		vAssert(err == nil, "a message of the packer does not parse under the session's options")
		if err != nil {
			return
		}
		u := back.Body.(*bgp.BGPUpdate)
		for _, w := range u.WithdrawnRoutes {
			put(w.ID, 0, false)
		}
		for _, a := range u.PathAttributes {
			switch x := a.(type) {
			case *bgp.PathAttributeMpReachNLRI:
				for _, n := range x.Value {
					put(n.ID, x.Nexthop.As16()[15], true)
				}
			case *bgp.PathAttributeMpUnreachNLRI:
				for _, n := range x.Value {
					put(n.ID, 0, false)
				}
			}
		}
	}
	vAssert(!stray, "a path arrives under a path identifier that is not its own")
	vAssert(have[0] == (len(ps) == 2) && have[1], "the receiver does not hold one path per announced and un-withdrawn path identifier")
	vAssert((!have[0] || nhOf[0] == 1) && nhOf[1] == 2, "a path does not arrive with its own next hop")
	vReach("end")
}
