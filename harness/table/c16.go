package table

import (
	"net/netip"

	"github.com/osrg/gobgp/v4/pkg/config/oc"
	"github.com/osrg/gobgp/v4/pkg/packet/bgp"
)

// C16: RPKI origin validation (RFC 6811) over a ROA table maintained by Add / Delete / DeleteAll.
// Prefix bits come from a concrete nested family (the radix tree is keyed on them); max-length,
// AS numbers, origin AS, local AS and the operation sequence are symbolic / forked.

type c16pfx struct {
	b    []byte
	bits int
}

var c16roaPfx4 = []c16pfx{{[]byte{10, 0, 0, 0}, 8}, {[]byte{10, 1, 0, 0}, 16}, {[]byte{10, 1, 1, 0}, 24}, {[]byte{192, 0, 2, 0}, 24}}
var c16routePfx4 = []c16pfx{{[]byte{10, 1, 1, 0}, 24}, {[]byte{10, 1, 0, 0}, 16}, {[]byte{10, 2, 0, 0}, 16}, {[]byte{10, 1, 1, 128}, 25}, {[]byte{192, 0, 2, 0}, 25}, {[]byte{172, 16, 0, 0}, 12}}

// the same nesting in IPv6: /32 > /48 > /64, an unrelated /48, routes inside, beside and below them
func c16v6(b ...byte) []byte { return append(b, make([]byte, 16-len(b))...) }

var c16roaPfx6 = []c16pfx{{c16v6(0x20, 0x01, 0x0d, 0xb8), 32}, {c16v6(0x20, 0x01, 0x0d, 0xb8, 0, 1), 48}, {c16v6(0x20, 0x01, 0x0d, 0xb8, 0, 1, 0, 1), 64}, {c16v6(0x20, 0x01, 0x0d, 0xb9, 0, 2), 48}}
var c16routePfx6 = []c16pfx{{c16v6(0x20, 0x01, 0x0d, 0xb8, 0, 1, 0, 1), 64}, {c16v6(0x20, 0x01, 0x0d, 0xb8, 0, 1), 48}, {c16v6(0x20, 0x01, 0x0d, 0xb8, 0, 2), 48}, {c16v6(0x20, 0x01, 0x0d, 0xb8, 0, 1, 0, 1, 0x80), 65}, {c16v6(0x20, 0x01, 0x0d, 0xb9, 0, 2), 49}, {c16v6(0x20, 0x02), 16}}

var c16roaPfx, c16routePfx []c16pfx

func c16covers(r, p c16pfx) bool {
	if r.bits > p.bits {
		return false
	}
	for i := 0; i < r.bits; i++ {
		if (r.b[i/8]>>(7-uint(i%8)))&1 != (p.b[i/8]>>(7-uint(i%8)))&1 {
			return false
		}
	}
	return true
}

type c16rec struct {
	pi     int
	maxLen uint8
	as     uint32
	src    string
}

func VH_c16_validate() {
	afi, fam, maxBits := bgp.AFI_IP, bgp.RF_IPv4_UC, 32
	c16roaPfx, c16routePfx = c16roaPfx4, c16routePfx4
	if vParam("v6") == 1 {
		afi, fam, maxBits = bgp.AFI_IP6, bgp.RF_IPv6_UC, 128
		c16roaPfx, c16routePfx = c16roaPfx6, c16routePfx6
	}
	rt := NewROATable(c14logger())
	var model []c16rec
	n := vParam("roas")
	srcs := []string{"cacheA", "cacheB"}
	for i := 0; i < n; i++ {
		pi := vChoice("roa_pfx", len(c16roaPfx))
		ml := vU8("maxlen")
		vAssume(int(ml) >= c16roaPfx[pi].bits && int(ml) <= maxBits)
		as := vU32("roa_as")
		src := srcs[vChoice("src", 2)]
		rt.Add(NewROA(afi, c16roaPfx[pi].b, uint8(c16roaPfx[pi].bits), ml, as, src))
		dup := false
		for _, m := range model {
			if m.pi == pi && m.maxLen == ml && m.as == as && m.src == src {
				dup = true
			}
		}
		if !dup {
			model = append(model, c16rec{pi, ml, as, src})
		}
	}
	// one maintenance operation: nothing, withdraw one record (possibly unknown), or drop a cache
	switch vChoice("op", 4) {
	case 1: // withdraw an announced record
		k := vChoice("which", n)
		if k < len(model) {
			m := model[k]
			rt.Delete(NewROA(afi, c16roaPfx[m.pi].b, uint8(c16roaPfx[m.pi].bits), m.maxLen, m.as, m.src))
			model = append(model[:k:k], model[k+1:]...)
		}
	case 2: // withdraw a record that was never announced: no effect
		rt.Delete(NewROA(afi, c16roaPfx[3].b, uint8(c16roaPfx[3].bits), uint8(c16roaPfx[3].bits), 4200000001, "cacheA"))
		for _, m := range model {
			vAssume(!(m.pi == 3 && int(m.maxLen) == c16roaPfx[3].bits && m.as == 4200000001 && m.src == "cacheA"))
		}
	case 3: // a cache server is removed
		rt.DeleteAll("cacheA")
		var keep []c16rec
		for _, m := range model {
			if m.src != "cacheA" {
				keep = append(keep, m)
			}
		}
		model = keep
	}
	// table content equals the records announced and not withdrawn
	l, _ := rt.List(fam)
	vAssert(len(l) == len(model), "ROA table differs from the records announced and not withdrawn")
	for _, r := range l {
		found := false
		for _, m := range model {
			ones, _ := r.Network.Mask.Size()
			same := len(r.Network.IP) == len(c16roaPfx[m.pi].b)
			for k := 0; same && k < len(r.Network.IP); k++ {
				same = r.Network.IP[k] == c16roaPfx[m.pi].b[k]
			}
			if ones == c16roaPfx[m.pi].bits && same && r.MaxLen == m.maxLen && r.AS == m.as && r.Src == m.src {
				found = true
			}
		}
		vAssert(found, "ROA table holds a record that is not announced")
	}
	// the route
	rp := c16routePfx[vChoice("route_pfx", len(c16routePfx))]
	localAS, origin, other := vU32("local_as"), vU32("origin_as"), vU32("other_as")
	var segs []bgp.AsPathParamInterface
	endsInSet := false
	effOrigin := origin
	shape := vChoice("aspath", 5)
	switch shape {
	case 0: // no AS_PATH attribute at all
		effOrigin = localAS
	case 1: // empty AS_PATH
		segs = []bgp.AsPathParamInterface{}
		effOrigin = localAS
	case 2:
		segs = []bgp.AsPathParamInterface{bgp.NewAs4PathParam(bgp.BGP_ASPATH_ATTR_TYPE_SEQ, []uint32{other, origin})}
	case 3:
		segs = []bgp.AsPathParamInterface{bgp.NewAs4PathParam(bgp.BGP_ASPATH_ATTR_TYPE_SEQ, []uint32{other}), bgp.NewAs4PathParam(bgp.BGP_ASPATH_ATTR_TYPE_SET, []uint32{origin, other})}
		endsInSet = true
	default:
		segs = []bgp.AsPathParamInterface{bgp.NewAs4PathParam(bgp.BGP_ASPATH_ATTR_TYPE_CONFED_SEQ, []uint32{other})}
		effOrigin = localAS
	}
	attrs := []bgp.PathAttributeInterface{bgp.NewPathAttributeOrigin(0)}
	if shape != 0 {
		attrs = append(attrs, bgp.NewPathAttributeAsPath(segs))
	}
	raddr, _ := netip.AddrFromSlice(rp.b)
	nlri, _ := bgp.NewIPAddrPrefix(netip.PrefixFrom(raddr, rp.bits))
	p := &Path{info: &originInfo{nlri: nlri, nlriString: "r", source: &PeerInfo{LocalAS: localAS, AS: other, Address: netip.AddrFrom4([4]byte{10, 0, 0, 1})}}, pathAttrs: attrs, family: fam}
	v := rt.Validate(p)
	vAssert(v != nil, "no validation result for a unicast route")
	// RFC 6811
	covered, matched := false, false
	for _, m := range model {
		if c16covers(c16roaPfx[m.pi], rp) {
			covered = true
			if int(m.maxLen) >= rp.bits && m.as != 0 && m.as == effOrigin {
				matched = true
			}
		}
	}
	want := oc.RPKI_VALIDATION_RESULT_TYPE_NOT_FOUND
	if !endsInSet {
		if matched {
			want = oc.RPKI_VALIDATION_RESULT_TYPE_VALID
		} else if covered {
			want = oc.RPKI_VALIDATION_RESULT_TYPE_INVALID
		}
	}
	vAssert(v.Status == want, "validation state differs from RFC 6811")
	// the policy condition sees the same verdict
	for _, res := range []oc.RpkiValidationResultType{oc.RPKI_VALIDATION_RESULT_TYPE_VALID, oc.RPKI_VALIDATION_RESULT_TYPE_INVALID, oc.RPKI_VALIDATION_RESULT_TYPE_NOT_FOUND} {
		c := &RpkiValidationCondition{result: res}
		vAssert(c.Evaluate(p, &PolicyOptions{Validate: rt.Validate}) == (res == want), "policy condition on the validation state disagrees with the verdict")
	}
	vReach("end")
}

// the origin AS of a route (RFC 6811 / RFC 5065): the last AS of a path that ends in an AS_SEQUENCE;
// none for a path that ends in an AS_SET (NotFound); the local AS for a route without AS_PATH, with an
// empty one, or whose path consists of confederation segments only - whichever confederation
// segment kind comes last. One covering ROA with a symbolic AS decides Valid / Invalid.
func VH_c16_origin_as() {
	rt := NewROATable(c14logger())
	roaAS := vU32("roa_as")
	vAssume(roaAS != 0)
	rt.Add(NewROA(bgp.AFI_IP, []byte{10, 0, 0, 0}, 8, 24, roaAS, "cacheA"))
	localAS, origin, other := vU32("local_as"), vU32("origin_as"), vU32("other_as")
	S := func(t uint8, as ...uint32) bgp.AsPathParamInterface { return bgp.NewAs4PathParam(t, as) }
	seq, set, cseq, cset := uint8(bgp.BGP_ASPATH_ATTR_TYPE_SEQ), uint8(bgp.BGP_ASPATH_ATTR_TYPE_SET), uint8(bgp.BGP_ASPATH_ATTR_TYPE_CONFED_SEQ), uint8(bgp.BGP_ASPATH_ATTR_TYPE_CONFED_SET)
	var segs []bgp.AsPathParamInterface
	eff, none := origin, false
	shape := vChoice("aspath", 9)
	switch shape {
	case 0, 1: // no AS_PATH / empty AS_PATH
		eff = localAS
	case 2:
		segs = []bgp.AsPathParamInterface{S(seq, other, origin)}
	case 3:
		segs = []bgp.AsPathParamInterface{S(seq, other), S(set, origin, other)}
		none = true
	case 4:
		segs = []bgp.AsPathParamInterface{S(cseq, other)}
		eff = localAS
	case 5:
		segs = []bgp.AsPathParamInterface{S(cset, other, origin)}
		eff = localAS
	case 6:
		segs = []bgp.AsPathParamInterface{S(cseq, other), S(cset, origin)}
		eff = localAS
	case 7:
		segs = []bgp.AsPathParamInterface{S(cseq, other), S(seq, other, origin)}
	default:
		segs = []bgp.AsPathParamInterface{S(cseq, other), S(set, origin)}
		none = true
	}
	attrs := []bgp.PathAttributeInterface{bgp.NewPathAttributeOrigin(0)}
	if shape != 0 {
		attrs = append(attrs, bgp.NewPathAttributeAsPath(segs))
	}
	nlri, _ := bgp.NewIPAddrPrefix(netip.PrefixFrom(netip.AddrFrom4([4]byte{10, 1, 0, 0}), 16))
	p := &Path{info: &originInfo{nlri: nlri, nlriString: "r", source: &PeerInfo{LocalAS: localAS, AS: other, Address: netip.AddrFrom4([4]byte{10, 0, 0, 1})}}, pathAttrs: attrs, family: bgp.RF_IPv4_UC}
	v := rt.Validate(p)
	vAssert(v != nil, "no validation result for a unicast route")
	want := oc.RPKI_VALIDATION_RESULT_TYPE_INVALID
	switch {
	case none:
		want = oc.RPKI_VALIDATION_RESULT_TYPE_NOT_FOUND
	case eff == roaAS:
		want = oc.RPKI_VALIDATION_RESULT_TYPE_VALID
	}
	vAssert(v.Status == want, "the origin AS used for validation is not the one RFC 6811 / RFC 5065 give for this AS_PATH shape")
	if shape >= 5 && shape <= 6 {
		vReach("confed_set_last")
	}
	vReach("end")
}
