package bfd

// C19 (BFD): decode safely for every byte string, and Marshal/Unmarshal are mutually inverse on
// valid headers.

func VH_c19_bfd_nopanic() {
	buf := vBytes("pkt", vParam("n"), 8)
	h := &BFDHeader{}
	err := h.UnmarshalBinary(buf)
	if err == nil {
		vReach("ok")
		// a decoded header is within the field ranges the format can carry
		vAssert(h.Version <= 7 && h.Diagnostic <= 31 && h.State <= 3, "decoded BFD header has an out-of-range field")
		out, err2 := h.MarshalBinary()
		vAssert(err2 == nil, "decoded BFD header cannot be re-encoded")
		// the re-encoding agrees with the input on every byte the format defines
		vAssert(out[0] == buf[0] && out[2] == buf[2], "re-encoding changed version/diag/mult")
		vAssert(out[1] == buf[1]&0xf0, "re-encoding changed state/poll/final")
		for i := 4; i < 20; i++ {
			vAssert(out[i] == buf[i], "re-encoding changed a discriminator/interval byte")
		}
	}
	vReach("end")
}

func VH_c19_bfd_roundtrip() {
	h := &BFDHeader{
		Version:               vU8("ver"),
		Diagnostic:            DiagnosticType(vU8("diag")),
		State:                 StateType(vU8("state")),
		Poll:                  vBool("poll"),
		Final:                 vBool("final"),
		DetectTimeMultiplier:  vU8("mult"),
		MyDiscriminator:       vU32("my"),
		YourDiscriminator:     vU32("your"),
		DesiredMinTxInterval:  vU32("tx"),
		RequiredMinRxInterval: vU32("rx"),
	}
	buf, err := h.MarshalBinary()
	if h.Validate() != nil {
		vAssert(err != nil, "invalid header was encoded")
		vReach("invalid")
		return
	}
	vAssert(err == nil && len(buf) == 24, "valid header not encoded to 24 bytes")
	g := &BFDHeader{}
	vAssert(g.UnmarshalBinary(buf) == nil, "own encoding rejected")
	vAssert(*g == *h, "BFD round trip changed the header")
	vReach("end")
}
