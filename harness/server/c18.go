package server

import (
	api "github.com/osrg/gobgp/v4/api"
	"github.com/osrg/gobgp/v4/pkg/apiutil"
	"github.com/osrg/gobgp/v4/pkg/packet/bgp"
	"github.com/osrg/gobgp/v4/internal/pkg/table"
	"github.com/osrg/gobgp/v4/pkg/config/oc"
)

// C18 (policy objects): a statement converted to its API form (as ListPolicy returns it) and back
// (as AddPolicy reads it) is the statement that was configured. Text-valued actions (MED, AS
// prepend) take each value of a listed set; numeric conditions and actions are symbolic.
func VH_c18_statement_roundtrip() {
	c := oc.Statement{Name: "s1"}
	c.Actions.RouteDisposition = []oc.RouteDisposition{oc.ROUTE_DISPOSITION_NONE, oc.ROUTE_DISPOSITION_ACCEPT_ROUTE, oc.ROUTE_DISPOSITION_REJECT_ROUTE}[vChoice("disposition", 3)]
	meds := []string{"", "0", "100", "+10", "-10", "-1", "+4294967295", "4294967295", "+0"}
	c.Actions.BgpActions.SetMed = oc.BgpSetMedType(meds[vChoice("med", len(meds))])
	c.Actions.BgpActions.SetLocalPref = vU32("local_pref")
	if vBool("prepend") {
		c.Actions.BgpActions.SetAsPathPrepend.As = []string{"65001", "last-as", "4200000000"}[vChoice("prepend_as", 3)]
		c.Actions.BgpActions.SetAsPathPrepend.RepeatN = vU8("repeat")
		vAssume(c.Actions.BgpActions.SetAsPathPrepend.RepeatN > 0)
	}
	c.Actions.BgpActions.SetRouteOrigin = []oc.BgpOriginAttrType{"", oc.BGP_ORIGIN_ATTR_TYPE_IGP, oc.BGP_ORIGIN_ATTR_TYPE_EGP, oc.BGP_ORIGIN_ATTR_TYPE_INCOMPLETE}[vChoice("set_origin", 4)]
	ops := []oc.AttributeComparison{"", oc.ATTRIBUTE_COMPARISON_EQ, oc.ATTRIBUTE_COMPARISON_GE, oc.ATTRIBUTE_COMPARISON_LE}
	c.Conditions.BgpConditions.AsPathLength.Operator = ops[vChoice("aspath_len_op", 4)]
	c.Conditions.BgpConditions.AsPathLength.Value = vU32("aspath_len")
	c.Conditions.BgpConditions.CommunityCount.Operator = ops[vChoice("community_count_op", 4)]
	c.Conditions.BgpConditions.CommunityCount.Value = vU32("community_count")
	c.Conditions.BgpConditions.LocalPrefEq = vU32("local_pref_eq")
	c.Conditions.BgpConditions.MedEq = vU32("med_eq")
	c.Conditions.BgpConditions.OriginEq = []oc.BgpOriginAttrType{"", oc.BGP_ORIGIN_ATTR_TYPE_IGP, oc.BGP_ORIGIN_ATTR_TYPE_EGP, oc.BGP_ORIGIN_ATTR_TYPE_INCOMPLETE}[vChoice("origin_eq", 4)]

	st, err := table.NewStatement(c)
	vAssume(err == nil && st != nil)
	want := st.ToConfig()
	ap := table.NewAPIPolicyFromTableStruct(&table.Policy{Name: "p1", Statements: []*table.Statement{st}})
	vAssert(ap != nil && len(ap.Statements) == 1 && ap.Statements[0] != nil, "a configured statement is missing from the policy's API form")
	back, err := newStatementFromApiStruct(ap.Statements[0])
	vAssert(err == nil && back != nil, "the API form of a statement cannot be converted back")
	if err != nil || back == nil {
		return
	}
	got := back.ToConfig()
	vAssert(got.Actions.RouteDisposition == want.Actions.RouteDisposition, "route disposition changes in the API round trip")
	vAssert(got.Actions.BgpActions.SetMed == want.Actions.BgpActions.SetMed, "the MED action changes in the API round trip")
	// ... and it still does the same thing to a route (the configuration text does not distinguish
	// a zero modifier from setting MED to 0)
	medOf := func(x *table.Statement) (uint32, bool) {
		nh, _ := bgp.NewPathAttributeNextHop(vAddr4(10, 0, 0, 1))
		p := table.NewPath(bgp.RF_IPv4_UC, nil, bgp.PathNLRI{NLRI: vPrefix4(10, 9, 0, 0, 16)}, false,
			[]bgp.PathAttributeInterface{bgp.NewPathAttributeOrigin(0), nh, bgp.NewPathAttributeMultiExitDisc(50)}, vTimeUnix(1), false)
		for _, a := range x.ModActions {
			if ma, ok := a.(*table.MedAction); ok {
				if _, err := ma.Apply(p, nil); err != nil {
					return 0, false
				}
			}
		}
		m, err := p.GetMed()
		return m, err == nil
	}
	m1, ok1 := medOf(st)
	m2, ok2 := medOf(back)
	vAssert(ok1 == ok2 && m1 == m2, "the MED action has a different effect on a route after the API round trip")
	vAssert(got.Actions.BgpActions.SetLocalPref == want.Actions.BgpActions.SetLocalPref, "the LOCAL_PREF action changes in the API round trip")
	vAssert(got.Actions.BgpActions.SetAsPathPrepend == want.Actions.BgpActions.SetAsPathPrepend, "the AS_PATH prepend action changes in the API round trip")
	vAssert(got.Actions.BgpActions.SetRouteOrigin == want.Actions.BgpActions.SetRouteOrigin, "the ORIGIN action changes in the API round trip")
	vAssert(got.Conditions.BgpConditions.AsPathLength == want.Conditions.BgpConditions.AsPathLength, "the AS_PATH length condition changes in the API round trip")
	vAssert(got.Conditions.BgpConditions.CommunityCount == want.Conditions.BgpConditions.CommunityCount, "the community count condition changes in the API round trip")
	vAssert(got.Conditions.BgpConditions.LocalPrefEq == want.Conditions.BgpConditions.LocalPrefEq, "the LOCAL_PREF condition changes in the API round trip")
	vAssert(got.Conditions.BgpConditions.MedEq == want.Conditions.BgpConditions.MedEq, "the MED condition changes in the API round trip")
	vAssert(got.Conditions.BgpConditions.OriginEq == want.Conditions.BgpConditions.OriginEq, "the ORIGIN condition changes in the API round trip")
	vReach("end")
}

// C18 (neighbour configuration): an API peer whose families carry different optional settings
// converts to the native configuration family by family: what one family omits is the default,
// not what an earlier family set; what a family sets arrives unchanged.
func VH_c18_neighbor_families() {
	sendMax, maxPfx, llgrTime := vU8("send_max"), vU32("max_prefixes"), vU32("llgr_time")
	full := &api.AfiSafi{
		Config:                   &api.AfiSafiConfig{Family: &api.Family{Afi: api.Family_AFI_IP, Safi: api.Family_SAFI_UNICAST}, Enabled: true},
		MpGracefulRestart:        &api.MpGracefulRestart{Config: &api.MpGracefulRestartConfig{Enabled: true}},
		AddPaths:                 &api.AddPaths{Config: &api.AddPathsConfig{Receive: true, SendMax: uint32(sendMax)}},
		PrefixLimits:             &api.PrefixLimit{MaxPrefixes: maxPfx, ShutdownThresholdPct: 80},
		LongLivedGracefulRestart: &api.LongLivedGracefulRestart{Config: &api.LongLivedGracefulRestartConfig{Enabled: true, RestartTime: llgrTime}},
		ApplyPolicy:              &api.ApplyPolicy{ImportPolicy: &api.PolicyAssignment{DefaultAction: api.RouteAction_ROUTE_ACTION_REJECT, Policies: []*api.Policy{{Name: "p1"}}}},
	}
	bare := &api.AfiSafi{Config: &api.AfiSafiConfig{Family: &api.Family{Afi: api.Family_AFI_IP6, Safi: api.Family_SAFI_UNICAST}, Enabled: true}}
	order := []*api.AfiSafi{full, bare}
	fi, bi := 0, 1
	if vBool("bare_family_first") {
		order, fi, bi = []*api.AfiSafi{bare, full}, 1, 0
	}
	p := &api.Peer{Conf: &api.PeerConf{NeighborAddress: "10.0.0.2", PeerAsn: vU32("peer_as")}, AfiSafis: order}
	c, err := newNeighborFromAPIStruct(p)
	vAssert(err == nil && c != nil && len(c.AfiSafis) == 2, "a well-formed API peer is refused")
	if err != nil || c == nil || len(c.AfiSafis) != 2 {
		return
	}
	f, b := c.AfiSafis[fi], c.AfiSafis[bi]
	vAssert(f.MpGracefulRestart.Config.Enabled && f.AddPaths.Config.Receive && f.AddPaths.Config.SendMax == sendMax && f.PrefixLimit.Config.MaxPrefixes == maxPfx &&
		f.LongLivedGracefulRestart.Config.Enabled && f.LongLivedGracefulRestart.Config.RestartTime == llgrTime && len(f.ApplyPolicy.Config.ImportPolicyList) == 1,
		"per-family settings of an API peer do not arrive in the native configuration")
	vAssert(!b.MpGracefulRestart.Config.Enabled && !b.AddPaths.Config.Receive && b.AddPaths.Config.SendMax == 0 && b.PrefixLimit.Config.MaxPrefixes == 0 &&
		!b.LongLivedGracefulRestart.Config.Enabled && b.LongLivedGracefulRestart.Config.RestartTime == 0 && len(b.ApplyPolicy.Config.ImportPolicyList) == 0,
		"a family that sets no options inherits those of another family of the same API peer")
	vAssert(c.Config.PeerAs == p.Conf.PeerAsn && f.Config.Enabled && b.Config.Enabled, "peer AS or family enablement lost in the conversion")
	vReach("end")
}

// C18 (API path): a path in its API form - as AddPathStream receives it - converts to the native
// path with the same prefix, path identifier, withdraw flag and attributes; the API form produced
// for a listed path converts back to the same values.
func VH_c18_api2path() {
	prefix := vPrefix4(10, 1, 0, 0, 16)
	nh, _ := bgp.NewPathAttributeNextHop(vAddr4(10, 0, 0, 9))
	attrs := []bgp.PathAttributeInterface{bgp.NewPathAttributeOrigin(vU8("origin") % 3), nh, bgp.NewPathAttributeMultiExitDisc(vU32("med")),
		bgp.NewPathAttributeAsPath([]bgp.AsPathParamInterface{bgp.NewAs4PathParam(bgp.BGP_ASPATH_ATTR_TYPE_SEQ, []uint32{vU32("as")})})}
	native := &apiutil.Path{Family: bgp.RF_IPv4_UC, Nlri: prefix, Attrs: attrs, RemoteID: vU32("path_id"), Withdrawal: vBool("withdraw"), IsFromExternal: vBool("from_external")}
	ap := toPathApi(native, false, false, false)
	vAssert(ap != nil && ap.Identifier == native.RemoteID && ap.IsWithdraw == native.Withdrawal, "the API form of a path loses its identifier or withdraw flag")
	back, err := api2apiutilPath(ap)
	vAssert(err == nil && back != nil, "the API form of a path cannot be converted back")
	if err == nil && back != nil {
		vAssert(back.RemoteID == native.RemoteID && back.Withdrawal == native.Withdrawal && back.IsFromExternal == native.IsFromExternal && back.Nlri.String() == prefix.String() && len(back.Attrs) == len(attrs), "API path -> native path loses the identifier, a flag, the prefix or an attribute")
	}
	tp, err := api2Path(api.TableType_TABLE_TYPE_GLOBAL, ap, false)
	vAssert(err == nil && tp != nil, "the API form of a path is refused by the streaming conversion")
	if err != nil || tp == nil {
		return
	}
	vAssert(tp.GetNlri().String() == prefix.String() && tp.IsWithdraw == native.Withdrawal, "the streaming conversion changes the prefix or the withdraw flag")
	vAssert(tp.RemoteID() == native.RemoteID, "the streaming conversion drops the path identifier")
	m, merr := tp.GetMed()
	vAssert(merr == nil && m == attrs[2].(*bgp.PathAttributeMultiExitDisc).Value && len(tp.GetAsList()) == 1, "the streaming conversion changes an attribute")
	vReach("end")
}
