package server

import (
	"github.com/osrg/gobgp/v4/internal/pkg/table"
	"github.com/osrg/gobgp/v4/pkg/config/oc"
)

// C18 (policy objects): a statement converted to its API form (as ListPolicy returns it) and back
// (as AddPolicy reads it) is the statement that was configured. Text-valued actions (MED, AS
// prepend) take each value of a listed set; numeric conditions and actions are symbolic.
func VH_c18_statement_roundtrip() {
	c := oc.Statement{Name: "s1"}
	c.Actions.RouteDisposition = []oc.RouteDisposition{oc.ROUTE_DISPOSITION_NONE, oc.ROUTE_DISPOSITION_ACCEPT_ROUTE, oc.ROUTE_DISPOSITION_REJECT_ROUTE}[vChoice("disposition", 3)]
	meds := []string{"", "0", "100", "+10", "-10", "-1", "+4294967295", "4294967295"}
	c.Actions.BgpActions.SetMed = oc.BgpSetMedType(meds[vChoice("med", len(meds))])
	c.Actions.BgpActions.SetLocalPref = vU32("local_pref")
	if vBool("prepend") {
		c.Actions.BgpActions.SetAsPathPrepend.As = []string{"65001", "last-as", "4200000000"}[vChoice("prepend_as", 3)]
		c.Actions.BgpActions.SetAsPathPrepend.RepeatN = vU8("repeat")
		vAssume(c.Actions.BgpActions.SetAsPathPrepend.RepeatN > 0)
	}
	c.Actions.BgpActions.SetRouteOrigin = []oc.BgpOriginAttrType{"", oc.BGP_ORIGIN_ATTR_TYPE_IGP, oc.BGP_ORIGIN_ATTR_TYPE_EGP, oc.BGP_ORIGIN_ATTR_TYPE_INCOMPLETE}[vChoice("set_origin", 4)]
	ops := []oc.AttributeComparison{"", oc.ATTRIBUTE_COMPARISON_EQ, oc.ATTRIBUTE_COMPARISON_GE, oc.ATTRIBUTE_COMPARISON_LE}
	c.Conditions.BgpConditions.AsPathLength.Operator = ops[vChoice("aspath_len_op", 4)]
	c.Conditions.BgpConditions.AsPathLength.Value = vU32("aspath_len")
	c.Conditions.BgpConditions.CommunityCount.Operator = ops[vChoice("community_count_op", 4)]
	c.Conditions.BgpConditions.CommunityCount.Value = vU32("community_count")
	c.Conditions.BgpConditions.LocalPrefEq = vU32("local_pref_eq")
	c.Conditions.BgpConditions.MedEq = vU32("med_eq")
	c.Conditions.BgpConditions.OriginEq = []oc.BgpOriginAttrType{"", oc.BGP_ORIGIN_ATTR_TYPE_IGP, oc.BGP_ORIGIN_ATTR_TYPE_EGP, oc.BGP_ORIGIN_ATTR_TYPE_INCOMPLETE}[vChoice("origin_eq", 4)]

	st, err := table.NewStatement(c)
	vAssume(err == nil && st != nil)
	want := st.ToConfig()
	ap := table.NewAPIPolicyFromTableStruct(&table.Policy{Name: "p1", Statements: []*table.Statement{st}})
	vAssert(ap != nil && len(ap.Statements) == 1 && ap.Statements[0] != nil, "a configured statement is missing from the policy's API form")
	back, err := newStatementFromApiStruct(ap.Statements[0])
	vAssert(err == nil && back != nil, "the API form of a statement cannot be converted back")
	if err != nil || back == nil {
		return
	}
	got := back.ToConfig()
	vAssert(got.Actions.RouteDisposition == want.Actions.RouteDisposition, "route disposition changes in the API round trip")
	vAssert(got.Actions.BgpActions.SetMed == want.Actions.BgpActions.SetMed, "the MED action changes in the API round trip")
	vAssert(got.Actions.BgpActions.SetLocalPref == want.Actions.BgpActions.SetLocalPref, "the LOCAL_PREF action changes in the API round trip")
	vAssert(got.Actions.BgpActions.SetAsPathPrepend == want.Actions.BgpActions.SetAsPathPrepend, "the AS_PATH prepend action changes in the API round trip")
	vAssert(got.Actions.BgpActions.SetRouteOrigin == want.Actions.BgpActions.SetRouteOrigin, "the ORIGIN action changes in the API round trip")
	vAssert(got.Conditions.BgpConditions.AsPathLength == want.Conditions.BgpConditions.AsPathLength, "the AS_PATH length condition changes in the API round trip")
	vAssert(got.Conditions.BgpConditions.CommunityCount == want.Conditions.BgpConditions.CommunityCount, "the community count condition changes in the API round trip")
	vAssert(got.Conditions.BgpConditions.LocalPrefEq == want.Conditions.BgpConditions.LocalPrefEq, "the LOCAL_PREF condition changes in the API round trip")
	vAssert(got.Conditions.BgpConditions.MedEq == want.Conditions.BgpConditions.MedEq, "the MED condition changes in the API round trip")
	vAssert(got.Conditions.BgpConditions.OriginEq == want.Conditions.BgpConditions.OriginEq, "the ORIGIN condition changes in the API round trip")
	vReach("end")
}
