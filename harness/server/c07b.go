package server

import (
	"context"
	"errors"
	"net"
	"net/netip"
	"sync"
	"syscall"
	"time"

	"github.com/osrg/gobgp/v4/pkg/packet/bgp"
)

// C07 (active peer, administrative disable): the real fsmHandler.loop of a non-passive peer starts
// in Active; its outgoing connection manager dials (engine: the dialer hands out a scripted
// transport; natively: a real loopback TCP connection to a listener of the harness), sends OPEN and
// waits for the peer's. The peer stays silent and the operator disables the neighbour (ManualStop,
// RFC 4271 8.2.2): the session reports Idle / admin down AND the pending outgoing connection is
// dropped and the manager stopped - the reported state matches what the speaker does on the wire.
type c07far struct { // the remote end of the outgoing connection
	v  *vConn   // engine
	mu sync.Mutex
	c  net.Conn // native
}

func (r *c07far) sawKeepalive() bool {
	if r.v != nil {
		_, _, _, ka, _ := r.v.written()
		return ka
	}
	return r.readType() == bgp.BGP_MSG_KEEPALIVE
}

func (r *c07far) sawOpen() bool {
	if r.v != nil {
		_, _, _, _, open := r.v.written()
		return open
	}
	return r.readType() == bgp.BGP_MSG_OPEN
}

// natively: the type of the next message on the accepted connection (0: none within a second)
func (r *c07far) readType() uint8 {
	r.mu.Lock()
	c := r.c
	r.mu.Unlock()
	if c == nil {
		return 0
	}
	b := make([]byte, 19)
	c.SetReadDeadline(time.Now().Add(time.Second))
	for n := 0; n < 19; {
		k, err := c.Read(b[n:])
		if err != nil {
			return 0
		}
		n += k
	}
	rest := make([]byte, int(b[16])<<8|int(b[17])-19)
	for n := 0; n < len(rest); {
		k, err := c.Read(rest[n:])
		if err != nil {
			return 0
		}
		n += k
	}
	return b[18]
}

func (r *c07far) closedByPeer() bool {
	if r.v != nil {
		return r.v.closed
	}
	r.mu.Lock()
	c := r.c
	r.mu.Unlock()
	c.SetReadDeadline(time.Now().Add(500 * time.Millisecond))
	_, err := c.Read(make([]byte, 1))
	if err == nil {
		return false
	}
	ne, ok := err.(net.Error)
	return !(ok && ne.Timeout())
}

func VH_c07_active_disable() {
	f, h, _ := c07fsm(bgp.BGP_FSM_ACTIVE, nil, true)
	f.conn = nil
	f.outgoingConnMgr = nil
	far := &c07far{}
	ev := vChoice("event", 2) // 0: the operator disables the neighbour; 1: the peer answers with a valid OPEN
	peerOpen, _ := bgp.NewBGPOpenMessage(65001, 90, vAddr4(2, 2, 2, 2), []bgp.OptionParameterInterface{
		bgp.NewOptionParameterCapability([]bgp.ParameterCapabilityInterface{bgp.NewCapFourOctetASNumber(65001)})})
	c := f.pConf.ReadCopy()
	c.Transport.Config.LocalAddress = netip.MustParseAddr("127.0.0.1")
	if vNative() {
		l, err := net.Listen("tcp", "127.0.0.1:0")
		if err != nil {
			panic(err)
		}
		defer l.Close()
		go func() {
			if conn, err := l.Accept(); err == nil {
				far.mu.Lock()
				far.c = conn
				far.mu.Unlock()
			}
		}()
		c.Config.NeighborAddress = netip.MustParseAddr("127.0.0.1")
		c.State.NeighborAddress = c.Config.NeighborAddress
		c.Transport.Config.RemotePort = uint16(l.Addr().(*net.TCPAddr).Port)
	} else {
		far.v = newVConn(nil, true)
		if ev == 1 { // the answer arrives 2 s after the manager starts to listen for it
			far.v = newVConn(c07wire(peerOpen), true)
			far.v.delay = 2 * time.Second
		}
		vDialFn = func(string) (net.Conn, error) { return far.v, nil }
	}
	f.pConf.Update(&c)
	type tr struct {
		next   bgp.FSMState
		reason fsmStateReasonType
	}
	var mu sync.Mutex
	var seen []tr
	h.callback = func(m *fsmMsg) {
		if m.MsgType == fsmMsgStateChange {
			mu.Lock()
			seen = append(seen, tr{m.MsgData.(bgp.FSMState), m.StateReason.Type})
			mu.Unlock()
		}
	}
	f.h = h
	ctx, cancel := context.WithCancel(context.Background())
	var wg sync.WaitGroup
	wg.Add(1)
	go h.loop(ctx, &wg)
	// the connect timer (0.75..1 x 2 s) runs out, the connection is made, our OPEN goes out
	<-time.After(3 * time.Second)
	vAssert(far.sawOpen(), "the active peer's outgoing connection did not carry an OPEN after the connect timer")
	vAssert(f.state.Load() == bgp.BGP_FSM_ACTIVE && f.outgoingConnMgr != nil && f.outgoingConnMgr.state.Load() == bgp.BGP_FSM_OPENSENT, "the session is not in Active with an OPEN sent on the outgoing connection")
	if ev == 1 {
		if vNative() {
			far.c.Write(c07wire(peerOpen))
		}
		<-time.After(3 * time.Second)
		mu.Lock()
		n := len(seen)
		var last tr
		if n > 0 {
			last = seen[n-1]
		}
		mu.Unlock()
		vAssert(n == 1 && last.next == bgp.BGP_FSM_OPENCONFIRM && last.reason == fsmOpenMsgReceived, "a valid OPEN answered on the outgoing connection does not take the Active session to OpenConfirm (exactly one transition)")
		vAssert(far.sawKeepalive(), "no KEEPALIVE was sent on the outgoing connection after its OPEN exchange")
		vAssert(f.recvOpen != nil && f.recvOpen.Body.(*bgp.BGPOpen).ID == vAddr4(2, 2, 2, 2), "the session does not continue with the OPEN received on the outgoing connection")
		vAssert(f.state.Load() == bgp.BGP_FSM_OPENCONFIRM, "the reported session state is not OpenConfirm")
		cancel()
		vReach("openconfirm")
		return
	}
	// the operator disables the neighbour
	f.adminStateCh <- adminStateOperation{State: adminStateDown}
	vEventually(func() bool { mu.Lock(); defer mu.Unlock(); return len(seen) >= 1 && f.state.Load() == bgp.BGP_FSM_IDLE })
	vSettle()
	mu.Lock()
	n := len(seen)
	var last tr
	if n > 0 {
		last = seen[n-1]
	}
	mu.Unlock()
	vAssert(n == 1 && last.next == bgp.BGP_FSM_IDLE && last.reason == fsmAdminDown, "disabling an Active peer does not report exactly one transition to Idle (administrative down)")
	vAssert(f.state.Load() == bgp.BGP_FSM_IDLE && f.adminState.Load() == adminStateDown && f.pConf.ReadOnly().State.AdminDown, "the reported session / admin state after the disable is not Idle / down")
	vAssert(far.closedByPeer(), "after the administrative disable the outgoing connection that carries our OPEN is still open (ManualStop must drop it and release the connection manager)")
	vAssert(f.outgoingConnMgr.ctx.Err() != nil, "after the administrative disable the outgoing connection manager is still running")
	// silence: a disabled peer stays Idle and does not dial again
	<-time.After(5 * time.Second)
	mu.Lock()
	n = len(seen)
	mu.Unlock()
	vAssert(n == 1 && f.state.Load() == bgp.BGP_FSM_IDLE, "a disabled peer left Idle on its own")
	cancel()
	vReach("disabled")
}

// the accept path sets socket options on the connection (netutils: conn.(syscall.Conn)); the
// scripted transport has no socket and says so (the options are outside every claim)
func (c *vConn) SyscallConn() (syscall.RawConn, error) {
	return nil, errors.New("scripted transport: no socket")
}

// C07 (whole session through the real loop): a passive peer's fsmHandler.loop runs from Idle on the
// virtual clock: idle hold timer -> Active, an inbound connection -> OpenSent (our OPEN goes out),
// the peer's OPEN -> OpenConfirm (KEEPALIVE goes out), its KEEPALIVE -> Established, then one of the
// endings. The sequence of reported transitions is exactly the RFC 4271 one for the script, every
// consecutive pair is a legal transition, Established is only reported after OPEN and KEEPALIVE were
// received, and the NOTIFICATION on the wire is the prescribed one.
const (
	c07lSilence      = iota // Established, then silence: hold timer (3 s) expires
	c07lNotification        // Established, then the peer sends Cease
	c07lDisable             // Established, then the operator disables the neighbour
	c07lBadOpen             // the peer's OPEN carries the wrong AS
	c07lUpdateEarly         // the peer sends an UPDATE instead of the KEEPALIVE that confirms the OPEN
	c07lN
)

func c07legal(from, to bgp.FSMState) bool {
	switch from {
	case bgp.BGP_FSM_IDLE:
		return to == bgp.BGP_FSM_ACTIVE
	case bgp.BGP_FSM_ACTIVE:
		return to == bgp.BGP_FSM_OPENSENT || to == bgp.BGP_FSM_OPENCONFIRM || to == bgp.BGP_FSM_IDLE
	case bgp.BGP_FSM_OPENSENT:
		return to == bgp.BGP_FSM_OPENCONFIRM || to == bgp.BGP_FSM_ACTIVE || to == bgp.BGP_FSM_IDLE
	case bgp.BGP_FSM_OPENCONFIRM:
		return to == bgp.BGP_FSM_ESTABLISHED || to == bgp.BGP_FSM_IDLE
	case bgp.BGP_FSM_ESTABLISHED:
		return to == bgp.BGP_FSM_IDLE
	}
	return false
}

func VH_c07_lifecycle() {
	ending := vChoice("ending", c07lN)
	open, _ := bgp.NewBGPOpenMessage(65001, 3, vAddr4(2, 2, 2, 2), []bgp.OptionParameterInterface{
		bgp.NewOptionParameterCapability([]bgp.ParameterCapabilityInterface{bgp.NewCapFourOctetASNumber(65001), bgp.NewCapMultiProtocol(bgp.RF_IPv4_UC)})})
	if ending == c07lBadOpen {
		open.Body.(*bgp.BGPOpen).MyAS = 65009
		open.Body.(*bgp.BGPOpen).OptParams = nil
	}
	in := c07wire(open)
	switch ending {
	case c07lSilence, c07lDisable:
		in = append(in, c07wire(bgp.NewBGPKeepAliveMessage())...)
	case c07lNotification:
		in = append(in, c07wire(bgp.NewBGPKeepAliveMessage())...)
		in = append(in, c07wire(bgp.NewBGPNotificationMessage(bgp.BGP_ERROR_CEASE, bgp.BGP_ERROR_SUB_PEER_DECONFIGURED, nil))...)
	case c07lUpdateEarly:
		in = append(in, c07wire(vUpdate4(vPrefix4(10, 1, 0, 0, 16), false, []uint32{65001}, vAddr4(10, 0, 0, 2)))...)
	}
	f, h, conn := c07fsm(bgp.BGP_FSM_IDLE, in, true)
	f.conn = nil
	f.outgoingConnMgr = nil
	c := f.pConf.ReadCopy()
	c.Transport.Config.PassiveMode = true
	f.pConf.Update(&c)
	f.idleHoldTime = 1
	type tr struct {
		next   bgp.FSMState
		reason fsmStateReasonType
		open   bool // our view at the time of the report
		ka     bool
	}
	var mu sync.Mutex
	var seen []tr
	routed := 0
	h.callback = func(m *fsmMsg) {
		mu.Lock()
		defer mu.Unlock()
		switch m.MsgType {
		case fsmMsgStateChange:
			seen = append(seen, tr{next: m.MsgData.(bgp.FSMState), reason: m.StateReason.Type, open: f.recvOpen != nil, ka: conn.consumed()})
		case fsmMsgBGPMessage:
			routed++
		}
	}
	f.h = h
	ctx, cancel := context.WithCancel(context.Background())
	defer cancel()
	var wg sync.WaitGroup
	wg.Add(1)
	go h.loop(ctx, &wg)
	snapshot := func() []tr {
		mu.Lock()
		defer mu.Unlock()
		return append([]tr(nil), seen...)
	}
	states := func(l []tr) []bgp.FSMState {
		r := make([]bgp.FSMState, len(l))
		for i := range l {
			r[i] = l[i].next
		}
		return r
	}
	same := func(a []bgp.FSMState, b ...bgp.FSMState) bool {
		if len(a) != len(b) {
			return false
		}
		for i := range a {
			if a[i] != b[i] {
				return false
			}
		}
		return true
	}
	<-time.After(1500 * time.Millisecond)
	l := snapshot()
	vAssert(same(states(l), bgp.BGP_FSM_ACTIVE) && l[0].reason == fsmIdleTimerExpired, "the idle hold timer (1 s) does not take an enabled peer from Idle to Active, and nowhere else")
	f.connCh <- conn // the peer connects
	<-time.After(1 * time.Second)
	l = snapshot()
	_, _, _, sentKA, sentOpen := conn.written()
	vAssert(sentOpen, "no OPEN was sent on the accepted connection")
	switch ending {
	case c07lSilence, c07lDisable:
		vAssert(same(states(l), bgp.BGP_FSM_ACTIVE, bgp.BGP_FSM_OPENSENT, bgp.BGP_FSM_OPENCONFIRM, bgp.BGP_FSM_ESTABLISHED), "OPEN then KEEPALIVE on the accepted connection do not take the session Active -> OpenSent -> OpenConfirm -> Established")
		vAssert(sentKA && l[3].open && l[3].ka, "Established was reported before the peer's OPEN and KEEPALIVE were received, or without our KEEPALIVE")
		vAssert(f.state.Load() == bgp.BGP_FSM_ESTABLISHED, "the reported session state is not Established")
	case c07lNotification:
		vAssert(same(states(l), bgp.BGP_FSM_ACTIVE, bgp.BGP_FSM_OPENSENT, bgp.BGP_FSM_OPENCONFIRM, bgp.BGP_FSM_ESTABLISHED, bgp.BGP_FSM_IDLE) && l[4].reason == fsmNotificationRecv, "a NOTIFICATION right after the session came up does not give ... -> Established -> Idle (notification received)")
	case c07lBadOpen:
		vAssert(same(states(l), bgp.BGP_FSM_ACTIVE, bgp.BGP_FSM_OPENSENT, bgp.BGP_FSM_IDLE), "an OPEN with the wrong AS does not give Active -> OpenSent -> Idle")
		code, sub, notif, _, _ := conn.written()
		vAssert(notif && code == bgp.BGP_ERROR_OPEN_MESSAGE_ERROR && sub == bgp.BGP_ERROR_SUB_BAD_PEER_AS && conn.closed, "an OPEN with the wrong AS is not refused with OPEN Message Error / Bad Peer AS and the connection closed")
	case c07lUpdateEarly:
		vAssert(same(states(l), bgp.BGP_FSM_ACTIVE, bgp.BGP_FSM_OPENSENT, bgp.BGP_FSM_OPENCONFIRM, bgp.BGP_FSM_IDLE), "an UPDATE in OpenConfirm does not give Active -> OpenSent -> OpenConfirm -> Idle")
		code, sub, notif, _, _ := conn.written()
		vAssert(notif && code == bgp.BGP_ERROR_FSM_ERROR && sub == bgp.BGP_ERROR_SUB_RECEIVE_UNEXPECTED_MESSAGE_IN_OPENCONFIRM_STATE && conn.closed, "an UPDATE in OpenConfirm is not refused with FSM Error / OpenConfirm (RFC 6608)")
	}
	switch ending {
	case c07lSilence:
		<-time.After(3 * time.Second) // 5.5 s: the hold timer (3 s from about 1.5 s) has run out
		l = snapshot()
		vAssert(len(l) == 5 && l[4].next == bgp.BGP_FSM_IDLE && l[4].reason == fsmHoldTimerExpired, "silence for the negotiated hold time (3 s) does not end the session with Idle (hold timer expired)")
		code, sub, notif, _, _ := conn.written()
		vAssert(notif && code == bgp.BGP_ERROR_HOLD_TIMER_EXPIRED && sub == 0 && conn.closed, "hold timer expiry is not announced with Hold Timer Expired and the connection closed")
	case c07lDisable:
		f.adminStateCh <- adminStateOperation{State: adminStateDown}
		vEventually(func() bool { return len(snapshot()) >= 5 && f.state.Load() == bgp.BGP_FSM_IDLE })
		l = snapshot()
		vAssert(len(l) == 5 && l[4].next == bgp.BGP_FSM_IDLE && l[4].reason == fsmAdminDown, "disabling an Established peer does not end the session with Idle (administrative down)")
		code, sub, notif, _, _ := conn.written()
		vAssert(notif && code == bgp.BGP_ERROR_CEASE && sub == bgp.BGP_ERROR_SUB_ADMINISTRATIVE_SHUTDOWN && conn.closed, "an administrative disable is not announced with Cease / Administrative Shutdown and the connection closed")
		<-time.After(8 * time.Second)
		l = snapshot()
		vAssert(len(l) == 5 && f.state.Load() == bgp.BGP_FSM_IDLE && f.adminState.Load() == adminStateDown, "a disabled peer left Idle on its own")
	}
	l = snapshot()
	prev := bgp.BGP_FSM_IDLE
	for _, t := range l {
		vAssert(c07legal(prev, t.next), "the session made a transition RFC 4271 does not have")
		prev = t.next
	}
	vAssert(routed == 0, "a routing message reached the server although none was sent in Established")
	vReach([]string{"hold_expired", "notification", "disabled", "bad_open", "update_in_openconfirm"}[ending])
}
