package server

import (
	"context"
	"net"
	"net/netip"
	"sync"
	"time"

	"github.com/osrg/gobgp/v4/pkg/packet/bgp"
)

// C07 (active peer, administrative disable): the real fsmHandler.loop of a non-passive peer starts
// in Active; its outgoing connection manager dials (engine: the dialer hands out a scripted
// transport; natively: a real loopback TCP connection to a listener of the harness), sends OPEN and
// waits for the peer's. The peer stays silent and the operator disables the neighbour (ManualStop,
// RFC 4271 8.2.2): the session reports Idle / admin down AND the pending outgoing connection is
// dropped and the manager stopped - the reported state matches what the speaker does on the wire.
type c07far struct { // the remote end of the outgoing connection
	v  *vConn   // engine
	mu sync.Mutex
	c  net.Conn // native
}

func (r *c07far) sawKeepalive() bool {
	if r.v != nil {
		_, _, _, ka, _ := r.v.written()
		return ka
	}
	return r.readType() == bgp.BGP_MSG_KEEPALIVE
}

func (r *c07far) sawOpen() bool {
	if r.v != nil {
		_, _, _, _, open := r.v.written()
		return open
	}
	return r.readType() == bgp.BGP_MSG_OPEN
}

// natively: the type of the next message on the accepted connection (0: none within a second)
func (r *c07far) readType() uint8 {
	r.mu.Lock()
	c := r.c
	r.mu.Unlock()
	if c == nil {
		return 0
	}
	b := make([]byte, 19)
	c.SetReadDeadline(time.Now().Add(time.Second))
	for n := 0; n < 19; {
		k, err := c.Read(b[n:])
		if err != nil {
			return 0
		}
		n += k
	}
	rest := make([]byte, int(b[16])<<8|int(b[17])-19)
	for n := 0; n < len(rest); {
		k, err := c.Read(rest[n:])
		if err != nil {
			return 0
		}
		n += k
	}
	return b[18]
}

func (r *c07far) closedByPeer() bool {
	if r.v != nil {
		return r.v.closed
	}
	r.mu.Lock()
	c := r.c
	r.mu.Unlock()
	c.SetReadDeadline(time.Now().Add(500 * time.Millisecond))
	_, err := c.Read(make([]byte, 1))
	if err == nil {
		return false
	}
	ne, ok := err.(net.Error)
	return !(ok && ne.Timeout())
}

func VH_c07_active_disable() {
	f, h, _ := c07fsm(bgp.BGP_FSM_ACTIVE, nil, true)
	f.conn = nil
	f.outgoingConnMgr = nil
	far := &c07far{}
	ev := vChoice("event", 2) // 0: the operator disables the neighbour; 1: the peer answers with a valid OPEN
	peerOpen, _ := bgp.NewBGPOpenMessage(65001, 90, vAddr4(2, 2, 2, 2), []bgp.OptionParameterInterface{
		bgp.NewOptionParameterCapability([]bgp.ParameterCapabilityInterface{bgp.NewCapFourOctetASNumber(65001)})})
	c := f.pConf.ReadCopy()
	c.Transport.Config.LocalAddress = netip.MustParseAddr("127.0.0.1")
	if vNative() {
		l, err := net.Listen("tcp", "127.0.0.1:0")
		if err != nil {
			panic(err)
		}
		defer l.Close()
		go func() {
			if conn, err := l.Accept(); err == nil {
				far.mu.Lock()
				far.c = conn
				far.mu.Unlock()
			}
		}()
		c.Config.NeighborAddress = netip.MustParseAddr("127.0.0.1")
		c.State.NeighborAddress = c.Config.NeighborAddress
		c.Transport.Config.RemotePort = uint16(l.Addr().(*net.TCPAddr).Port)
	} else {
		far.v = newVConn(nil, true)
		if ev == 1 { // the answer arrives 2 s after the manager starts to listen for it
			far.v = newVConn(c07wire(peerOpen), true)
			far.v.delay = 2 * time.Second
		}
		vDialFn = func(string) (net.Conn, error) { return far.v, nil }
	}
	f.pConf.Update(&c)
	type tr struct {
		next   bgp.FSMState
		reason fsmStateReasonType
	}
	var mu sync.Mutex
	var seen []tr
	h.callback = func(m *fsmMsg) {
		if m.MsgType == fsmMsgStateChange {
			mu.Lock()
			seen = append(seen, tr{m.MsgData.(bgp.FSMState), m.StateReason.Type})
			mu.Unlock()
		}
	}
	f.h = h
	ctx, cancel := context.WithCancel(context.Background())
	var wg sync.WaitGroup
	wg.Add(1)
	go h.loop(ctx, &wg)
	// the connect timer (0.75..1 x 2 s) runs out, the connection is made, our OPEN goes out
	<-time.After(3 * time.Second)
	vAssert(far.sawOpen(), "the active peer's outgoing connection did not carry an OPEN after the connect timer")
	vAssert(f.state.Load() == bgp.BGP_FSM_ACTIVE && f.outgoingConnMgr != nil && f.outgoingConnMgr.state.Load() == bgp.BGP_FSM_OPENSENT, "the session is not in Active with an OPEN sent on the outgoing connection")
	if ev == 1 {
		if vNative() {
			far.c.Write(c07wire(peerOpen))
		}
		<-time.After(3 * time.Second)
		mu.Lock()
		n := len(seen)
		var last tr
		if n > 0 {
			last = seen[n-1]
		}
		mu.Unlock()
		vAssert(n == 1 && last.next == bgp.BGP_FSM_OPENCONFIRM && last.reason == fsmOpenMsgReceived, "a valid OPEN answered on the outgoing connection does not take the Active session to OpenConfirm (exactly one transition)")
		vAssert(far.sawKeepalive(), "no KEEPALIVE was sent on the outgoing connection after its OPEN exchange")
		vAssert(f.recvOpen != nil && f.recvOpen.Body.(*bgp.BGPOpen).ID == vAddr4(2, 2, 2, 2), "the session does not continue with the OPEN received on the outgoing connection")
		vAssert(f.state.Load() == bgp.BGP_FSM_OPENCONFIRM, "the reported session state is not OpenConfirm")
		cancel()
		vReach("openconfirm")
		return
	}
	// the operator disables the neighbour
	f.adminStateCh <- adminStateOperation{State: adminStateDown}
	vSettle()
	mu.Lock()
	n := len(seen)
	var last tr
	if n > 0 {
		last = seen[n-1]
	}
	mu.Unlock()
	vAssert(n == 1 && last.next == bgp.BGP_FSM_IDLE && last.reason == fsmAdminDown, "disabling an Active peer does not report exactly one transition to Idle (administrative down)")
	vAssert(f.state.Load() == bgp.BGP_FSM_IDLE && f.adminState.Load() == adminStateDown && f.pConf.ReadOnly().State.AdminDown, "the reported session / admin state after the disable is not Idle / down")
	vAssert(far.closedByPeer(), "after the administrative disable the outgoing connection that carries our OPEN is still open (ManualStop must drop it and release the connection manager)")
	vAssert(f.outgoingConnMgr.ctx.Err() != nil, "after the administrative disable the outgoing connection manager is still running")
	// silence: a disabled peer stays Idle and does not dial again
	<-time.After(5 * time.Second)
	mu.Lock()
	n = len(seen)
	mu.Unlock()
	vAssert(n == 1 && f.state.Load() == bgp.BGP_FSM_IDLE, "a disabled peer left Idle on its own")
	cancel()
	vReach("disabled")
}
