package server

import (
	"context"
	"net"
	"time"

	"github.com/osrg/gobgp/v4/pkg/config/oc"
	"github.com/osrg/gobgp/v4/pkg/packet/bgp"
)

// C07: one step of the session state machine on the real handlers (opensent, openconfirm,
// established), driven by a scripted transport and the virtual clock. The reply written to the
// transport and the next state are compared with RFC 4271 section 8 / RFC 6608 written out here.

const (
	c07validOpen = iota
	c07badVersion
	c07badPeerAS
	c07badID
	c07badHoldTime
	c07keepalive
	c07update
	c07notification
	c07badMarker
	c07badLength
	c07badType
	c07remoteClose
	c07silence
	c07nEvents
)

func c07fsm(state bgp.FSMState, in []byte, silent bool) (*fsm, *fsmHandler, *vConn) {
	g := &oc.Global{}
	g.Config.As = 65000
	g.Config.RouterId = vAddr4(1, 1, 1, 1)
	c := vNeighbor(2, 65001, 65000, []bgp.Family{bgp.RF_IPv4_UC})
	c.Config.PeerType, c.State.PeerType = oc.PEER_TYPE_EXTERNAL, oc.PEER_TYPE_EXTERNAL
	c.Timers.Config.HoldTime, c.Timers.Config.KeepaliveInterval = 90, 30
	f := newFSM(g, c, state, vLogger())
	conn := newVConn(in, silent)
	f.conn = conn
	f.outgoingConnMgr = &outgoingConnManager{fsm: f, ctx: context.Background(), cancel: func() {}}
	f.outgoingConnMgr.state.Store(bgp.BGP_FSM_IDLE)
	h := &fsmHandler{fsm: f, outgoing: f.outgoingCh, callback: func(*fsmMsg) {}}
	return f, h, conn
}

func c07wire(m *bgp.BGPMessage) []byte {
	b, err := m.Serialize()
	if err != nil {
		panic(err)
	}
	return b
}

// the message (or silence, or close) the peer produces for an event of the alphabet, and the
// NOTIFICATION code/subcode a receiver must answer a malformed header or OPEN with
func c07event(ev int) (in []byte, silent bool, code, sub uint8) {
	open, _ := bgp.NewBGPOpenMessage(65001, 90, vAddr4(2, 2, 2, 2), []bgp.OptionParameterInterface{
		bgp.NewOptionParameterCapability([]bgp.ParameterCapabilityInterface{bgp.NewCapFourOctetASNumber(65001)})})
	body := open.Body.(*bgp.BGPOpen)
	silent = true
	switch ev {
	case c07validOpen:
		in = c07wire(open)
	case c07badVersion:
		v := vU8("version")
		vAssume(v != 4)
		body.Version = v
		in, code, sub = c07wire(open), bgp.BGP_ERROR_OPEN_MESSAGE_ERROR, bgp.BGP_ERROR_SUB_UNSUPPORTED_VERSION_NUMBER
	case c07badPeerAS:
		as := vU16("wrong_as")
		vAssume(as != 65001 && as != 0)
		body.MyAS = as
		body.OptParams = nil
		in, code, sub = c07wire(open), bgp.BGP_ERROR_OPEN_MESSAGE_ERROR, bgp.BGP_ERROR_SUB_BAD_PEER_AS
	case c07badID:
		body.ID = vAddr4(0, 0, 0, 0)
		in, code, sub = c07wire(open), bgp.BGP_ERROR_OPEN_MESSAGE_ERROR, bgp.BGP_ERROR_SUB_BAD_BGP_IDENTIFIER
	case c07badHoldTime:
		ht := vU16("hold")
		vAssume(ht == 1 || ht == 2)
		body.HoldTime = ht
		in, code, sub = c07wire(open), bgp.BGP_ERROR_OPEN_MESSAGE_ERROR, bgp.BGP_ERROR_SUB_UNACCEPTABLE_HOLD_TIME
	case c07keepalive:
		in = c07wire(bgp.NewBGPKeepAliveMessage())
	case c07update:
		in = c07wire(bgp.NewBGPUpdateMessage(nil, nil, nil))
	case c07notification:
		in = c07wire(bgp.NewBGPNotificationMessage(bgp.BGP_ERROR_CEASE, bgp.BGP_ERROR_SUB_PEER_DECONFIGURED, nil))
	case c07badMarker:
		in = c07wire(bgp.NewBGPKeepAliveMessage())
		k := vInt("marker_byte", 0, 15)
		x := vU8("marker_value")
		vAssume(x != 0xff)
		in[k] = x
		code, sub = bgp.BGP_ERROR_MESSAGE_HEADER_ERROR, bgp.BGP_ERROR_SUB_CONNECTION_NOT_SYNCHRONIZED
	case c07badLength:
		in = c07wire(bgp.NewBGPKeepAliveMessage())
		l := vU16("length")
		vAssume(l < 19 || l > 4096)
		in[16], in[17] = byte(l>>8), byte(l)
		code, sub = bgp.BGP_ERROR_MESSAGE_HEADER_ERROR, bgp.BGP_ERROR_SUB_BAD_MESSAGE_LENGTH
	case c07badType:
		in = c07wire(bgp.NewBGPKeepAliveMessage())
		t := vU8("type")
		vAssume(t == 0 || t > 5)
		in[18] = t
		code, sub = bgp.BGP_ERROR_MESSAGE_HEADER_ERROR, bgp.BGP_ERROR_SUB_BAD_MESSAGE_TYPE
	case c07remoteClose:
		silent = false
	case c07silence:
	}
	return
}

func VH_c07_opensent() {
	ev := vChoice("event", c07nEvents)
	in, silent, code, sub := c07event(ev)
	f, h, conn := c07fsm(bgp.BGP_FSM_OPENSENT, in, silent)
	vAssert(f.opensentHoldTime == 240, "the OpenSent hold timer is not the large value (4 minutes) RFC 4271 suggests")
	hold := vInt("opensent_hold", 2, 3)
	f.opensentHoldTime = float64(hold)
	next, reason := h.opensent(context.Background())
	gotCode, gotSub, notif, keepalive, _ := conn.written()
	switch ev {
	case c07validOpen:
		vAssert(next == bgp.BGP_FSM_OPENCONFIRM && keepalive && !notif, "a valid OPEN in OpenSent is not answered with KEEPALIVE and OpenConfirm")
		vAssert(f.recvOpen != nil, "the received OPEN is not kept for negotiation")
		vReach("openconfirm")
	case c07keepalive, c07update:
		vAssert(next == bgp.BGP_FSM_IDLE && notif && gotCode == bgp.BGP_ERROR_FSM_ERROR && gotSub == bgp.BGP_ERROR_SUB_RECEIVE_UNEXPECTED_MESSAGE_IN_OPENSENT_STATE, "an unexpected message in OpenSent is not answered with FSM Error / subcode 1 and Idle")
		vReach("fsm_error")
	case c07notification:
		vAssert(next == bgp.BGP_FSM_IDLE && conn.closed, "a NOTIFICATION in OpenSent does not end the connection in Idle")
	case c07remoteClose:
		vAssert(next == bgp.BGP_FSM_IDLE && !notif && conn.closed, "a connection closed by the peer in OpenSent does not lead to Idle")
		vReach("closed")
	case c07silence:
		vAssert(next == bgp.BGP_FSM_IDLE && notif && gotCode == bgp.BGP_ERROR_HOLD_TIMER_EXPIRED && gotSub == 0, "hold timer expiry in OpenSent is not answered with Hold Timer Expired and Idle")
		vAssert(reason.Type == fsmHoldTimerExpired && vElapsedSec() == uint64(hold), "the OpenSent hold timer does not fire at the instant it was set for")
		vReach("hold_expired")
	default:
		vAssert(next == bgp.BGP_FSM_IDLE && notif && gotCode == code && gotSub == sub, "a malformed header or unacceptable OPEN in OpenSent is not answered with the NOTIFICATION RFC 4271 prescribes and Idle")
		vAssert(conn.closed, "the connection is left open after a NOTIFICATION")
		vReach("refused")
	}
}

func VH_c07_openconfirm() {
	ev := vChoice("event", c07nEvents)
	vAssume(ev != c07badVersion && ev != c07badPeerAS && ev != c07badID && ev != c07badHoldTime) // any OPEN is unexpected here
	in, silent, code, sub := c07event(ev)
	f, h, conn := c07fsm(bgp.BGP_FSM_OPENCONFIRM, in, silent)
	hold := vInt("hold", 3, 4)
	conf := f.pConf.ReadCopy()
	conf.Timers.State.NegotiatedHoldTime, conf.Timers.State.KeepaliveInterval = float64(hold), float64(hold)/3
	f.pConf.Update(&conf)
	next, reason := h.openconfirm(context.Background())
	gotCode, gotSub, notif, _, _ := conn.written()
	switch ev {
	case c07keepalive:
		vAssert(next == bgp.BGP_FSM_ESTABLISHED && !notif && !conn.closed, "a KEEPALIVE in OpenConfirm does not establish the session")
		vReach("established")
	case c07validOpen, c07update:
		vAssert(next == bgp.BGP_FSM_IDLE && notif && gotCode == bgp.BGP_ERROR_FSM_ERROR && gotSub == bgp.BGP_ERROR_SUB_RECEIVE_UNEXPECTED_MESSAGE_IN_OPENCONFIRM_STATE, "an unexpected message in OpenConfirm is not answered with FSM Error / subcode 2 and Idle")
		vReach("fsm_error")
	case c07notification:
		vAssert(next == bgp.BGP_FSM_IDLE && !notif && conn.closed, "a NOTIFICATION in OpenConfirm does not end the connection in Idle without a reply")
	case c07remoteClose:
		vAssert(next == bgp.BGP_FSM_IDLE && !notif && conn.closed, "a connection closed by the peer in OpenConfirm does not lead to Idle")
	case c07silence:
		vAssert(next == bgp.BGP_FSM_IDLE && notif && gotCode == bgp.BGP_ERROR_HOLD_TIMER_EXPIRED && gotSub == 0, "hold timer expiry in OpenConfirm is not answered with Hold Timer Expired and Idle")
		vAssert(reason.Type == fsmHoldTimerExpired && vElapsedSec() == uint64(hold), "the OpenConfirm hold timer does not fire after the negotiated hold time")
		vReach("hold_expired")
	default:
		vAssert(next == bgp.BGP_FSM_IDLE && notif && gotCode == code && gotSub == sub && conn.closed, "a malformed header in OpenConfirm is not answered with the NOTIFICATION RFC 4271 prescribes and Idle")
		vReach("refused")
	}
}

// collision resolution: the connection opened by the speaker with the higher BGP identifier
// survives; with equal identifiers (RFC 6286) the higher AS number, the 4-octet one where announced
func VH_c07_dominant() {
	g := &oc.Global{}
	g.Config.As = 65000
	a, b, c, d := vU8("local_id"), vU8("local_id"), vU8("local_id"), vU8("local_id")
	g.Config.RouterId = vAddr4(a, b, c, d)
	localAS := vU32("local_as")
	conf := vNeighbor(2, 65001, localAS, nil)
	f := newFSM(g, conf, bgp.BGP_FSM_OPENSENT, vLogger())
	ra, rb, rc, rd := vU8("remote_id"), vU8("remote_id"), vU8("remote_id"), vU8("remote_id")
	remoteAS := vU32("remote_as")
	vAssume(remoteAS != 0)
	my := uint16(bgp.AS_TRANS)
	var caps []bgp.ParameterCapabilityInterface
	if remoteAS < 65536 && vBool("two_octet_only") {
		my = uint16(remoteAS)
	} else {
		if remoteAS < 65536 {
			my = uint16(remoteAS)
		}
		caps = append(caps, bgp.NewCapFourOctetASNumber(remoteAS))
	}
	open, _ := bgp.NewBGPOpenMessage(my, 90, vAddr4(ra, rb, rc, rd), []bgp.OptionParameterInterface{bgp.NewOptionParameterCapability(caps)})
	lid := uint32(a)<<24 | uint32(b)<<16 | uint32(c)<<8 | uint32(d)
	rid := uint32(ra)<<24 | uint32(rb)<<16 | uint32(rc)<<8 | uint32(rd)
	want := lid > rid || lid == rid && localAS > remoteAS
	vAssert(f.isDominant(open.Body.(*bgp.BGPOpen)) == want, "collision resolution does not compare BGP identifiers, then the real (4-octet) AS numbers")
	vReach("end")
}

const (
	c07eKeepalive = iota
	c07eUpdate
	c07eNotification
	c07eOpen
	c07eBadMarker
	c07eBadLength
	c07eBadType
	c07eRemoteClose
	c07eSilence
	c07eAdminDown
	c07ePrefixLimit
	c07eN
)

// Established: one event, then silence. Also decides how the loss is classified for graceful
// restart (C12): graceful iff GR was negotiated and the session ended by transport failure, hold
// timer expiry, or a NOTIFICATION when the N bit was negotiated - a Hard Reset never is.
func VH_c07_established() {
	ev := vChoice("event", c07eN)
	var in []byte
	silent := true
	var code, sub uint8
	notifCode, notifSub := uint8(bgp.BGP_ERROR_CEASE), uint8(bgp.BGP_ERROR_SUB_PEER_DECONFIGURED)
	switch ev {
	case c07eKeepalive:
		in, _, _, _ = c07event(c07keepalive)
	case c07eUpdate:
		in = c07wire(vUpdate4(vPrefix4(10, 1, 0, 0, 16), false, []uint32{65001}, vAddr4(10, 0, 0, 2)))
	case c07eNotification:
		notifCode, notifSub = vU8("notification_code"), vU8("notification_subcode")
		vAssume(notifCode >= 1 && notifCode <= 6)
		in = c07wire(bgp.NewBGPNotificationMessage(notifCode, notifSub, nil))
	case c07eOpen:
		in, _, _, _ = c07event(c07validOpen)
	case c07eBadMarker:
		in, _, code, sub = c07event(c07badMarker)
	case c07eBadLength:
		in, _, code, sub = c07event(c07badLength)
	case c07eBadType:
		in, _, code, sub = c07event(c07badType)
	case c07eRemoteClose:
		silent = false
	}
	f, h, conn := c07fsm(bgp.BGP_FSM_ESTABLISHED, in, silent)
	hold := 3 // seconds; the arithmetic on the negotiated value is decided in C07.openconfirm / C08.timers
	gr, nbit := vBool("graceful_restart_negotiated"), vBool("notification_bit_negotiated")
	conf := f.pConf.ReadCopy()
	conf.Timers.State.NegotiatedHoldTime, conf.Timers.State.KeepaliveInterval = float64(hold), float64(hold)/3
	conf.GracefulRestart.State.Enabled = gr
	conf.GracefulRestart.State.NotificationEnabled = gr && nbit
	conf.GracefulRestart.State.PeerRestartTime = 120
	f.pConf.Update(&conf)
	f.familyMap.Store(map[bgp.Family]bgp.BGPAddPathMode{bgp.RF_IPv4_UC: bgp.BGP_ADD_PATH_NONE})
	f.isEBGP = true
	var delivered []*fsmMsg
	h.callback = func(m *fsmMsg) { delivered = append(delivered, m) }
	switch ev {
	case c07eAdminDown:
		f.adminStateCh <- adminStateOperation{State: adminStateDown}
	case c07ePrefixLimit:
		f.adminStateCh <- adminStateOperation{State: adminStatePfxCt}
	}
	next, reason := h.established(context.Background())
	gotCode, gotSub, notif, _, _ := conn.written()
	vAssert(next == bgp.BGP_FSM_IDLE && conn.closed, "leaving Established does not end in Idle with the connection closed")
	graceful := reason.Type == fsmGracefulRestart
	switch ev {
	case c07eKeepalive, c07eUpdate, c07eSilence, c07eOpen:
		// nothing further arrives (RFC 4271 leaves an OPEN in Established without collision detection
		// unspecified: it must neither reset the hold timer nor reach the RIB): the hold timer runs out after the negotiated time
		vAssert(notif && gotCode == bgp.BGP_ERROR_HOLD_TIMER_EXPIRED && gotSub == 0, "hold timer expiry in Established is not answered with Hold Timer Expired")
		vAssert(vElapsedSec() == uint64(hold), "the Established hold timer does not fire after the negotiated hold time")
		vAssert(graceful == gr, "hold timer expiry is not classified as a graceful loss exactly when graceful restart was negotiated")
		if ev == c07eUpdate {
			vAssert(len(delivered) == 1 && delivered[0].MsgType == fsmMsgBGPMessage, "a valid UPDATE in Established is not handed to the server exactly once")
		} else if ev != c07eOpen {
			vAssert(len(delivered) == 0, "a message other than UPDATE/ROUTE-REFRESH was handed to the RIB side")
		}
		vReach("hold_expired")
	case c07eNotification:
		vAssert(!notif, "a NOTIFICATION is answered with a NOTIFICATION")
		hard := notifCode == bgp.BGP_ERROR_CEASE && notifSub == bgp.BGP_ERROR_SUB_HARD_RESET
		vAssert(graceful == (gr && nbit && !hard), "a received NOTIFICATION is not classified as graceful exactly when the N bit was negotiated and it is not a Hard Reset")
		if !graceful {
			vAssert(reason.Type == fsmNotificationRecv || reason.Type == fsmHardReset, "the loss reason of a received NOTIFICATION is misreported")
		}
		vReach("notification")
	case c07eBadMarker, c07eBadLength, c07eBadType:
		vAssert(notif && gotCode == code && gotSub == sub, "a malformed header in Established is not answered with the NOTIFICATION RFC 4271 prescribes")
		vAssert(!graceful || gr, "a loss is classified as graceful although graceful restart was not negotiated")
		vReach("refused")
	case c07eRemoteClose:
		vAssert(!notif, "a NOTIFICATION is written to a connection the peer closed")
		vAssert(graceful == gr, "a transport failure is not classified as graceful exactly when graceful restart was negotiated")
		vReach("closed")
	case c07eAdminDown:
		vAssert(notif && gotCode == bgp.BGP_ERROR_CEASE && gotSub == bgp.BGP_ERROR_SUB_ADMINISTRATIVE_SHUTDOWN, "administrative shutdown is not announced with Cease / Administrative Shutdown")
		vAssert(!graceful && reason.Type == fsmAdminDown && f.adminState.Load() == adminStateDown, "administrative shutdown is treated as a graceful loss or the admin state is not Down")
		vReach("admin_down")
	case c07ePrefixLimit:
		vAssert(notif && gotCode == bgp.BGP_ERROR_CEASE && gotSub == bgp.BGP_ERROR_SUB_MAXIMUM_NUMBER_OF_PREFIXES_REACHED, "a prefix-limit overrun is not announced with Cease / Maximum Number of Prefixes Reached")
		vAssert(f.adminState.Load() == adminStatePfxCt, "the admin state after a prefix-limit overrun is not the prefix-limit shutdown state")
		vReach("prefix_limit")
	}
}

// Idle: the session leaves Idle for Active only when the idle hold timer expires while the peer is
// administratively up - never while it is disabled or shut down for a prefix-limit overrun.
func VH_c07_idle() {
	f, h, _ := c07fsm(bgp.BGP_FSM_IDLE, nil, true)
	admin := adminState(vChoice("admin_state", 3))
	f.adminState.Store(admin)
	wait := vInt("idle_hold", 1, 2)
	f.idleHoldTime = float64(wait)
	next, reason := h.idle(context.Background())
	vAssert(admin == adminStateUp, "the session left Idle although the peer is administratively down or shut down for its prefix limit")
	vAssert(next == bgp.BGP_FSM_ACTIVE && reason.Type == fsmIdleTimerExpired && vElapsedSec() == uint64(wait), "Idle is not left for Active exactly when the idle hold timer expires")
	vReach("active")
}

// Routing messages never change a RIB unless the session is Established (and the message is not
// older than the session); a prefix-limit overrun requests the prefix-limit shutdown.
func VH_c07_server_guards() {
	fams := []bgp.Family{bgp.RF_IPv4_UC}
	s := vServer(65000, fams)
	c := vNeighbor(2, 65001, 65000, fams)
	limit := vInt("max_prefixes", 0, 2)
	c.AfiSafis[0].PrefixLimit.Config.MaxPrefixes = uint32(limit)
	// a warning threshold (percent of the maximum) may be crossed by the same UPDATE that crosses the maximum
	c.AfiSafis[0].PrefixLimit.Config.ShutdownThresholdPct = oc.Percentage(vU8("shutdown_threshold_pct") % 101)
	p := vEstablished(s, c, fams)
	state := bgp.FSMState(vChoice("state", 6)) // Idle .. Established
	p.fsm.state.Store(state)
	stale := vBool("message_older_than_session")
	if stale {
		conf := p.fsm.pConf.ReadCopy()
		conf.Timers.State.Uptime = 5000
		p.fsm.pConf.Update(&conf)
	}
	n := vParam("updates")
	for i := 0; i < n; i++ {
		m := vUpdate4(vPrefix4(10, byte(1+i), 0, 0, 16), false, []uint32{65001}, vAddr4(10, 0, 0, 2))
		s.handleFSMMessage(p, &fsmMsg{MsgType: fsmMsgBGPMessage, MsgData: m, timestamp: vTimeUnix(int64(2000 + i))})
	}
	adj := p.adjRibIn.Count(fams)
	loc := len(s.globalRib.GetPathList("global", 0, fams))
	if state != bgp.BGP_FSM_ESTABLISHED || stale {
		vAssert(adj == 0 && loc == 0, "an UPDATE received outside Established (or older than the session) changed a RIB")
		vAssert(len(p.fsm.adminStateCh) == 0, "an UPDATE received outside Established changed the admin state")
		vReach("ignored")
		return
	}
	over := limit > 0 && n > limit
	requested := len(p.fsm.adminStateCh) == 1
	vAssert(requested == over, "the prefix-limit shutdown is not requested exactly when the number of received prefixes exceeds the limit")
	if over {
		op := <-p.fsm.adminStateCh
		vAssert(op.State == adminStatePfxCt, "a prefix-limit overrun does not request the prefix-limit shutdown state")
		vAssert(loc <= limit, "routes beyond the prefix limit were installed")
		vReach("limit")
	} else {
		vAssert(adj == n && loc == n, "an UPDATE on an Established session was not installed")
		vReach("installed")
	}
}

// Connection collision in OpenSent: an OPEN arrives on the incoming connection while the concurrent
// active open has completed its own OPEN exchange. Exactly the connection RFC 4271 6.8 designates
// survives (the one opened by the speaker with the higher BGP identifier; RFC 6286 tie-break on the
// AS), the session continues on it with the OPEN received on it, and the other one is closed.
func VH_c07_collision() {
	l3, r3 := vU8("local_id"), vU8("remote_id")
	open, _ := bgp.NewBGPOpenMessage(65001, 90, vAddr4(2, 2, 2, r3), []bgp.OptionParameterInterface{
		bgp.NewOptionParameterCapability([]bgp.ParameterCapabilityInterface{bgp.NewCapFourOctetASNumber(65001)})})
	f, h, cin := c07fsm(bgp.BGP_FSM_OPENSENT, c07wire(open), true)
	f.gConf.Config.RouterId = vAddr4(2, 2, 2, l3)
	cout := newVConn(nil, true)
	outOpen, _ := bgp.NewBGPOpenMessage(65001, 90, vAddr4(2, 2, 2, r3), []bgp.OptionParameterInterface{
		bgp.NewOptionParameterCapability([]bgp.ParameterCapabilityInterface{bgp.NewCapFourOctetASNumber(65001)})})
	// the active open completes while the handler waits: both events are pending when it looks.
	// Natively the scheduling point hook makes the first look wait until the receive goroutine has
	// delivered the OPEN and the active open has been queued (the engine's cooperative schedule
	// gives the same situation: both helper goroutines run when the handler first blocks).
	if vNative() {
		first := true
		verifHook = func(name string) {
			if name == "opensent.select" && first {
				first = false
				f.outgoingConnCh <- outgoingConn{conn: cout, open: outOpen}
				for i := 0; i < 2000 && !cin.consumed(); i++ {
					time.Sleep(time.Millisecond)
				}
				time.Sleep(20 * time.Millisecond)
			}
		}
		defer func() { verifHook = nil }()
	} else {
		go func() { f.outgoingConnCh <- outgoingConn{conn: cout, open: outOpen} }()
	}
	next, _ := h.opensent(context.Background())
	vAssert(next == bgp.BGP_FSM_OPENCONFIRM, "a collision between two healthy connections does not continue in OpenConfirm")
	// local AS 65000 < remote AS 65001: with equal identifiers the remote side is dominant
	dominant := l3 > r3
	keep, drop, keepOpen := cin, cout, f.recvOpen
	if dominant {
		keep, drop = cout, cin
	}
	vAssert(f.conn == net.Conn(keep) && !keep.closed, "collision resolution kept the wrong connection (or closed both)")
	vAssert(drop.closed, "the losing connection of a collision is left open")
	dc, ds, dn, _, _ := drop.written()
	vAssert(dn && dc == bgp.BGP_ERROR_CEASE && ds == bgp.BGP_ERROR_SUB_CONNECTION_COLLISION_RESOLUTION, "the losing connection of a collision is closed without the Cease / Connection Collision Resolution NOTIFICATION (RFC 4271 6.8, RFC 4486)")
	if dominant {
		vAssert(keepOpen == outOpen, "the session continues with the OPEN of the connection that was closed")
	} else {
		vAssert(keepOpen != outOpen, "the session continues with the OPEN of the connection that was closed")
	}
	_, _, notif, keepalive, _ := keep.written()
	vAssert(keepalive && !notif, "no KEEPALIVE is sent on the surviving connection")
	if dominant {
		vReach("kept_outgoing")
	} else {
		vReach("kept_incoming")
	}
}

// Established, timing: a KEEPALIVE (or UPDATE) arriving d seconds into the session restarts the hold
// timer, so with silence afterwards the session ends with Hold Timer Expired exactly hold seconds
// after that message; meanwhile the speaker has sent its own KEEPALIVEs every hold/3 seconds.
func VH_c07_hold_restart() {
	in, _, _, _ := c07event(c07keepalive)
	if vBool("update_instead") {
		in = c07wire(vUpdate4(vPrefix4(10, 1, 0, 0, 16), false, []uint32{65001}, vAddr4(10, 0, 0, 2)))
	}
	f, h, conn := c07fsm(bgp.BGP_FSM_ESTABLISHED, in, true)
	late := vInt("arrives_after", 1, 2)
	conn.delay = time.Duration(late) * time.Second
	const hold = 3
	conf := f.pConf.ReadCopy()
	conf.Timers.State.NegotiatedHoldTime, conf.Timers.State.KeepaliveInterval = hold, 1
	conf.Timers.Config.HoldTime = 5 // the peer announced less than the configured value
	f.pConf.Update(&conf)
	f.familyMap.Store(map[bgp.Family]bgp.BGPAddPathMode{bgp.RF_IPv4_UC: bgp.BGP_ADD_PATH_NONE})
	f.isEBGP = true
	next, reason := h.established(context.Background())
	code, sub, notif, keepalive, _ := conn.written()
	vAssert(next == bgp.BGP_FSM_IDLE && reason.Type == fsmHoldTimerExpired && notif && code == bgp.BGP_ERROR_HOLD_TIMER_EXPIRED && sub == 0, "silence after a message does not end the session with Hold Timer Expired")
	vAssert(vElapsedSec() == uint64(late+hold), "a received KEEPALIVE/UPDATE does not restart the hold timer (expiry is not hold seconds after the last message)")
	vAssert(keepalive, "no KEEPALIVE was sent during the keepalive intervals of an Established session")
	sent := 0
	for b := conn.out; len(b) >= 19; b = b[int(b[16])<<8|int(b[17]):] {
		if b[18] == bgp.BGP_MSG_KEEPALIVE {
			sent++
		}
	}
	vAssert(sent >= late+hold-1, "fewer KEEPALIVEs were sent than keepalive intervals elapsed")
	vReach("end")
}

// OPEN validation: for every OPEN (version, 2-octet AS field, optional 4-octet AS capability, hold
// time, identifier equal to / different from the local one, or 0.0.0.0) and every expectation (peer
// AS configured or not, local AS), bgp.ValidateOpenMsg refuses exactly what RFC 4271 6.2 / RFC 6286
// refuse, with the prescribed subcode, and otherwise returns the peer's real AS.
func VH_c07_validate_open() {
	version, hold := vU8("version"), vU16("hold")
	myAS, expected := vU32("local_as"), vU32("configured_peer_as") // 0: not configured
	vAssume(myAS != 0)
	as := vU32("remote_as")
	vAssume(as != 0)
	four := vBool("cap_four_octet")
	field := uint16(bgp.AS_TRANS)
	if as < 65536 {
		field = uint16(as)
	} else {
		vAssume(four)
	}
	var caps []bgp.ParameterCapabilityInterface
	if four {
		caps = append(caps, bgp.NewCapFourOctetASNumber(as))
	}
	localID := vAddr4(1, 1, 1, 1)
	id := []netipAddr{vAddr4(0, 0, 0, 0), localID, vAddr4(2, 2, 2, 2)}[vChoice("identifier", 3)]
	open, _ := bgp.NewBGPOpenMessage(field, hold, id, []bgp.OptionParameterInterface{bgp.NewOptionParameterCapability(caps)})
	o := open.Body.(*bgp.BGPOpen)
	o.Version = version
	got, err := bgp.ValidateOpenMsg(o, expected, myAS, localID)
	sub := uint8(0)
	switch {
	case version != 4:
		sub = bgp.BGP_ERROR_SUB_UNSUPPORTED_VERSION_NUMBER
	case id == vAddr4(0, 0, 0, 0) || as == myAS && id == localID:
		sub = bgp.BGP_ERROR_SUB_BAD_BGP_IDENTIFIER
	case expected != 0 && as != expected:
		sub = bgp.BGP_ERROR_SUB_BAD_PEER_AS
	case hold == 1 || hold == 2:
		sub = bgp.BGP_ERROR_SUB_UNACCEPTABLE_HOLD_TIME
	}
	if sub == 0 {
		vAssert(err == nil && got == as, "an acceptable OPEN is refused (or the peer AS returned is not the real one)")
		vReach("accepted")
		return
	}
	me, ok := err.(*bgp.MessageError)
	vAssert(ok && me.TypeCode == bgp.BGP_ERROR_OPEN_MESSAGE_ERROR && me.SubTypeCode == sub, "an unacceptable OPEN is not refused with the OPEN Message Error subcode RFC 4271 / RFC 6286 prescribe")
	vReach("refused")
}
