package server

import (
	"github.com/osrg/gobgp/v4/pkg/config/oc"
	"github.com/osrg/gobgp/v4/pkg/packet/bgp"
)

// C08: the session parameters the real fsm.stateChange(Established) puts in force, for a symbolic
// local configuration and a symbolic received OPEN, against the intersection rule written out here.
// aspects (vParam "aspect"): 1 timers, 2 families and ADD-PATH, 4 AS number / extended message /
// peer type / leftovers of the previous session. Dimensions outside the selected aspects are fixed.
func c08bool(name string, aspect int, def bool) bool {
	if vParam("aspect")&aspect != 0 {
		return vBool(name)
	}
	return def
}

func VH_c08_negotiate() {
	fams := []bgp.Family{bgp.RF_IPv4_UC, bgp.RF_IPv6_UC}
	g := &oc.Global{}
	g.Config.As = 64999 // the neighbour below overrides it with local-as 65000: the session's local AS counts
	g.Config.RouterId = vAddr4(1, 1, 1, 1)

	// local configuration: which families, ADD-PATH per family, timers
	var lfam [2]bool
	var lrecv [2]bool
	var lsend [2]bool
	var cfams []bgp.Family
	for i, f := range fams {
		lfam[i] = c08bool("local_family", 2, true)
		if lfam[i] {
			cfams = append(cfams, f)
		}
	}
	c := vNeighbor(2, 0, 65000, cfams)
	peerAsConfigured := c08bool("peer_as_configured", 4, true)
	k := 0
	for i := range fams {
		if !lfam[i] {
			continue
		}
		lrecv[i], lsend[i] = c08bool("local_addpath_receive", 2, false), c08bool("local_addpath_send", 2, false)
		c.AfiSafis[k].AddPaths.Config.Receive, c.AfiSafis[k].AddPaths.State.Receive = lrecv[i], lrecv[i]
		if lsend[i] {
			c.AfiSafis[k].AddPaths.Config.SendMax, c.AfiSafis[k].AddPaths.State.SendMax = 2, 2
		}
		k++
	}
	localHold, localKeep := uint16(90), uint16(30)
	if vParam("aspect")&1 != 0 {
		localHold, localKeep = vU16("local_hold"), vU16("local_keepalive")
	}
	vAssume(localHold == 0 || localHold >= 3)
	c.Timers.Config.HoldTime = float64(localHold)
	c.Timers.Config.KeepaliveInterval = float64(localKeep)

	// received OPEN
	remoteAS := uint32(65001)
	if vParam("aspect")&4 != 0 {
		remoteAS = vU32("remote_as")
	}
	vAssume(remoteAS != 0)
	four := c08bool("cap_four_octet", 4, true)
	myAS := uint16(bgp.AS_TRANS)
	if remoteAS < 65536 {
		myAS = uint16(remoteAS)
	} else {
		vAssume(four)
	}
	if peerAsConfigured {
		c.Config.PeerAs = remoteAS
		if remoteAS == 65000 {
			c.Config.PeerType = oc.PEER_TYPE_INTERNAL
		} else {
			c.Config.PeerType = oc.PEER_TYPE_EXTERNAL
		}
	}
	remoteHold := uint16(90)
	if vParam("aspect")&1 != 0 {
		remoteHold = vU16("remote_hold")
	}
	vAssume(remoteHold == 0 || remoteHold >= 3) // 1-2 is refused by ValidateOpenMsg before this point
	var caps []bgp.ParameterCapabilityInterface
	var rfam [2]bool
	anyMP := false
	for i, f := range fams {
		rfam[i] = c08bool("remote_mp", 2, true)
		if rfam[i] {
			caps = append(caps, bgp.NewCapMultiProtocol(f))
			anyMP = true
		}
	}
	if !anyMP {
		rfam[0] = true // an OPEN without multiprotocol capability means IPv4 unicast
	}
	var rmode [2]bgp.BGPAddPathMode
	ntuples := vParam("tuples")
	if vParam("aspect")&2 == 0 {
		ntuples = 0
	}
	var tuples []*bgp.CapAddPathTuple
	for j := 0; j < ntuples; j++ {
		i := vChoice("tuple_family", 2)
		m := bgp.BGPAddPathMode(vU8("tuple_mode") & 3)
		tuples = append(tuples, bgp.NewCapAddPathTuple(fams[i], m))
		rmode[i] = m // the last tuple for a family wins
	}
	if len(tuples) > 0 {
		if vBool("split_addpath_caps") && len(tuples) > 1 {
			caps = append(caps, bgp.NewCapAddPath(tuples[:1]), bgp.NewCapAddPath(tuples[1:]))
		} else {
			caps = append(caps, bgp.NewCapAddPath(tuples))
		}
	}
	if four {
		caps = append(caps, bgp.NewCapFourOctetASNumber(remoteAS))
	}
	ext := c08bool("cap_extended_message", 4, false)
	if ext {
		caps = append(caps, bgp.NewCapExtendedMessage())
	}
	open, _ := bgp.NewBGPOpenMessage(myAS, remoteHold, vAddr4(2, 2, 2, 2), []bgp.OptionParameterInterface{bgp.NewOptionParameterCapability(caps)})

	f := newFSM(g, c, bgp.BGP_FSM_OPENCONFIRM, vLogger())
	f.conn = newVConn(nil, true)
	f.recvOpen = open
	// whatever the previous session on this neighbour left behind
	f.twoByteAsTrans = c08bool("previous_two_byte_as", 4, false)
	f.extendedMessage.Store(c08bool("previous_extended_message", 4, false))
	f.stateChange(bgp.BGP_FSM_ESTABLISHED, newfsmStateReason(fsmOpenMsgNegotiated, nil, nil))

	conf := f.pConf.ReadOnly()
	// timers
	wantHold := localHold
	if remoteHold < wantHold {
		wantHold = remoteHold
	}
	vAssert(conf.Timers.State.NegotiatedHoldTime == float64(wantHold), "negotiated hold time is not min(local, remote)")
	if wantHold < localHold {
		vAssert(conf.Timers.State.KeepaliveInterval == float64(wantHold)/3, "keepalive interval is not a third of the negotiated hold time")
	} else {
		vAssert(conf.Timers.State.KeepaliveInterval == float64(localKeep), "the configured keepalive interval does not apply although the local hold time was chosen")
	}
	if wantHold == 0 {
		vAssert(conf.Timers.State.KeepaliveInterval == 0 || wantHold == localHold, "hold time 0 does not disable keepalives")
	}
	// families and ADD-PATH
	fm := f.familyMap.Load().(map[bgp.Family]bgp.BGPAddPathMode)
	n := 0
	for i, fam := range fams {
		mode, ok := fm[fam]
		vAssert(ok == (lfam[i] && rfam[i]), "negotiated families are not exactly those both sides announced")
		if !ok {
			continue
		}
		n++
		wantSend := lsend[i] && rmode[i]&bgp.BGP_ADD_PATH_RECEIVE != 0
		wantRecv := lrecv[i] && rmode[i]&bgp.BGP_ADD_PATH_SEND != 0
		vAssert((mode&bgp.BGP_ADD_PATH_SEND != 0) == wantSend, "ADD-PATH send negotiated although the peer did not announce receive for the family (or vice versa)")
		vAssert((mode&bgp.BGP_ADD_PATH_RECEIVE != 0) == wantRecv, "ADD-PATH receive negotiated although the peer did not announce send for the family (or vice versa)")
		if wantSend || wantRecv {
			vReach("addpath")
		}
	}
	vAssert(len(fm) == n, "a family neither configured nor announced was negotiated")
	// AS number encoding, extended messages, peer AS and type
	vAssert(f.twoByteAsTrans == !four, "2-octet AS_PATH encoding is not used exactly when the peer lacks the 4-octet AS capability")
	vAssert(f.extendedMessage.Load() == ext, "extended messages are not enabled exactly when the peer announced the capability")
	vAssert(conf.State.PeerAs == remoteAS, "the peer AS in force is not the real remote AS")
	wantType := oc.PEER_TYPE_EXTERNAL
	if remoteAS == 65000 {
		wantType = oc.PEER_TYPE_INTERNAL
	}
	vAssert(conf.State.PeerType == wantType, "peer type is not derived from the real remote AS")
	vAssert(f.isEBGP == (remoteAS != 65000), "the eBGP flag is not derived from the real remote AS")
	vReach("end")
}

// C08 (message size): the real recvMessageWithError accepts a header announcing more than 4096
// octets only for UPDATE / NOTIFICATION / ROUTE-REFRESH on a session where Extended Message was
// negotiated; OPEN and KEEPALIVE never exceed 4096. Observed as: too-large header error versus an
// attempt to read the body.
func VH_c08_max_length() {
	typ := vU8("type")
	ln := vU16("length")
	ext := vBool("extended_message_negotiated")
	hdr := make([]byte, 19)
	for i := 0; i < 16; i++ {
		hdr[i] = 0xff
	}
	hdr[16], hdr[17], hdr[18] = byte(ln>>8), byte(ln), typ
	conn := newVConn(hdr, false)
	f := newFSM(&oc.Global{}, &oc.Neighbor{}, bgp.BGP_FSM_ESTABLISHED, vLogger())
	f.extendedMessage.Store(ext)
	h := &fsmHandler{fsm: f}
	reasons := make(chan fsmStateReason, 3)
	fmsg, err := h.recvMessageWithError(conn, reasons)
	limit := uint16(4096)
	if ext && (typ == bgp.BGP_MSG_UPDATE || typ == bgp.BGP_MSG_NOTIFICATION || typ == bgp.BGP_MSG_ROUTE_REFRESH) {
		limit = 65535
	}
	var herr *bgp.MessageError
	if fmsg != nil {
		herr, _ = fmsg.MsgData.(*bgp.MessageError)
	}
	if ln > limit {
		vAssert(herr != nil && herr.TypeCode == bgp.BGP_ERROR_MESSAGE_HEADER_ERROR && herr.SubTypeCode == bgp.BGP_ERROR_SUB_BAD_MESSAGE_LENGTH, "a message longer than the session allows for its type is not refused with Bad Message Length")
		vReach("too_large")
	} else if herr == nil {
		// the body was asked for: the header was accepted
		_ = err // (nil, io error) when the body is missing; a complete 19-octet message is parsed at once
		vAssert(ln >= 19, "a header announcing less than 19 octets was accepted")
		vReach("accepted")
	}
}

// C08 (OPEN sent): the OPEN the speaker builds reflects its configuration - AS_TRANS in the 2-octet
// field exactly for a 4-octet local AS with the real AS in the capability, the configured hold
// time, one multiprotocol capability per configured family, ADD-PATH tuples per the configured
// modes, graceful-restart tuples for the families it is enabled for - and it survives its own
// serialisation and parsing.
func VH_c08_open_sent() {
	fams := []bgp.Family{bgp.RF_IPv4_UC, bgp.RF_IPv6_UC}
	g := &oc.Global{}
	g.Config.RouterId = vAddr4(1, 1, 1, 1)
	localAS := vU32("local_as")
	vAssume(localAS != 0)
	var cf []bgp.Family
	var on [2]bool
	for i, f := range fams {
		on[i] = c08bool("family_configured", 2, true)
		if on[i] {
			cf = append(cf, f)
		}
	}
	vAssume(on[0] || on[1])
	c := vNeighbor(2, 65001, localAS, cf)
	hold := uint16(90)
	if vParam("aspect")&1 != 0 {
		hold = vU16("hold")
	}
	c.Timers.Config.HoldTime = float64(hold)
	var recv, send, gr [2]bool
	k := 0
	c.GracefulRestart.Config.Enabled = c08bool("graceful_restart", 2, true)
	c.GracefulRestart.Config.RestartTime = vU16("restart_time") & 0xfff
	for i := range fams {
		if !on[i] {
			continue
		}
		recv[i], send[i], gr[i] = c08bool("addpath_receive", 2, false), c08bool("addpath_send", 2, true), c08bool("family_graceful_restart", 2, true)
		c.AfiSafis[k].AddPaths.State.Receive = recv[i]
		if send[i] {
			c.AfiSafis[k].AddPaths.State.SendMax = 1 + vU8("send_max")&7
		}
		c.AfiSafis[k].MpGracefulRestart.Config.Enabled = gr[i]
		k++
	}
	m := buildopen(g, c)
	o := m.Body.(*bgp.BGPOpen)
	if localAS > 65535 {
		vAssert(o.MyAS == bgp.AS_TRANS, "a 4-octet local AS is not announced as AS_TRANS in the 2-octet field")
	} else {
		vAssert(uint32(o.MyAS) == localAS, "the 2-octet AS field does not carry the local AS")
	}
	vAssert(o.HoldTime == hold && o.ID == g.Config.RouterId && o.Version == 4, "the OPEN does not carry the configured hold time / router id / version 4")
	var mp [2]int
	var apMode [2]bgp.BGPAddPathMode
	var grSeen [2]int
	four, ext, grCap := 0, 0, 0
	for _, p := range o.OptParams {
		pc, ok := p.(*bgp.OptionParameterCapability)
		if !ok {
			continue
		}
		for _, cp := range pc.Capability {
			switch x := cp.(type) {
			case *bgp.CapMultiProtocol:
				for i, f := range fams {
					if x.CapValue == f {
						mp[i]++
					}
				}
			case *bgp.CapFourOctetASNumber:
				four++
				vAssert(x.CapValue == localAS, "the 4-octet AS capability does not carry the local AS")
			case *bgp.CapExtendedMessage:
				ext++
			case *bgp.CapAddPath:
				for _, t := range x.Tuples {
					for i, f := range fams {
						if t.Family == f {
							apMode[i] |= t.Mode
						}
					}
				}
			case *bgp.CapGracefulRestart:
				grCap++
				vAssert(x.Time == c.GracefulRestart.Config.RestartTime, "the graceful-restart capability does not carry the configured restart time")
				for _, t := range x.Tuples {
					for i, f := range fams {
						if bgp.NewFamily(t.AFI, t.SAFI) == f {
							grSeen[i]++
						}
					}
				}
			}
		}
	}
	vAssert(four == 1 && ext == 1, "the OPEN does not announce the 4-octet AS and Extended Message capabilities exactly once")
	vAssert((grCap == 1) == c.GracefulRestart.Config.Enabled && grCap <= 1, "the graceful-restart capability is not sent exactly when graceful restart is configured")
	for i := range fams {
		want := 0
		if on[i] {
			want = 1
		}
		vAssert(mp[i] == want, "multiprotocol capabilities do not match the configured families")
		var wm bgp.BGPAddPathMode
		if recv[i] {
			wm |= bgp.BGP_ADD_PATH_RECEIVE
		}
		if send[i] {
			wm |= bgp.BGP_ADD_PATH_SEND
		}
		vAssert(apMode[i] == wm, "ADD-PATH tuples do not match the configured modes")
		wantGR := 0
		if on[i] && gr[i] && c.GracefulRestart.Config.Enabled {
			wantGR = 1
		}
		vAssert(grSeen[i] == wantGR, "graceful-restart tuples do not match the families it is enabled for")
	}
	// the peer parses what we send
	b, err := m.Serialize()
	vAssert(err == nil && len(b) <= 4096, "the OPEN cannot be serialised within 4096 octets")
	if err == nil {
		back, perr := bgp.ParseBGPMessage(b)
		vAssert(perr == nil && back != nil, "the OPEN sent is rejected by the parser")
		if perr == nil && back != nil {
			bo := back.Body.(*bgp.BGPOpen)
			vAssert(bo.MyAS == o.MyAS && bo.HoldTime == o.HoldTime && getASN(bo) == localAS, "the parsed OPEN differs from the one built")
		}
	}
	vReach("end")
}
