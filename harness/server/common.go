package server

import (
	"io"
	"net"
	"time"
	"log/slog"
	"net/netip"

	"github.com/osrg/gobgp/v4/internal/pkg/table"
	"github.com/osrg/gobgp/v4/pkg/config/oc"
	"github.com/osrg/gobgp/v4/pkg/packet/bgp"
)

func vLogger() *slog.Logger { return slog.New(slog.NewTextHandler(io.Discard, nil)) }

// vPeer builds a peer object directly (newPeer starts timers and channel pumps): the neighbor
// configuration and the negotiated families are what the filter functions read.
func vPeer(conf *oc.Neighbor, g *oc.Global, families map[bgp.Family]bgp.BGPAddPathMode) *peer {
	f := &fsm{gConf: g, logger: vLogger(), capMap: map[bgp.BGPCapabilityCode][]bgp.ParameterCapabilityInterface{}}
	f.pConf.Update(conf)
	f.familyMap.Store(families)
	p := &peer{fsm: f, tableId: table.GLOBAL_RIB_NAME, prefixLimitWarned: map[bgp.Family]bool{}}
	p.rtmHandler = table.NewRouteTargetMembershipHandler()
	return p
}

func vAddr4(a, b, c, d byte) netip.Addr { return netip.AddrFrom4([4]byte{a, b, c, d}) }

func vPrefix4(a, b, c, d byte, bits int) *bgp.IPAddrPrefix {
	n, _ := bgp.NewIPAddrPrefix(netip.PrefixFrom(vAddr4(a, b, c, d), bits))
	return n
}

// vConn is the transport of a harness: reads come from a fixed byte string (then io.EOF, or block
// for ever when blockAtEOF is set), writes are recorded.
type vConn struct {
	in         []byte
	pos        int
	out        []byte
	closed     bool
	blockAtEOF bool
	never      chan struct{}
}

func (c *vConn) Read(b []byte) (int, error) {
	if c.pos >= len(c.in) {
		if c.blockAtEOF && !c.closed {
			<-c.never
		}
		return 0, io.EOF
	}
	n := copy(b, c.in[c.pos:])
	c.pos += n
	return n, nil
}
func (c *vConn) Write(b []byte) (int, error) {
	if c.closed {
		return 0, io.ErrClosedPipe
	}
	c.out = append(c.out, b...)
	return len(b), nil
}
func (c *vConn) Close() error                     { c.closed = true; return nil }
func (c *vConn) LocalAddr() net.Addr              { return &net.TCPAddr{IP: net.IPv4(10, 0, 0, 1), Port: 179} }
func (c *vConn) RemoteAddr() net.Addr             { return &net.TCPAddr{IP: net.IPv4(10, 0, 0, 2), Port: 30000} }
func (c *vConn) SetDeadline(time.Time) error      { return nil }
func (c *vConn) SetReadDeadline(time.Time) error  { return nil }
func (c *vConn) SetWriteDeadline(time.Time) error { return nil }

// vServer builds a BgpServer with the real constructor (no gRPC listener, no Serve loop) and gives
// it the tables StartBgp would create. The management goroutine is not running: harnesses call the
// step functions (handleFSMMessage, propagateUpdate, ...) themselves.
func vServer(as uint32, families []bgp.Family) *BgpServer {
	s := NewBgpServer()
	s.bgpConfig.Global.Config.As = as
	s.bgpConfig.Global.Config.RouterId = vAddr4(1, 1, 1, 1)
	s.globalRib = table.NewTableManager(s.logger, families)
	s.rsRib = table.NewTableManager(s.logger, families)
	if err := s.policy.Initialize(); err != nil {
		panic(err)
	}
	return s
}

// vNeighbor: configuration of a neighbour 10.0.0.<n> in AS peerAS with the given families.
func vNeighbor(n byte, peerAS, localAS uint32, families []bgp.Family) *oc.Neighbor {
	c := &oc.Neighbor{}
	c.Config.NeighborAddress = vAddr4(10, 0, 0, n)
	c.State.NeighborAddress = c.Config.NeighborAddress
	c.Config.PeerAs, c.State.PeerAs = peerAS, peerAS
	c.Config.LocalAs = localAS
	if peerAS == localAS {
		c.Config.PeerType, c.State.PeerType = oc.PEER_TYPE_INTERNAL, oc.PEER_TYPE_INTERNAL
	} else {
		c.Config.PeerType, c.State.PeerType = oc.PEER_TYPE_EXTERNAL, oc.PEER_TYPE_EXTERNAL
	}
	for _, f := range families {
		a := oc.AfiSafi{}
		a.Config.AfiSafiName = oc.AfiSafiType(f.String())
		a.Config.Enabled = true
		a.State.Family = f
		c.AfiSafis = append(c.AfiSafis, a)
	}
	return c
}

// vEstablished adds the neighbour to the server as an established session.
func vEstablished(s *BgpServer, c *oc.Neighbor, families []bgp.Family) *peer {
	p := newPeer(&s.bgpConfig.Global, c, bgp.BGP_FSM_ESTABLISHED, s.globalRib, s.policy, s.logger)
	fm := map[bgp.Family]bgp.BGPAddPathMode{}
	for _, f := range families {
		fm[f] = bgp.BGP_ADD_PATH_NONE
	}
	p.fsm.familyMap.Store(fm)
	p.fsm.isEBGP = c.Config.PeerAs != c.Config.LocalAs
	p.peerInfo.Store(&table.PeerInfo{AS: c.Config.PeerAs, LocalAS: c.Config.LocalAs, ID: vAddr4(2, 2, 2, byte(c.Config.PeerAs)), Address: c.State.NeighborAddress, LocalID: vAddr4(1, 1, 1, 1)})
	s.neighborMap[c.State.NeighborAddress] = p
	return p
}

func vUpdate4(prefix *bgp.IPAddrPrefix, withdraw bool, aspath []uint32, nh netip.Addr) *bgp.BGPMessage {
	if withdraw {
		return bgp.NewBGPUpdateMessage([]bgp.PathNLRI{{NLRI: prefix}}, nil, nil)
	}
	n, _ := bgp.NewPathAttributeNextHop(nh)
	attrs := []bgp.PathAttributeInterface{bgp.NewPathAttributeOrigin(0),
		bgp.NewPathAttributeAsPath([]bgp.AsPathParamInterface{bgp.NewAs4PathParam(bgp.BGP_ASPATH_ATTR_TYPE_SEQ, aspath)}), n}
	return bgp.NewBGPUpdateMessage(nil, attrs, []bgp.PathNLRI{{NLRI: prefix}})
}
