package server

import (
	"io"
	"log/slog"
	"net/netip"

	"github.com/osrg/gobgp/v4/internal/pkg/table"
	"github.com/osrg/gobgp/v4/pkg/config/oc"
	"github.com/osrg/gobgp/v4/pkg/packet/bgp"
)

func vLogger() *slog.Logger { return slog.New(slog.NewTextHandler(io.Discard, nil)) }

// vPeer builds a peer object directly (newPeer starts timers and channel pumps): the neighbor
// configuration and the negotiated families are what the filter functions read.
func vPeer(conf *oc.Neighbor, g *oc.Global, families map[bgp.Family]bgp.BGPAddPathMode) *peer {
	f := &fsm{gConf: g, logger: vLogger(), capMap: map[bgp.BGPCapabilityCode][]bgp.ParameterCapabilityInterface{}}
	f.pConf.Update(conf)
	f.familyMap.Store(families)
	p := &peer{fsm: f, tableId: table.GLOBAL_RIB_NAME, prefixLimitWarned: map[bgp.Family]bool{}}
	p.rtmHandler = table.NewRouteTargetMembershipHandler()
	return p
}

func vAddr4(a, b, c, d byte) netip.Addr { return netip.AddrFrom4([4]byte{a, b, c, d}) }

func vPrefix4(a, b, c, d byte, bits int) *bgp.IPAddrPrefix {
	n, _ := bgp.NewIPAddrPrefix(netip.PrefixFrom(vAddr4(a, b, c, d), bits))
	return n
}
