package server

import (
	"errors"
	"os"
	"sync"
	"io"
	"net"
	"time"
	"log/slog"
	"net/netip"

	"github.com/google/uuid"
	"github.com/osrg/gobgp/v4/internal/pkg/table"
	"github.com/osrg/gobgp/v4/pkg/config/oc"
	"github.com/osrg/gobgp/v4/pkg/packet/bgp"
)

func vLogger() *slog.Logger { return slog.New(slog.NewTextHandler(io.Discard, nil)) }

// vPeer builds a peer object directly (newPeer starts timers and channel pumps): the neighbor
// configuration and the negotiated families are what the filter functions read.
func vPeer(conf *oc.Neighbor, g *oc.Global, families map[bgp.Family]bgp.BGPAddPathMode) *peer {
	f := &fsm{gConf: g, logger: vLogger(), capMap: map[bgp.BGPCapabilityCode][]bgp.ParameterCapabilityInterface{}}
	f.pConf.Update(conf)
	f.familyMap.Store(families)
	p := &peer{fsm: f, tableId: table.GLOBAL_RIB_NAME, prefixLimitWarned: map[bgp.Family]bool{}}
	p.rtmHandler = table.NewRouteTargetMembershipHandler()
	return p
}

func vAddr4(a, b, c, d byte) netip.Addr { return netip.AddrFrom4([4]byte{a, b, c, d}) }

func vPrefix4(a, b, c, d byte, bits int) *bgp.IPAddrPrefix {
	n, _ := bgp.NewIPAddrPrefix(netip.PrefixFrom(vAddr4(a, b, c, d), bits))
	return n
}

// vConn is the transport of a harness: reads come from a fixed byte string; after it the connection
// either ends (io.EOF) or stays silent (the read blocks until a read deadline in the past is set or
// the connection is closed, like a socket). Writes are recorded.
type vConn struct {
	mu         sync.Mutex
	in         []byte
	pos        int
	out        []byte
	closed     bool
	blockAtEOF bool
	woken      bool
	wake       chan struct{}
	delay      time.Duration // the scripted bytes arrive this long after the first read
	delayed    bool
}

var errVConnClosed = errors.New("use of closed network connection")

func newVConn(in []byte, silentAfter bool) *vConn {
	return &vConn{in: in, blockAtEOF: silentAfter, wake: make(chan struct{})}
}

func (c *vConn) Read(b []byte) (int, error) {
	c.mu.Lock()
	if c.closed {
		c.mu.Unlock()
		return 0, errVConnClosed
	}
	if c.delay > 0 && !c.delayed && c.pos < len(c.in) {
		c.delayed = true
		if c.wake == nil {
			c.wake = make(chan struct{})
		}
		w := c.wake
		c.mu.Unlock()
		select {
		case <-time.After(c.delay):
		case <-w:
			c.mu.Lock()
			defer c.mu.Unlock()
			if c.closed {
				return 0, errVConnClosed
			}
			return 0, os.ErrDeadlineExceeded
		}
		c.mu.Lock()
	}
	if c.pos < len(c.in) {
		n := copy(b, c.in[c.pos:])
		c.pos += n
		c.mu.Unlock()
		return n, nil
	}
	if !c.blockAtEOF {
		c.mu.Unlock()
		return 0, io.EOF
	}
	if c.wake == nil {
		c.wake = make(chan struct{})
	}
	w := c.wake
	c.mu.Unlock()
	<-w
	c.mu.Lock()
	defer c.mu.Unlock()
	if c.closed {
		return 0, errVConnClosed
	}
	return 0, os.ErrDeadlineExceeded
}

func (c *vConn) consumed() bool {
	c.mu.Lock()
	defer c.mu.Unlock()
	return c.pos >= len(c.in)
}

func (c *vConn) Write(b []byte) (int, error) {
	c.mu.Lock()
	defer c.mu.Unlock()
	if c.closed {
		return 0, errVConnClosed
	}
	c.out = append(c.out, b...)
	return len(b), nil
}

func (c *vConn) wakeLocked() {
	if c.wake == nil {
		c.wake = make(chan struct{})
	}
	if !c.woken {
		c.woken = true
		close(c.wake)
	}
}

func (c *vConn) Close() error {
	c.mu.Lock()
	defer c.mu.Unlock()
	c.closed = true
	c.wakeLocked()
	return nil
}

func (c *vConn) SetReadDeadline(t time.Time) error {
	c.mu.Lock()
	defer c.mu.Unlock()
	if !t.IsZero() {
		c.wakeLocked()
	} else if c.woken && !c.closed {
		c.woken, c.wake = false, make(chan struct{})
	}
	return nil
}
func (c *vConn) LocalAddr() net.Addr              { return &net.TCPAddr{IP: net.IP{10, 0, 0, 1}, Port: 179} }
func (c *vConn) RemoteAddr() net.Addr             { return &net.TCPAddr{IP: net.IP{10, 0, 0, 2}, Port: 30000} }
func (c *vConn) SetDeadline(time.Time) error      { return nil }
func (c *vConn) SetWriteDeadline(time.Time) error { return nil }

// vNotification returns code and subcode of the first NOTIFICATION among the messages written to
// the connection (0,0,false if there is none), and whether a KEEPALIVE was written.
func (c *vConn) written() (code, subcode uint8, notif, keepalive, open bool) {
	b := c.out
	for len(b) >= 19 {
		l := int(b[16])<<8 | int(b[17])
		if l < 19 || l > len(b) {
			break
		}
		switch b[18] {
		case bgp.BGP_MSG_NOTIFICATION:
			if !notif && l >= 21 {
				code, subcode, notif = b[19], b[20], true
			}
		case bgp.BGP_MSG_KEEPALIVE:
			keepalive = true
		case bgp.BGP_MSG_OPEN:
			open = true
		}
		b = b[l:]
	}
	return
}

// vServer builds a BgpServer with the real constructor (no gRPC listener, no Serve loop) and gives
// it the tables StartBgp would create. The management goroutine is not running: harnesses call the
// step functions (handleFSMMessage, propagateUpdate, ...) themselves.
func vServer(as uint32, families []bgp.Family) *BgpServer {
	s := NewBgpServer()
	s.bgpConfig.Global.Config.As = as
	s.bgpConfig.Global.Config.RouterId = vAddr4(1, 1, 1, 1)
	s.globalRib = table.NewTableManager(s.logger, families)
	s.rsRib = table.NewTableManager(s.logger, families)
	if err := s.policy.Initialize(); err != nil {
		panic(err)
	}
	return s
}

// vNeighbor: configuration of a neighbour 10.0.0.<n> in AS peerAS with the given families.
func vNeighbor(n byte, peerAS, localAS uint32, families []bgp.Family) *oc.Neighbor {
	c := &oc.Neighbor{}
	c.Config.NeighborAddress = vAddr4(10, 0, 0, n)
	c.State.NeighborAddress = c.Config.NeighborAddress
	c.Config.PeerAs, c.State.PeerAs = peerAS, peerAS
	c.Config.LocalAs = localAS
	if peerAS == localAS {
		c.Config.PeerType, c.State.PeerType = oc.PEER_TYPE_INTERNAL, oc.PEER_TYPE_INTERNAL
	} else {
		c.Config.PeerType, c.State.PeerType = oc.PEER_TYPE_EXTERNAL, oc.PEER_TYPE_EXTERNAL
	}
	for _, f := range families {
		a := oc.AfiSafi{}
		a.Config.AfiSafiName = oc.AfiSafiType(f.String())
		a.Config.Enabled = true
		a.State.Family = f
		c.AfiSafis = append(c.AfiSafis, a)
	}
	return c
}

// vRibFor: the table manager addNeighbor gives a peer (route-server clients share their own).
func vRibFor(s *BgpServer, c *oc.Neighbor) *table.TableManager {
	if c.RouteServer.Config.RouteServerClient {
		return s.rsRib
	}
	return s.globalRib
}

// vEstablished adds the neighbour to the server as an established session.
func vEstablished(s *BgpServer, c *oc.Neighbor, families []bgp.Family) *peer {
	p := newPeer(&s.bgpConfig.Global, c, bgp.BGP_FSM_ESTABLISHED, vRibFor(s, c), s.policy, s.logger)
	if c.RouteServer.Config.RouteServerClient {
		s.policy.SetPeerPolicy(p.ID(), c.ApplyPolicy)
	}
	fm := map[bgp.Family]bgp.BGPAddPathMode{}
	for _, f := range families {
		fm[f] = bgp.BGP_ADD_PATH_NONE
	}
	p.fsm.familyMap.Store(fm)
	p.fsm.isEBGP = c.Config.PeerAs != c.Config.LocalAs
	c.State.RemoteRouterId = vAddr4(2, 2, 2, c.State.NeighborAddress.As4()[3])
	c.Transport.State.RemoteAddress = c.State.NeighborAddress
	c.Transport.State.LocalAddress = vAddr4(10, 0, 0, 1)
	p.fsm.pConf.Update(c)
	// what handleFSMMessage stores on entering Established
	p.peerInfo.Store(table.NewPeerInfo(p.fsm.gConf, c, c.State.PeerAs, c.Config.LocalAs, c.State.RemoteRouterId,
		p.fsm.gConf.Config.RouterId, c.Transport.State.RemoteAddress, c.Transport.State.LocalAddress))
	s.neighborMap[c.State.NeighborAddress] = p
	// what a later real transition to Established (vTransition) negotiates from
	caps := []bgp.ParameterCapabilityInterface{bgp.NewCapFourOctetASNumber(c.Config.PeerAs)}
	for _, f := range families {
		caps = append(caps, bgp.NewCapMultiProtocol(f))
	}
	my := uint16(bgp.AS_TRANS)
	if c.Config.PeerAs < 65536 {
		my = uint16(c.Config.PeerAs)
	}
	open, _ := bgp.NewBGPOpenMessage(my, 90, c.State.RemoteRouterId, []bgp.OptionParameterInterface{bgp.NewOptionParameterCapability(caps)})
	p.fsm.recvOpen, p.fsm.conn = open, newVConn(nil, true)
	// no state-machine goroutine runs for fixture peers: stopping one only cancels this context
	p.fsm.h = &fsmHandler{fsm: p.fsm, ctxCancel: func() {}}
	return p
}

func vUpdate4(prefix *bgp.IPAddrPrefix, withdraw bool, aspath []uint32, nh netip.Addr) *bgp.BGPMessage {
	if withdraw {
		return bgp.NewBGPUpdateMessage([]bgp.PathNLRI{{NLRI: prefix}}, nil, nil)
	}
	n, _ := bgp.NewPathAttributeNextHop(nh)
	attrs := []bgp.PathAttributeInterface{bgp.NewPathAttributeOrigin(0),
		bgp.NewPathAttributeAsPath([]bgp.AsPathParamInterface{bgp.NewAs4PathParam(bgp.BGP_ASPATH_ATTR_TYPE_SEQ, aspath)}), n}
	return bgp.NewBGPUpdateMessage(nil, attrs, []bgp.PathNLRI{{NLRI: prefix}})
}

func vTimeUnix(sec int64) time.Time { return time.Unix(sec, 0) }

// vTransition mirrors the tail of fsmHandler.loop for one state change: fsm.stateChange, the
// server callback, then publication of the new state.
func vTransition(s *BgpServer, p *peer, next bgp.FSMState, reason fsmStateReasonType) {
	var n *bgp.BGPMessage
	switch reason {
	case fsmNotificationRecv, fsmNotificationSent:
		n = bgp.NewBGPNotificationMessage(bgp.BGP_ERROR_CEASE, bgp.BGP_ERROR_SUB_PEER_DECONFIGURED, nil)
	case fsmHardReset:
		n = bgp.NewBGPNotificationMessage(bgp.BGP_ERROR_CEASE, bgp.BGP_ERROR_SUB_HARD_RESET, nil)
	}
	r := newfsmStateReason(reason, n, nil)
	p.fsm.stateChange(next, r)
	s.handleFSMMessage(p, &fsmMsg{MsgType: fsmMsgStateChange, MsgData: next, StateReason: r})
	p.fsm.state.Store(next)
}

func vRecv(s *BgpServer, p *peer, m *bgp.BGPMessage, sec int64) {
	s.handleFSMMessage(p, &fsmMsg{MsgType: fsmMsgBGPMessage, MsgData: m, timestamp: time.Unix(5000000000+sec, 0)}) // later than any instant of the modelled clock
}

func vUpdate6(prefix *bgp.IPAddrPrefix, withdraw bool, aspath []uint32) *bgp.BGPMessage {
	if withdraw {
		a, _ := bgp.NewPathAttributeMpUnreachNLRI(bgp.RF_IPv6_UC, []bgp.PathNLRI{{NLRI: prefix}})
		return bgp.NewBGPUpdateMessage(nil, []bgp.PathAttributeInterface{a}, nil)
	}
	nh := netip.AddrFrom16([16]byte{0x20, 0x01, 0x0d, 0xb8, 15: 2})
	mp, _ := bgp.NewPathAttributeMpReachNLRI(bgp.RF_IPv6_UC, []bgp.PathNLRI{{NLRI: prefix}}, nh)
	attrs := []bgp.PathAttributeInterface{bgp.NewPathAttributeOrigin(0),
		bgp.NewPathAttributeAsPath([]bgp.AsPathParamInterface{bgp.NewAs4PathParam(bgp.BGP_ASPATH_ATTR_TYPE_SEQ, aspath)}), mp}
	return bgp.NewBGPUpdateMessage(nil, attrs, nil)
}

type uuidT = uuid.UUID

type netipAddr = netip.Addr

// vEventually waits for something that must happen once the other goroutines have run: in the engine
// one vSettle() is enough (they run until they block); natively the 150 ms of a vSettle() may not be
// under load, so the condition is polled for up to 6 s. Only for expectations of the form "this
// eventually happens" - "this has not happened" is checked after a single vSettle().
func vEventually(cond func() bool) bool {
	for i := 0; i < 40 && !cond(); i++ {
		vSettle()
	}
	return cond()
}
