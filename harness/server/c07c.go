package server

import (
	"context"
	"time"

	"github.com/osrg/gobgp/v4/pkg/packet/bgp"
)

// C07 (timers from the OPEN to the Established session): the hold time the real fsm.stateChange
// (Established) derives from the configured value and the peer's OPEN is the one the real
// fsmHandler.established runs on. Both sides non-zero: silence ends the session with Hold Timer
// Expired exactly min(local, remote) seconds in, KEEPALIVEs were sent meanwhile. Either side zero
// (RFC 4271 4.2 / 10: hold and keepalive timers are not started): nothing expires and no KEEPALIVE
// is sent until the peer's NOTIFICATION arrives 10 s in.
func VH_c07_hold_from_open() {
	remote := []uint16{0, 3, 6}[vChoice("remote_hold", 3)]
	local := []float64{0, 3, 6}[vChoice("local_hold", 3)]
	cease := c07wire(bgp.NewBGPNotificationMessage(bgp.BGP_ERROR_CEASE, bgp.BGP_ERROR_SUB_PEER_DECONFIGURED, nil))
	f, h, conn := c07fsm(bgp.BGP_FSM_OPENCONFIRM, cease, true)
	conn.delay = 10 * time.Second
	conf := f.pConf.ReadCopy()
	conf.Timers.Config.HoldTime, conf.Timers.Config.KeepaliveInterval = local, local/3
	f.pConf.Update(&conf)
	open, _ := bgp.NewBGPOpenMessage(65001, remote, vAddr4(2, 2, 2, 2), []bgp.OptionParameterInterface{
		bgp.NewOptionParameterCapability([]bgp.ParameterCapabilityInterface{bgp.NewCapMultiProtocol(bgp.RF_IPv4_UC), bgp.NewCapFourOctetASNumber(65001)})})
	f.recvOpen = open
	f.stateChange(bgp.BGP_FSM_ESTABLISHED, newfsmStateReason(fsmOpenMsgNegotiated, nil, nil))
	f.state.Store(bgp.BGP_FSM_ESTABLISHED)
	next, reason := h.established(context.Background())
	code, sub, notif, keepalive, _ := conn.written()
	want := int(local)
	if int(remote) < want {
		want = int(remote)
	}
	vAssert(next == bgp.BGP_FSM_IDLE, "the Established session does not end in Idle")
	if want > 0 {
		vAssert(reason.Type == fsmHoldTimerExpired && notif && code == bgp.BGP_ERROR_HOLD_TIMER_EXPIRED && sub == 0, "silence does not end the session with Hold Timer Expired")
		vAssert(vElapsedSec() == uint64(want), "the hold timer does not run for min(configured, received) seconds")
		vAssert(keepalive, "no KEEPALIVE was sent while the hold time was non-zero")
		vReach("expired")
	} else {
		vAssert(reason.Type != fsmHoldTimerExpired && !(notif && code == bgp.BGP_ERROR_HOLD_TIMER_EXPIRED), "a hold timer expired although the negotiated hold time is zero")
		vAssert(vElapsedSec() == 10, "the session with hold time zero ended before the peer's NOTIFICATION arrived")
		vAssert(!keepalive, "KEEPALIVEs are sent although the negotiated hold time is zero")
		vReach("no_timers")
	}
	vReach("end")
}
