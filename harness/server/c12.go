package server

import (
	"net/netip"

	"github.com/osrg/gobgp/v4/internal/pkg/table"
	"github.com/osrg/gobgp/v4/pkg/packet/bgp"
)

// C12: a full graceful-restart cycle on the real BgpServer step functions. A peer with two families
// (IPv4, IPv6) announces one route in each and End-of-RIB for both; the peer listed a symbolic
// subset of the families in its GR capability. The session is lost (gracefully or not); then either
// the restart timer expires or the session is re-established, routes are partially re-announced
// and End-of-RIB arrives for a symbolic subset of the families.

func c12stale(paths []*table.Path, fam bgp.Family) (present, stale bool) {
	for _, p := range paths {
		if p.GetFamily() == fam {
			present, stale = true, p.IsStale()
		}
	}
	return
}

func VH_c12_gr_cycle() {
	fams := []bgp.Family{bgp.RF_IPv4_UC, bgp.RF_IPv6_UC}
	s := vServer(65000, fams)
	c := vNeighbor(2, 65001, 65000, fams)
	c.GracefulRestart.Config.Enabled, c.GracefulRestart.Config.RestartTime = true, 120
	c.Timers.Config.HoldTime, c.Timers.Config.KeepaliveInterval = 90, 30
	var grfam [2]bool
	var tuples []*bgp.CapGracefulRestartTuple
	for i, f := range fams {
		c.AfiSafis[i].MpGracefulRestart.Config.Enabled = true
		grfam[i] = vBool("family_in_gr_capability")
		if grfam[i] {
			afi, safi := f.Afi(), f.Safi()
			tuples = append(tuples, bgp.NewCapGracefulRestartTuple(bgp.NewFamily(afi, safi), true))
		}
	}
	anyGR := grfam[0] || grfam[1]
	p := newPeer(&s.bgpConfig.Global, c, bgp.BGP_FSM_OPENCONFIRM, s.globalRib, s.policy, s.logger)
	s.neighborMap[c.State.NeighborAddress] = p
	caps := []bgp.ParameterCapabilityInterface{bgp.NewCapMultiProtocol(bgp.RF_IPv4_UC), bgp.NewCapMultiProtocol(bgp.RF_IPv6_UC), bgp.NewCapFourOctetASNumber(65001),
		bgp.NewCapGracefulRestart(false, true, 120, tuples)}
	open, _ := bgp.NewBGPOpenMessage(65001, 90, vAddr4(2, 2, 2, 2), []bgp.OptionParameterInterface{bgp.NewOptionParameterCapability(caps)})
	p.fsm.conn, p.fsm.recvOpen = newVConn(nil, true), open

	// session 1
	vTransition(s, p, bgp.BGP_FSM_ESTABLISHED, fsmOpenMsgNegotiated)
	r4 := vPrefix4(10, 1, 0, 0, 16)
	r6, _ := bgp.NewIPAddrPrefix(netip.PrefixFrom(netip.AddrFrom16([16]byte{0x20, 0x01, 0x0d, 0xb8, 1}), 48))
	vRecv(s, p, vUpdate4(r4, false, []uint32{65001}, vAddr4(10, 0, 0, 2)), 3000)
	vRecv(s, p, vUpdate6(r6, false, []uint32{65001}), 3001)
	vRecv(s, p, bgp.NewEndOfRib(bgp.RF_IPv4_UC), 3002)
	vRecv(s, p, bgp.NewEndOfRib(bgp.RF_IPv6_UC), 3003)
	loc := s.globalRib.GetPathList(table.GLOBAL_RIB_NAME, 0, fams)
	vAssert(len(loc) == 2, "routes of the first session were not installed")

	// the loss
	graceful := vBool("graceful_loss")
	reason := fsmGracefulRestart
	if !graceful {
		reason = []fsmStateReasonType{fsmNotificationRecv, fsmHardReset, fsmAdminDown, fsmHoldTimerExpired, fsmReadFailed}[vChoice("loss_kind", 5)]
	}
	vTransition(s, p, bgp.BGP_FSM_IDLE, reason)
	loc = s.globalRib.GetPathList(table.GLOBAL_RIB_NAME, 0, fams)
	for i, f := range fams {
		present, stale := c12stale(loc, f)
		if graceful && grfam[i] {
			vAssert(present && stale, "a route of a family listed in the GR capability was not kept as stale after a graceful loss")
		} else {
			vAssert(!present, "a route of a family not covered by graceful restart (or after a non-graceful loss) was not removed at once")
		}
	}
	if !graceful || !anyGR {
		vReach("dropped")
		return
	}

	if vBool("restart_timer_expires") {
		// the Idle handler reports the expiry with a transition Idle -> Idle
		vTransition(s, p, bgp.BGP_FSM_IDLE, fsmRestartTimerExpired)
		loc = s.globalRib.GetPathList(table.GLOBAL_RIB_NAME, 0, fams)
		vAssert(len(loc) == 0 && p.adjRibIn.Count(fams) == 0, "stale routes survive the expiry of the restart timer")
		vAssert(!p.fsm.pConf.ReadOnly().GracefulRestart.State.PeerRestarting, "the peer is still reported as restarting after the restart timer expired")
		vReach("timer_expired")
		return
	}

	// session 2: same capabilities; partial re-announcement; End-of-RIB for a subset of the families
	p.fsm.conn = newVConn(nil, true)
	vTransition(s, p, bgp.BGP_FSM_ESTABLISHED, fsmOpenMsgNegotiated)
	var again, eor [2]bool
	for i := range fams {
		again[i], eor[i] = vBool("reannounced"), vBool("end_of_rib")
	}
	if again[0] {
		vRecv(s, p, vUpdate4(r4, false, []uint32{65001, 65002}, vAddr4(10, 0, 0, 2)), 4000)
	}
	if again[1] {
		vRecv(s, p, vUpdate6(r6, false, []uint32{65001, 65002}), 4001)
	}
	if eor[0] {
		vRecv(s, p, bgp.NewEndOfRib(bgp.RF_IPv4_UC), 4002)
	}
	if eor[1] {
		vRecv(s, p, bgp.NewEndOfRib(bgp.RF_IPv6_UC), 4003)
	}
	allEOR := (!grfam[0] || eor[0]) && (!grfam[1] || eor[1])
	loc = s.globalRib.GetPathList(table.GLOBAL_RIB_NAME, 0, fams)
	for i, f := range fams {
		present, stale := c12stale(loc, f)
		switch {
		case again[i]:
			vAssert(present && !stale, "a re-announced route is missing or still marked stale")
		case grfam[i] && !allEOR:
			vAssert(present && stale, "a stale route disappeared before End-of-RIB had arrived for every GR family")
		default:
			vAssert(!present, "a route that was not re-announced survives End-of-RIB for every GR family")
		}
	}
	vAssert(p.fsm.pConf.ReadOnly().GracefulRestart.State.PeerRestarting == !allEOR, "the peer's restarting state does not end exactly when End-of-RIB has arrived for every GR family")
	if allEOR {
		vReach("all_eor")
	} else {
		vReach("waiting")
	}
}
