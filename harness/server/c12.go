package server

import (
	"context"
	"net/netip"
	"time"

	"github.com/osrg/gobgp/v4/internal/pkg/table"
	"github.com/osrg/gobgp/v4/pkg/packet/bgp"
)

// C12: a full graceful-restart cycle on the real BgpServer step functions. A peer with two families
// (IPv4, IPv6) announces one route in each and End-of-RIB for both; the peer listed a symbolic
// subset of the families in its GR capability. The session is lost (gracefully or not); then either
// the restart timer expires or the session is re-established, routes are partially re-announced
// and End-of-RIB arrives for a symbolic subset of the families.

func c12stale(paths []*table.Path, fam bgp.Family) (present, stale bool) {
	for _, p := range paths {
		if p.GetFamily() == fam {
			present, stale = true, p.IsStale()
		}
	}
	return
}

func VH_c12_gr_cycle() {
	fams := []bgp.Family{bgp.RF_IPv4_UC, bgp.RF_IPv6_UC}
	s := vServer(65000, fams)
	c := vNeighbor(2, 65001, 65000, fams)
	c.GracefulRestart.Config.Enabled, c.GracefulRestart.Config.RestartTime = true, 120
	c.Timers.Config.HoldTime, c.Timers.Config.KeepaliveInterval = 90, 30
	var grfam [2]bool
	var tuples []*bgp.CapGracefulRestartTuple
	for i, f := range fams {
		c.AfiSafis[i].MpGracefulRestart.Config.Enabled = true
		grfam[i] = vBool("family_in_gr_capability")
		if grfam[i] {
			afi, safi := f.Afi(), f.Safi()
			tuples = append(tuples, bgp.NewCapGracefulRestartTuple(bgp.NewFamily(afi, safi), true))
		}
	}
	anyGR := grfam[0] || grfam[1]
	p := newPeer(&s.bgpConfig.Global, c, bgp.BGP_FSM_OPENCONFIRM, s.globalRib, s.policy, s.logger)
	s.neighborMap[c.State.NeighborAddress] = p
	caps := []bgp.ParameterCapabilityInterface{bgp.NewCapMultiProtocol(bgp.RF_IPv4_UC), bgp.NewCapMultiProtocol(bgp.RF_IPv6_UC), bgp.NewCapFourOctetASNumber(65001),
		bgp.NewCapGracefulRestart(false, true, 120, tuples)}
	open, _ := bgp.NewBGPOpenMessage(65001, 90, vAddr4(2, 2, 2, 2), []bgp.OptionParameterInterface{bgp.NewOptionParameterCapability(caps)})
	p.fsm.conn, p.fsm.recvOpen = newVConn(nil, true), open

	// session 1
	vTransition(s, p, bgp.BGP_FSM_ESTABLISHED, fsmOpenMsgNegotiated)
	r4 := vPrefix4(10, 1, 0, 0, 16)
	r6, _ := bgp.NewIPAddrPrefix(netip.PrefixFrom(netip.AddrFrom16([16]byte{0x20, 0x01, 0x0d, 0xb8, 1}), 48))
	vRecv(s, p, vUpdate4(r4, false, []uint32{65001}, vAddr4(10, 0, 0, 2)), 3000)
	vRecv(s, p, vUpdate6(r6, false, []uint32{65001}), 3001)
	vRecv(s, p, bgp.NewEndOfRib(bgp.RF_IPv4_UC), 3002)
	vRecv(s, p, bgp.NewEndOfRib(bgp.RF_IPv6_UC), 3003)
	loc := s.globalRib.GetPathList(table.GLOBAL_RIB_NAME, 0, fams)
	vAssert(len(loc) == 2, "routes of the first session were not installed")

	// the loss
	graceful := vBool("graceful_loss")
	reason := fsmGracefulRestart
	if !graceful {
		reason = []fsmStateReasonType{fsmNotificationRecv, fsmHardReset, fsmAdminDown, fsmHoldTimerExpired, fsmReadFailed}[vChoice("loss_kind", 5)]
	}
	vTransition(s, p, bgp.BGP_FSM_IDLE, reason)
	loc = s.globalRib.GetPathList(table.GLOBAL_RIB_NAME, 0, fams)
	for i, f := range fams {
		present, stale := c12stale(loc, f)
		if graceful && grfam[i] {
			vAssert(present && stale, "a route of a family listed in the GR capability was not kept as stale after a graceful loss")
		} else {
			vAssert(!present, "a route of a family not covered by graceful restart (or after a non-graceful loss) was not removed at once")
		}
	}
	if !graceful || !anyGR {
		vReach("dropped")
		return
	}

	if vBool("restart_timer_expires") {
		// the Idle handler reports the expiry with a transition Idle -> Idle
		vTransition(s, p, bgp.BGP_FSM_IDLE, fsmRestartTimerExpired)
		loc = s.globalRib.GetPathList(table.GLOBAL_RIB_NAME, 0, fams)
		vAssert(len(loc) == 0 && p.adjRibIn.Count(fams) == 0, "stale routes survive the expiry of the restart timer")
		vAssert(!p.fsm.pConf.ReadOnly().GracefulRestart.State.PeerRestarting, "the peer is still reported as restarting after the restart timer expired")
		vReach("timer_expired")
		return
	}

	// session 2: same capabilities; partial re-announcement; End-of-RIB for a subset of the families
	p.fsm.conn = newVConn(nil, true)
	vTransition(s, p, bgp.BGP_FSM_ESTABLISHED, fsmOpenMsgNegotiated)
	var again, eor [2]bool
	for i := range fams {
		again[i], eor[i] = vBool("reannounced"), vBool("end_of_rib")
	}
	if again[0] {
		vRecv(s, p, vUpdate4(r4, false, []uint32{65001, 65002}, vAddr4(10, 0, 0, 2)), 4000)
	}
	if again[1] {
		vRecv(s, p, vUpdate6(r6, false, []uint32{65001, 65002}), 4001)
	}
	if eor[0] {
		vRecv(s, p, bgp.NewEndOfRib(bgp.RF_IPv4_UC), 4002)
	}
	if eor[1] {
		vRecv(s, p, bgp.NewEndOfRib(bgp.RF_IPv6_UC), 4003)
	}
	allEOR := (!grfam[0] || eor[0]) && (!grfam[1] || eor[1])
	loc = s.globalRib.GetPathList(table.GLOBAL_RIB_NAME, 0, fams)
	for i, f := range fams {
		present, stale := c12stale(loc, f)
		switch {
		case again[i]:
			vAssert(present && !stale, "a re-announced route is missing or still marked stale")
		case grfam[i] && !allEOR:
			vAssert(present && stale, "a stale route disappeared before End-of-RIB had arrived for every GR family")
		default:
			vAssert(!present, "a route that was not re-announced survives End-of-RIB for every GR family")
		}
	}
	vAssert(p.fsm.pConf.ReadOnly().GracefulRestart.State.PeerRestarting == !allEOR, "the peer's restarting state does not end exactly when End-of-RIB has arrived for every GR family")
	if allEOR {
		vReach("all_eor")
	} else {
		vReach("waiting")
	}
}

// C12 (long-lived GR): after the restart timer expires without re-establishment, routes of the
// families covered by long-lived graceful restart are kept carrying LLGR_STALE (routes marked
// NO_LLGR are dropped, other families go at once), they are only advertised to LLGR-capable peers,
// and they disappear when the per-family long-lived timer expires (virtual clock; the expiry runs
// through the real management loop).
func VH_c12_llgr() {
	fams := []bgp.Family{bgp.RF_IPv4_UC, bgp.RF_IPv6_UC}
	v4 := []bgp.Family{bgp.RF_IPv4_UC}
	s := vServer(65000, fams)
	go s.Serve()
	c := vNeighbor(2, 65001, 65000, fams)
	c.GracefulRestart.Config.Enabled, c.GracefulRestart.Config.RestartTime = true, 120
	c.GracefulRestart.Config.LongLivedEnabled = true
	c.Timers.Config.HoldTime, c.Timers.Config.KeepaliveInterval = 90, 30
	llgr6 := vBool("ipv6_in_llgr_capability")
	llgrTime := uint32(vInt("llgr_time", 1, 2))
	gtuples := []*bgp.CapGracefulRestartTuple{}
	ltuples := []*bgp.CapLongLivedGracefulRestartTuple{}
	for i, f := range fams {
		c.AfiSafis[i].MpGracefulRestart.Config.Enabled = true
		c.AfiSafis[i].LongLivedGracefulRestart.Config.Enabled = true
		gtuples = append(gtuples, bgp.NewCapGracefulRestartTuple(f, true))
		if i == 0 || llgr6 {
			ltuples = append(ltuples, bgp.NewCapLongLivedGracefulRestartTuple(f, true, llgrTime))
		}
	}
	// route_server = 1: the three neighbours are route-server clients and the peer without the
	// long-lived GR capability asked for secondary routes (sendSecondaryRoutes instead of filterpath)
	rs := vParam("route_server") == 1
	rib, tableID := s.globalRib, table.GLOBAL_RIB_NAME
	if rs {
		c.RouteServer.Config.RouteServerClient = true
		rib = s.rsRib
	}
	p := newPeer(&s.bgpConfig.Global, c, bgp.BGP_FSM_OPENCONFIRM, rib, s.policy, s.logger)
	if rs {
		s.policy.SetPeerPolicy(p.ID(), c.ApplyPolicy)
	}
	s.neighborMap[c.State.NeighborAddress] = p
	caps := []bgp.ParameterCapabilityInterface{bgp.NewCapMultiProtocol(bgp.RF_IPv4_UC), bgp.NewCapMultiProtocol(bgp.RF_IPv6_UC), bgp.NewCapFourOctetASNumber(65001),
		bgp.NewCapGracefulRestart(false, true, 120, gtuples), bgp.NewCapLongLivedGracefulRestart(ltuples)}
	open, _ := bgp.NewBGPOpenMessage(65001, 90, vAddr4(2, 2, 2, 2), []bgp.OptionParameterInterface{bgp.NewOptionParameterCapability(caps)})
	p.fsm.conn, p.fsm.recvOpen = newVConn(nil, true), open
	// two observers: one LLGR-capable for IPv4, one not
	tc := vNeighbor(4, 65003, 65000, v4)
	tc.GracefulRestart.Config.LongLivedEnabled = true
	tc.AfiSafis[0].LongLivedGracefulRestart.State.Enabled = true
	pc := vNeighbor(5, 65004, 65000, v4)
	if rs {
		tc.RouteServer.Config.RouteServerClient = true
		pc.RouteServer.Config.RouteServerClient = true
		pc.RouteServer.Config.SecondaryRoute = true
	}
	capable := vEstablished(s, tc, v4)
	plain := vEstablished(s, pc, v4)
	if rs {
		tableID = capable.TableID()
	}
	views := map[*peer]map[string]*table.Path{capable: {}, plain: {}}
	drain := func() {
		for t, view := range views {
			for t.fsm.outgoingCh.Len() > 0 {
				m := (<-t.fsm.outgoingCh.Out()).(*fsmOutgoingMsg)
				for _, q := range m.Paths {
					if q.IsWithdraw {
						delete(view, q.GetPrefix())
					} else {
						view[q.GetPrefix()] = q
					}
				}
			}
		}
		for p.fsm.outgoingCh.Len() > 0 {
			<-p.fsm.outgoingCh.Out()
		}
	}

	vTransition(s, p, bgp.BGP_FSM_ESTABLISHED, fsmOpenMsgNegotiated)
	r4, r4n := vPrefix4(10, 1, 0, 0, 16), vPrefix4(10, 2, 0, 0, 16)
	r6, _ := bgp.NewIPAddrPrefix(netip.PrefixFrom(netip.AddrFrom16([16]byte{0x20, 0x01, 0x0d, 0xb8, 1}), 48))
	vRecv(s, p, vUpdate4(r4, false, []uint32{65001}, vAddr4(10, 0, 0, 2)), 3000)
	noLLGR := vUpdate4(r4n, false, []uint32{65001}, vAddr4(10, 0, 0, 2))
	u := noLLGR.Body.(*bgp.BGPUpdate)
	u.PathAttributes = append(u.PathAttributes, bgp.NewPathAttributeCommunities([]uint32{uint32(bgp.COMMUNITY_NO_LLGR)}))
	vRecv(s, p, noLLGR, 3001)
	vRecv(s, p, vUpdate6(r6, false, []uint32{65001}), 3002)
	drain()
	vAssert(len(views[plain]) == 2 && len(views[capable]) == 2, "the IPv4 routes of the first session were not advertised")

	vTransition(s, p, bgp.BGP_FSM_IDLE, fsmGracefulRestart)
	drain()
	// the restart timer expires without re-establishment: long-lived phase
	vTransition(s, p, bgp.BGP_FSM_IDLE, fsmRestartTimerExpired)
	drain()
	loc := rib.GetPathList(tableID, 0, fams)
	var kept4, keptNo, kept6 *table.Path
	for _, q := range loc {
		switch q.GetPrefix() {
		case r4.String():
			kept4 = q
		case r4n.String():
			keptNo = q
		default:
			kept6 = q
		}
	}
	vAssert(kept4 != nil && kept4.IsLLGRStale(), "a route of a long-lived GR family is not kept carrying LLGR_STALE")
	vAssert(keptNo == nil, "a route marked NO_LLGR survives into the long-lived phase")
	vAssert((kept6 != nil) == llgr6, "IPv6 routes are not kept exactly when the peer listed IPv6 in its long-lived GR capability")
	_, plainHas := views[plain][r4.String()]
	cv, capHas := views[capable][r4.String()]
	vAssert(!plainHas, "an LLGR_STALE route stays advertised to a peer without the long-lived GR capability")
	vAssert(capHas && cv.IsLLGRStale(), "an LLGR-capable peer is not told the route with LLGR_STALE")
	vAssert(len(views[plain]) == 0 && len(views[capable]) == 1, "routes that were dropped stay advertised")

	// silence until the long-lived timer has run out
	<-time.After(time.Duration(llgrTime+1) * time.Second)
	drain()
	loc = rib.GetPathList(tableID, 0, fams)
	vAssert(len(loc) == 0 && p.adjRibIn.Count(fams) == 0, "LLGR_STALE routes survive the expiry of the long-lived timer")
	vAssert(len(views[capable]) == 0, "an LLGR_STALE route stays advertised after the long-lived timer expired")
	vAssert(!p.fsm.pConf.ReadOnly().GracefulRestart.State.PeerRestarting, "the peer is still reported as restarting after every long-lived timer expired")

	// a second cycle behaves like the first: re-establish, announce, lose the session, let the
	// restart timer expire - the route is kept as LLGR_STALE again
	p.fsm.conn = newVConn(nil, true)
	vTransition(s, p, bgp.BGP_FSM_ESTABLISHED, fsmOpenMsgNegotiated)
	vRecv(s, p, vUpdate4(r4, false, []uint32{65001}, vAddr4(10, 0, 0, 2)), 5000)
	vRecv(s, p, bgp.NewEndOfRib(bgp.RF_IPv4_UC), 5001)
	vRecv(s, p, bgp.NewEndOfRib(bgp.RF_IPv6_UC), 5002)
	drain()
	vTransition(s, p, bgp.BGP_FSM_IDLE, fsmGracefulRestart)
	vTransition(s, p, bgp.BGP_FSM_IDLE, fsmRestartTimerExpired)
	drain()
	kept4 = nil
	for _, q := range rib.GetPathList(tableID, 0, fams) {
		if q.GetPrefix() == r4.String() {
			kept4 = q
		}
	}
	vAssert(kept4 != nil && kept4.IsLLGRStale(), "in a second restart cycle the route is not kept carrying LLGR_STALE")
	_, plainHas = views[plain][r4.String()]
	vAssert(!plainHas, "in a second restart cycle an LLGR_STALE route stays advertised to a peer without the capability")
	vReach("end")
}

// C12 (restarting speaker): while the speaker itself is restarting it withholds its advertisements
// until every graceful-restart peer has sent End-of-RIB, or until the deferral timer fires.
func VH_c12_deferral() {
	fams := []bgp.Family{bgp.RF_IPv4_UC}
	s := vServer(65000, fams)
	go s.Serve()
	deferral := vInt("deferral_time", 1, 2)
	mk := func(n byte, as uint32) *peer {
		c := vNeighbor(n, as, 65000, fams)
		c.GracefulRestart.Config.Enabled, c.GracefulRestart.Config.RestartTime = true, 120
		c.GracefulRestart.Config.DeferralTime = uint16(deferral)
		c.GracefulRestart.State.LocalRestarting = true
		c.AfiSafis[0].MpGracefulRestart.Config.Enabled = true
		c.Timers.Config.HoldTime, c.Timers.Config.KeepaliveInterval = 90, 30
		p := newPeer(&s.bgpConfig.Global, c, bgp.BGP_FSM_OPENCONFIRM, s.globalRib, s.policy, s.logger)
		s.neighborMap[c.State.NeighborAddress] = p
		caps := []bgp.ParameterCapabilityInterface{bgp.NewCapMultiProtocol(bgp.RF_IPv4_UC), bgp.NewCapFourOctetASNumber(as),
			bgp.NewCapGracefulRestart(false, true, 120, []*bgp.CapGracefulRestartTuple{bgp.NewCapGracefulRestartTuple(bgp.RF_IPv4_UC, true)})}
		my := uint16(as)
		open, _ := bgp.NewBGPOpenMessage(my, 90, vAddr4(2, 2, 2, n), []bgp.OptionParameterInterface{bgp.NewOptionParameterCapability(caps)})
		p.fsm.conn, p.fsm.recvOpen = newVConn(nil, true), open
		p.fsm.h = &fsmHandler{fsm: p.fsm, ctxCancel: func() {}}
		return p
	}
	p1, p2 := mk(2, 65001), mk(3, 65002)
	told := map[*peer]int{}
	drain := func() {
		vSettle()
		for _, p := range []*peer{p1, p2} {
			for p.fsm.outgoingCh.Len() > 0 {
				m := (<-p.fsm.outgoingCh.Out()).(*fsmOutgoingMsg)
				for _, q := range m.Paths {
					if !q.IsEOR() && !q.IsWithdraw {
						told[p]++
					}
				}
			}
		}
	}
	vTransition(s, p1, bgp.BGP_FSM_ESTABLISHED, fsmOpenMsgNegotiated)
	late := vBool("second_peer_establishes_late")
	if !late {
		vTransition(s, p2, bgp.BGP_FSM_ESTABLISHED, fsmOpenMsgNegotiated)
	}
	vRecv(s, p1, vUpdate4(vPrefix4(10, 1, 0, 0, 16), false, []uint32{65001}, vAddr4(10, 0, 0, 2)), 10)
	vRecv(s, p1, bgp.NewEndOfRib(bgp.RF_IPv4_UC), 11)
	drain()
	vAssert(told[p2] == 0 && told[p1] == 0, "a restarting speaker advertised routes before every graceful-restart peer had sent End-of-RIB")
	vAssert(p1.fsm.pConf.ReadOnly().GracefulRestart.State.LocalRestarting, "the restart phase ended although a graceful-restart peer has not sent End-of-RIB (it may not even be established yet)")
	if late {
		// the second graceful-restart peer comes up only now
		vTransition(s, p2, bgp.BGP_FSM_ESTABLISHED, fsmOpenMsgNegotiated)
		drain()
		vAssert(told[p2] == 0, "a restarting speaker advertised routes to a peer that has just come up, before its End-of-RIB")
	}
	if vBool("second_peer_sends_end_of_rib") {
		vRecv(s, p2, bgp.NewEndOfRib(bgp.RF_IPv4_UC), 12)
		drain()
		vAssert(told[p2] == 1, "the route learned during the restart is not advertised once every peer has sent End-of-RIB")
		vAssert(vElapsedSec() == 0, "advertisement after the last End-of-RIB waited for the deferral timer")
		vReach("all_eor")
	} else {
		<-time.After(time.Duration(deferral)*time.Second + 500*time.Millisecond)
		drain()
		vAssert(told[p2] == 1, "the route learned during the restart is not advertised when the deferral timer fires")
		vReach("deferral_expired")
	}
	vAssert(!p2.fsm.pConf.ReadOnly().GracefulRestart.State.LocalRestarting, "the speaker is still marked as restarting towards a peer after the restart phase ended")
}

// C12 (restart timer): after a graceful loss the stale routes live for the restart time the PEER
// advertised: established() arms the restart timer with it and idle() reports its expiry then.
func VH_c12_restart_timer() {
	f, h, _ := c07fsm(bgp.BGP_FSM_ESTABLISHED, nil, false) // the peer closes the connection at once
	peerTime, localTime := uint16(vInt("peer_restart_time", 1, 2)), uint16(vInt("local_restart_time", 3, 4))
	conf := f.pConf.ReadCopy()
	conf.Timers.State.NegotiatedHoldTime, conf.Timers.State.KeepaliveInterval = 90, 30
	conf.GracefulRestart.Config.Enabled, conf.GracefulRestart.Config.RestartTime = true, localTime
	conf.GracefulRestart.State.Enabled, conf.GracefulRestart.State.PeerRestartTime = true, peerTime
	f.pConf.Update(&conf)
	f.familyMap.Store(map[bgp.Family]bgp.BGPAddPathMode{bgp.RF_IPv4_UC: bgp.BGP_ADD_PATH_NONE})
	next, reason := h.established(context.Background())
	vAssert(next == bgp.BGP_FSM_IDLE && reason.Type == fsmGracefulRestart, "a transport failure on a graceful-restart session is not a graceful loss")
	// what handleFSMMessage records on the graceful PeerDown
	conf = f.pConf.ReadCopy()
	conf.GracefulRestart.State.PeerRestarting = true
	f.pConf.Update(&conf)
	f.idleHoldTime = 3600
	next, reason = h.idle(context.Background())
	vAssert(next == bgp.BGP_FSM_IDLE && reason.Type == fsmRestartTimerExpired, "the restart timer does not end the restart window")
	vAssert(vElapsedSec() == uint64(peerTime), "the restart window does not last the restart time the peer advertised")
	vReach("end")
}
