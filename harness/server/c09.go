package server

import (
	"time"

	"github.com/osrg/gobgp/v4/internal/pkg/table"
	"github.com/osrg/gobgp/v4/pkg/config/oc"
	"github.com/osrg/gobgp/v4/pkg/packet/bgp"
)

// C09 (loop prevention on export): a route is never advertised back to the router it came from,
// to an eBGP peer whose AS is already in its AS_PATH (in any segment type), or from a non-client
// iBGP peer to another non-client iBGP peer.

func VH_c09_filterpath() {
	localAS := uint32(65000)
	peerAS := vU32("peer_as")
	vAssume(peerAS != 0)
	ibgp := vBool("ibgp")
	if ibgp {
		vAssume(peerAS == localAS)
	} else {
		vAssume(peerAS != localAS)
	}
	conf := &oc.Neighbor{}
	conf.State.PeerAs, conf.Config.PeerAs = peerAS, peerAS
	conf.State.NeighborAddress = vAddr4(192, 0, 2, 9)
	conf.State.RemoteRouterId = vAddr4(9, 9, 9, 9)
	conf.State.PeerType = oc.PEER_TYPE_EXTERNAL
	if ibgp {
		conf.State.PeerType = oc.PEER_TYPE_INTERNAL
	}
	rrClient := ibgp && vBool("rr_client")
	conf.RouteReflector.Config.RouteReflectorClient = rrClient
	g := &oc.Global{Config: oc.GlobalConfig{As: localAS, RouterId: vAddr4(1, 1, 1, 1)}}
	p := vPeer(conf, g, map[bgp.Family]bgp.BGPAddPathMode{bgp.RF_IPv4_UC: bgp.BGP_ADD_PATH_NONE})

	// the route: learned from another peer (symbolic AS, may be an RR client) or from this very peer
	srcAS := vU32("src_as")
	fromSame := vBool("from_same_router")
	src := &table.PeerInfo{AS: srcAS, LocalAS: localAS, ID: vAddr4(8, 8, 8, 8), Address: vAddr4(192, 0, 2, 8), RouteReflectorClient: vBool("src_rr_client")}
	if fromSame {
		src.ID, src.Address, src.AS = conf.State.RemoteRouterId, conf.State.NeighborAddress, peerAS
	}
	a, b, c := vU32("as_a"), vU32("as_b"), vU32("as_c")
	var segs []bgp.AsPathParamInterface
	switch vChoice("shape", 3) {
	case 0:
		segs = []bgp.AsPathParamInterface{bgp.NewAs4PathParam(bgp.BGP_ASPATH_ATTR_TYPE_SEQ, []uint32{a, b})}
	case 1:
		segs = []bgp.AsPathParamInterface{bgp.NewAs4PathParam(bgp.BGP_ASPATH_ATTR_TYPE_SEQ, []uint32{a}), bgp.NewAs4PathParam(bgp.BGP_ASPATH_ATTR_TYPE_SET, []uint32{b, c})}
	default:
		segs = []bgp.AsPathParamInterface{bgp.NewAs4PathParam(bgp.BGP_ASPATH_ATTR_TYPE_CONFED_SEQ, []uint32{a}), bgp.NewAs4PathParam(bgp.BGP_ASPATH_ATTR_TYPE_SEQ, []uint32{b})}
	}
	// "already in its AS_PATH": the AS_SEQUENCE / AS_SET part; confederation segments are stripped
	// before the route leaves the confederation and are the receiving member's own check inside it
	inPath := false
	for _, s := range segs {
		if s.GetType() != bgp.BGP_ASPATH_ATTR_TYPE_SEQ && s.GetType() != bgp.BGP_ASPATH_ATTR_TYPE_SET {
			continue
		}
		for _, x := range s.GetAS() {
			if x == peerAS {
				inPath = true
			}
		}
	}
	nh, _ := bgp.NewPathAttributeNextHop(vAddr4(10, 0, 0, 1))
	attrs := []bgp.PathAttributeInterface{bgp.NewPathAttributeOrigin(0), bgp.NewPathAttributeAsPath(segs), nh}
	path := table.NewPath(bgp.RF_IPv4_UC, src, bgp.PathNLRI{NLRI: vPrefix4(10, 1, 0, 0, 16)}, false, attrs, time.Unix(1000, 0), false)
	out := filterpath(p, path, nil)
	advertised := out != nil && !out.IsWithdraw
	if fromSame {
		vAssert(!advertised, "route advertised back to the router it came from")
	}
	if !ibgp && inPath {
		vAssert(!advertised, "route advertised to an eBGP peer whose AS is already in its AS_PATH")
	}
	if ibgp && !rrClient && !fromSame && srcAS == localAS && !src.RouteReflectorClient {
		vAssert(!advertised, "route from a non-client iBGP peer advertised to another non-client iBGP peer")
	}
	if !fromSame && !inPath && !(ibgp && srcAS == peerAS) {
		vAssert(advertised && out == path, "route withheld although no loop-prevention rule applies")
	}
	vReach("end")
}

// C09 (inbound loop): a received route is not used when the local AS (or the confederation
// identifier) occurs in its AS_PATH more often than allow-own-as permits, counted over the whole
// path - decided by the real hasOwnASLoop and by the real peer.handleUpdate.
func VH_c09_own_as_loop() {
	const local, confed = 65100, 65200
	allow := vInt("allow_own_as", 0, 2)
	confedOn := vBool("confederation")
	as := []uint32{vU32("as"), vU32("as"), vU32("as"), vU32("as")}
	segs := []bgp.AsPathParamInterface{bgp.NewAs4PathParam(bgp.BGP_ASPATH_ATTR_TYPE_SEQ, as[:2])}
	if vBool("second_segment_is_set") {
		segs = append(segs, bgp.NewAs4PathParam(bgp.BGP_ASPATH_ATTR_TYPE_SET, as[2:]))
	} else {
		segs = append(segs, bgp.NewAs4PathParam(bgp.BGP_ASPATH_ATTR_TYPE_SEQ, as[2:]))
	}
	cnt := 0
	for _, a := range as {
		if a == local || confedOn && a == confed {
			cnt++
		}
	}
	want := cnt > allow
	got := hasOwnASLoop(local, allow, bgp.NewPathAttributeAsPath(segs), confed, confedOn)
	vAssert(got == want, "the own-AS loop test does not count the occurrences of the local AS over the whole AS_PATH against allow-own-as")
	if want {
		vReach("loop")
	} else {
		vReach("clean")
	}
}
