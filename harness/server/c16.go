package server

import (
	"github.com/osrg/gobgp/v4/internal/pkg/table"
	"github.com/osrg/gobgp/v4/pkg/config/oc"
	"github.com/osrg/gobgp/v4/pkg/packet/bgp"
	"github.com/osrg/gobgp/v4/pkg/packet/rtr"
)

// C16 (RTR side): after cache responses, prefix announcements / withdrawals and end-of-data with the
// same or a new session id, the ROA table equals the records announced and not withdrawn by the cache.

func c16send(m *roaManager, c *roaClient, pdu rtr.RTRMessage) {
	b, err := pdu.Serialize()
	vAssert(err == nil, "PDU cannot be serialised")
	m.handleRTRMsg(c, &c.state, b)
}

func c16has(m *roaManager, third byte, as uint32) bool {
	l, _ := m.table.List(bgp.RF_IPv4_UC)
	for _, r := range l {
		if r.Network.IP[2] == third && r.AS == as {
			return true
		}
	}
	return false
}

func c16count(m *roaManager) int {
	l, _ := m.table.List(bgp.RF_IPv4_UC)
	return len(l)
}

func VH_c16_rtr_sessions() {
	m := &roaManager{clientMap: map[string]*roaClient{}, table: table.NewROATable(vLogger()), logger: vLogger()}
	c := &roaClient{host: "cacheA", pendingROAs: make([]*table.ROA, 0), state: oc.RpkiServerState{}}
	s1, s2 := vU16("session1"), vU16("session2")
	asA, asB, asC := vU32("as_a"), vU32("as_b"), vU32("as_c")
	ann := func(third byte, as uint32) rtr.RTRMessage { return rtr.NewRTRIPPrefix(vAddr4(10, 1, third, 0), 24, 24, as, 1) }
	wd := func(third byte, as uint32) rtr.RTRMessage { return rtr.NewRTRIPPrefix(vAddr4(10, 1, third, 0), 24, 24, as, 0) }

	// first full response under session s1: records A and B
	c16send(m, c, rtr.NewRTRCacheResponse(s1))
	c16send(m, c, ann(1, asA))
	c16send(m, c, ann(2, asB))
	vAssert(c16count(m) == 0, "records are visible before End of Data")
	c16send(m, c, rtr.NewRTREndOfData(s1, vU32("serial1")))
	vAssert(c16count(m) == 2 && c16has(m, 1, asA) && c16has(m, 2, asB), "after End of Data the table is not the announced records")

	// incremental update in the same session: withdraw B (or a record that was never announced)
	if vBool("withdraw_known") {
		c16send(m, c, wd(2, asB))
		vAssert(c16count(m) == 1 && c16has(m, 1, asA) && !c16has(m, 2, asB), "withdrawal did not remove exactly the withdrawn record")
		c16send(m, c, ann(2, asB)) // and announce it again: applied at once after End of Data
		vAssert(c16count(m) == 2, "incremental announcement after End of Data not applied")
	} else {
		c16send(m, c, wd(9, asC))
		vAssert(c16count(m) == 2, "withdrawal of an unknown record changed the table")
	}

	// a second full response, under the same or a new session id, announcing only C
	c16send(m, c, rtr.NewRTRCacheResponse(s2))
	c16send(m, c, ann(3, asC))
	vAssert(!c16has(m, 3, asC) || (asC == asA || asC == asB) && false, "record visible before End of Data of the second response")
	c16send(m, c, rtr.NewRTREndOfData(s2, vU32("serial2")))
	if s2 != s1 {
		vAssert(c16count(m) == 1 && c16has(m, 3, asC), "records of the previous session survived a session change")
	} else {
		vAssert(c16count(m) == 3 && c16has(m, 1, asA) && c16has(m, 2, asB) && c16has(m, 3, asC), "same-session response lost or duplicated records")
	}
	vReach("end")
}

// C16 (two caches): the same record may be announced by two caches; removing one cache (DeleteServer's
// table step) or a withdrawal by the cache that never announced a record leaves the other cache's
// records in place - the table stays "announced and not withdrawn, per cache".
func VH_c16_rtr_two_caches() {
	m := &roaManager{clientMap: map[string]*roaClient{}, table: table.NewROATable(vLogger()), logger: vLogger()}
	a := &roaClient{host: "cacheA", pendingROAs: make([]*table.ROA, 0), state: oc.RpkiServerState{}}
	b := &roaClient{host: "cacheB", pendingROAs: make([]*table.ROA, 0), state: oc.RpkiServerState{}}
	m.clientMap[a.host], m.clientMap[b.host] = a, b
	asA, asB, asX := vU32("as_a"), vU32("as_b"), vU32("as_x")
	ann := func(third byte, as uint32) rtr.RTRMessage { return rtr.NewRTRIPPrefix(vAddr4(10, 1, third, 0), 24, 24, as, 1) }
	wd := func(third byte, as uint32) rtr.RTRMessage { return rtr.NewRTRIPPrefix(vAddr4(10, 1, third, 0), 24, 24, as, 0) }
	sA, sB := vU16("session_a"), vU16("session_b")
	c16send(m, a, rtr.NewRTRCacheResponse(sA))
	c16send(m, a, ann(1, asA))
	c16send(m, a, ann(2, asB))
	c16send(m, a, rtr.NewRTREndOfData(sA, vU32("serial_a")))
	c16send(m, b, rtr.NewRTRCacheResponse(sB))
	c16send(m, b, ann(1, asX)) // asX may equal asA: the same record from both caches
	c16send(m, b, rtr.NewRTREndOfData(sB, vU32("serial_b")))
	vAssert(c16count(m) == 3 && c16has(m, 1, asA) && c16has(m, 2, asB) && c16has(m, 1, asX), "table is not the union of both caches' records")
	switch vParam("op") {
	case 0: // cache A is removed: exactly B's record stays
		m.table.DeleteAll(a.host)
		vAssert(c16count(m) == 1 && c16has(m, 1, asX), "removing a cache removed or kept records of the other cache")
	case 1: // cache B withdraws a record only A announced (and, when asX == asA, its own copy of record 1 stays)
		c16send(m, b, wd(2, asB))
		vAssert(c16count(m) == 3 && c16has(m, 2, asB), "a withdrawal by one cache removed the other cache's record")
	case 2: // cache B withdraws its record: A's copy (if asX == asA) stays
		c16send(m, b, wd(1, asX))
		vAssert(c16count(m) == 2 && c16has(m, 1, asA) && c16has(m, 2, asB), "withdrawal by cache B touched cache A's records")
		if asX == asA {
			vReach("same_record")
		}
	case 3: // cache A starts a new session announcing nothing: only B's record stays
		s2 := vU16("session_a2")
		c16send(m, a, rtr.NewRTRCacheResponse(s2))
		c16send(m, a, rtr.NewRTREndOfData(s2, vU32("serial_a2")))
		if s2 != sA {
			vAssert(c16count(m) == 1 && c16has(m, 1, asX), "session change of cache A removed or kept the wrong records")
		} else {
			vAssert(c16count(m) == 3, "empty same-session response changed the table")
		}
	}
	vReach("end")
}
