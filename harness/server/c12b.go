package server

import (
	"net/netip"
	"time"

	"github.com/osrg/gobgp/v4/internal/pkg/table"
	"github.com/osrg/gobgp/v4/pkg/packet/bgp"
)

// C12 (per-family long-lived timers): IPv4 and IPv6 carry their own long-lived stale time (both
// symbolic). After the restart timer expired the LLGR_STALE routes of each family must live exactly
// until that family's timer runs out: the family whose timer is longer keeps its routes, and the
// peer stays "restarting", after the other family's timer fired - in either order of the two timers.
func VH_c12_llgr_two_timers() {
	fams := []bgp.Family{bgp.RF_IPv4_UC, bgp.RF_IPv6_UC}
	s := vServer(65000, fams)
	go s.Serve()
	c := vNeighbor(2, 65001, 65000, fams)
	c.GracefulRestart.Config.Enabled, c.GracefulRestart.Config.RestartTime = true, 120
	c.GracefulRestart.Config.LongLivedEnabled = true
	c.Timers.Config.HoldTime, c.Timers.Config.KeepaliveInterval = 90, 30
	t4 := vInt("llgr_time_ipv4", 1, 3)
	t6 := vInt("llgr_time_ipv6", 1, 3)
	times := []int{t4, t6}
	gtuples := []*bgp.CapGracefulRestartTuple{}
	ltuples := []*bgp.CapLongLivedGracefulRestartTuple{}
	for i, f := range fams {
		c.AfiSafis[i].MpGracefulRestart.Config.Enabled = true
		c.AfiSafis[i].LongLivedGracefulRestart.Config.Enabled = true
		gtuples = append(gtuples, bgp.NewCapGracefulRestartTuple(f, true))
		ltuples = append(ltuples, bgp.NewCapLongLivedGracefulRestartTuple(f, true, uint32(times[i])))
	}
	rib := s.globalRib
	p := newPeer(&s.bgpConfig.Global, c, bgp.BGP_FSM_OPENCONFIRM, rib, s.policy, s.logger)
	s.neighborMap[c.State.NeighborAddress] = p
	caps := []bgp.ParameterCapabilityInterface{bgp.NewCapMultiProtocol(bgp.RF_IPv4_UC), bgp.NewCapMultiProtocol(bgp.RF_IPv6_UC), bgp.NewCapFourOctetASNumber(65001),
		bgp.NewCapGracefulRestart(false, true, 120, gtuples), bgp.NewCapLongLivedGracefulRestart(ltuples)}
	open, _ := bgp.NewBGPOpenMessage(65001, 90, vAddr4(2, 2, 2, 2), []bgp.OptionParameterInterface{bgp.NewOptionParameterCapability(caps)})
	p.fsm.conn, p.fsm.recvOpen = newVConn(nil, true), open
	drain := func() {
		for p.fsm.outgoingCh.Len() > 0 {
			<-p.fsm.outgoingCh.Out()
		}
	}
	vTransition(s, p, bgp.BGP_FSM_ESTABLISHED, fsmOpenMsgNegotiated)
	r4 := vPrefix4(10, 1, 0, 0, 16)
	r6, _ := bgp.NewIPAddrPrefix(netip.PrefixFrom(netip.AddrFrom16([16]byte{0x20, 0x01, 0x0d, 0xb8, 1}), 48))
	vRecv(s, p, vUpdate4(r4, false, []uint32{65001}, vAddr4(10, 0, 0, 2)), 3000)
	vRecv(s, p, vUpdate6(r6, false, []uint32{65001}), 3002)
	drain()
	vTransition(s, p, bgp.BGP_FSM_IDLE, fsmGracefulRestart)
	drain()
	vTransition(s, p, bgp.BGP_FSM_IDLE, fsmRestartTimerExpired)
	drain()
	look := func() (has4, has6 bool) {
		for _, q := range rib.GetPathList(table.GLOBAL_RIB_NAME, 0, fams) {
			if q.GetFamily() == bgp.RF_IPv4_UC {
				has4 = q.IsLLGRStale()
			} else {
				has6 = q.IsLLGRStale()
			}
		}
		return
	}
	h4, h6 := look()
	vAssert(h4 && h6, "the routes of both long-lived GR families are not kept carrying LLGR_STALE")
	first, last := t4, t6
	if t6 < t4 {
		first, last = t6, t4
	}
	// half a second after the shorter timer
	<-time.After(time.Duration(first)*time.Second + 500*time.Millisecond)
	drain()
	h4, h6 = look()
	if first == last {
		vAssert(!h4 && !h6, "LLGR_STALE routes survive the expiry of their long-lived timer")
	} else {
		vAssert(h4 == (t4 > first) && h6 == (t6 > first), "after the shorter long-lived timer fired: that family's routes stay, or the other family's routes are gone early")
		vAssert(p.fsm.pConf.ReadOnly().GracefulRestart.State.PeerRestarting, "the peer is no longer restarting although a family's long-lived timer is still running")
		vReach("different_timers")
		<-time.After(time.Duration(last-first) * time.Second)
		drain()
		h4, h6 = look()
		vAssert(!h4 && !h6, "LLGR_STALE routes of the family with the longer timer survive its expiry")
	}
	vAssert(len(rib.GetPathList(table.GLOBAL_RIB_NAME, 0, fams)) == 0 && p.adjRibIn.Count(fams) == 0, "routes are left after every long-lived timer expired")
	vAssert(!p.fsm.pConf.ReadOnly().GracefulRestart.State.PeerRestarting, "the peer is still reported as restarting after every long-lived timer expired")
	vReach("end")
}
