package server

import (
	"bytes"
	"context"

	api "github.com/osrg/gobgp/v4/api"
	"github.com/osrg/gobgp/v4/pkg/apiutil"
	"github.com/osrg/gobgp/v4/pkg/packet/bgp"
)

// C18 / C01 (API route): a route added through BgpServer.AddPath (with the real management loop
// running as a goroutine) is listed back by ListPath with the same prefix and attributes, is
// advertised to an established peer as a locally originated route, and disappears from both when it
// is deleted by the identifier AddPath returned.
func VH_c18_api_path() {
	fams := []bgp.Family{bgp.RF_IPv4_UC}
	s := vServer(65000, fams)
	t := vEstablished(s, vNeighbor(4, 65003, 65000, fams), fams)
	go s.Serve()

	prefix := vPrefix4(10, 1, 0, 0, 16)
	looped := false
	nh, _ := bgp.NewPathAttributeNextHop(vAddr4(10, 0, 0, 9))
	attrs := []bgp.PathAttributeInterface{
		bgp.NewPathAttributeOrigin(vU8("origin") % 3),
		nh,
		bgp.NewPathAttributeMultiExitDisc(vU32("med")),
		bgp.NewPathAttributeCommunities([]uint32{vU32("community")}),
	}
	// well-known communities (NO_EXPORT, NO_ADVERTISE, LLGR_STALE, ...) legitimately restrict export
	vAssume(attrs[3].(*bgp.PathAttributeCommunities).Value[0]>>16 != 0xffff)
	if vBool("with_as_path") {
		x := vU32("as") // the peer's own AS here makes the route unexportable to it (AS loop)
		vAssume(x != 0 && x != 65000)
		looped = x == 65003
		attrs = append(attrs, bgp.NewPathAttributeAsPath([]bgp.AsPathParamInterface{bgp.NewAs4PathParam(bgp.BGP_ASPATH_ATTR_TYPE_SEQ, []uint32{x})}))
	}
	want := map[bgp.BGPAttrType][]byte{}
	for _, a := range attrs {
		b, _ := a.Serialize()
		want[a.GetType()] = b
	}
	resps, err := s.AddPath(apiutil.AddPathRequest{Paths: []*apiutil.Path{{Family: bgp.RF_IPv4_UC, Nlri: prefix, Attrs: attrs}}})
	vAssert(err == nil && len(resps) == 1 && resps[0].Error == nil, "a well-formed route is refused by AddPath")
	if err != nil || len(resps) != 1 {
		return
	}
	listed := 0
	err = s.ListPath(apiutil.ListPathRequest{TableType: api.TableType_TABLE_TYPE_GLOBAL, Family: bgp.RF_IPv4_UC}, func(n bgp.NLRI, paths []*apiutil.Path) {
		vAssert(n.String() == prefix.String(), "ListPath returns a prefix that was not added")
		for _, p := range paths {
			listed++
			vAssert(p.Best, "the only route of a prefix is not listed as best")
			seen := 0
			for _, a := range p.Attrs {
				b, _ := a.Serialize()
				if w, ok := want[a.GetType()]; ok {
					seen++
					vAssert(bytes.Equal(b, w), "a route added through the API is listed back with a different attribute")
				}
			}
			vAssert(seen == len(want), "a route added through the API is listed back without one of its attributes")
		}
	})
	vAssert(err == nil && listed == 1, "a route added through the API is not listed back exactly once")
	// what the established peer is told
	have := false
	drain := func() {
		for t.fsm.outgoingCh.Len() > 0 {
			m := (<-t.fsm.outgoingCh.Out()).(*fsmOutgoingMsg)
			for _, p := range m.Paths {
				have = !p.IsWithdraw
				if have {
					vAssert(p.GetAsList()[0] == 65000, "a locally originated route is exported to an eBGP peer without the local AS first in its AS_PATH")
					m, merr := p.GetMed()
					vAssert(merr == nil && m == bgp.NewPathAttributeMultiExitDisc(0).Value+vMed(attrs), "the MED of a locally originated route is not exported")
				}
			}
		}
	}
	drain()
	vAssert(have == !looped, "a route added through the API is not advertised to an established peer (or is advertised although the peer's AS is in its AS_PATH)")
	err = s.DeletePath(apiutil.DeletePathRequest{UUIDs: []uuidT{resps[0].UUID}})
	vAssert(err == nil, "a route cannot be deleted by the identifier AddPath returned")
	drain()
	vAssert(!have, "a deleted API route stays advertised")
	listed = 0
	_ = s.ListPath(apiutil.ListPathRequest{TableType: api.TableType_TABLE_TYPE_GLOBAL, Family: bgp.RF_IPv4_UC}, func(n bgp.NLRI, paths []*apiutil.Path) { listed += len(paths) })
	vAssert(listed == 0, "a deleted API route is still listed")
	vReach("end")
}

func vMed(attrs []bgp.PathAttributeInterface) uint32 {
	for _, a := range attrs {
		if m, ok := a.(*bgp.PathAttributeMultiExitDisc); ok {
			return m.Value
		}
	}
	return 0
}

// C18 (defined sets through the API): a prefix set added with AddDefinedSet - entries may share a
// prefix and differ in the mask-length range - is listed back by ListDefinedSet entry for entry; a
// second AddDefinedSet for the same name appends, and DeleteDefinedSet of one entry removes exactly it.
func VH_c18_api_prefix_set() {
	fams := []bgp.Family{bgp.RF_IPv4_UC}
	s := vServer(65000, fams)
	go s.Serve()
	ctx := context.Background()
	prefixes := []string{"10.0.0.0/8", "192.168.0.0/16"}
	ranges := [][2]uint32{{8, 16}, {24, 32}, {16, 24}}
	type ent struct {
		p        string
		min, max uint32
	}
	mk := func(tag string) ent {
		r := ranges[vChoice(tag+"_range", 3)]
		return ent{prefixes[vChoice(tag+"_prefix", 2)], r[0], r[1]}
	}
	toAPI := func(l []ent) []*api.Prefix {
		var o []*api.Prefix
		for _, e := range l {
			o = append(o, &api.Prefix{IpPrefix: e.p, MaskLengthMin: e.min, MaskLengthMax: e.max})
		}
		return o
	}
	first := []ent{mk("e1"), mk("e2")}
	vAssume(first[0] != first[1])
	err := s.AddDefinedSet(ctx, &api.AddDefinedSetRequest{DefinedSet: &api.DefinedSet{DefinedType: api.DefinedType_DEFINED_TYPE_PREFIX, Name: "ps1", Prefixes: toAPI(first)}})
	vAssert(err == nil, "a well-formed prefix set is refused")
	if err != nil {
		return
	}
	list := func() []ent {
		var got []ent
		n := 0
		err := s.ListDefinedSet(ctx, &api.ListDefinedSetRequest{DefinedType: api.DefinedType_DEFINED_TYPE_PREFIX, Name: "ps1"}, func(d *api.DefinedSet) {
			n++
			for _, p := range d.Prefixes {
				got = append(got, ent{p.IpPrefix, p.MaskLengthMin, p.MaskLengthMax})
			}
		})
		vAssert(err == nil && n == 1, "the prefix set cannot be listed back")
		return got
	}
	same := func(got, want []ent) bool {
		if len(got) != len(want) {
			return false
		}
		used := make([]bool, len(got))
		for _, w := range want {
			found := false
			for i, g := range got {
				if !used[i] && g == w {
					used[i], found = true, true
					break
				}
			}
			if !found {
				return false
			}
		}
		return true
	}
	vAssert(same(list(), first), "ListDefinedSet does not return the entries AddDefinedSet was given (entries that share a prefix included)")
	// a second request for the same name appends
	third := mk("e3")
	vAssume(third != first[0] && third != first[1])
	err = s.AddDefinedSet(ctx, &api.AddDefinedSetRequest{DefinedSet: &api.DefinedSet{DefinedType: api.DefinedType_DEFINED_TYPE_PREFIX, Name: "ps1", Prefixes: toAPI([]ent{third})}})
	vAssert(err == nil, "appending to a prefix set is refused")
	vAssert(same(list(), append(append([]ent(nil), first...), third)), "after a second AddDefinedSet the set is not the union of both requests")
	// deleting one entry removes exactly it
	err = s.DeleteDefinedSet(ctx, &api.DeleteDefinedSetRequest{DefinedSet: &api.DefinedSet{DefinedType: api.DefinedType_DEFINED_TYPE_PREFIX, Name: "ps1", Prefixes: toAPI(first[:1])}})
	vAssert(err == nil, "deleting an entry of a prefix set is refused")
	vAssert(same(list(), []ent{first[1], third}), "DeleteDefinedSet of one entry does not leave exactly the others")
	if first[0].p == first[1].p {
		vReach("shared_prefix")
	}
	vReach("end")
}
