package server

import (
	"net/netip"

	"github.com/osrg/gobgp/v4/internal/pkg/table"
	"github.com/osrg/gobgp/v4/pkg/config/oc"
	"github.com/osrg/gobgp/v4/pkg/packet/bgp"
)

// C15: the metamorphic relation on the real BgpServer step functions (no concurrency). World 1
// learns two routes under an old import (or export) policy, the policy is replaced and the soft
// reset is run; world 2 is a fresh server that had the new policy from the start. Loc-RIB and the
// target peer's view (its outgoing batches applied in order) must agree, and a second reset must
// change nothing.

type c15pol struct {
	op     int    // 0 none (no policy), 1 eq, 2 ge, 3 le on AS_PATH length
	value  uint32 // threshold
	reject bool   // reject, else accept and set LOCAL_PREF (import) / MED (export)
	set    uint32
}

func c15symPolicy(tag string) c15pol {
	return c15pol{op: vChoice(tag+"_op", 4), value: uint32(vU8(tag+"_threshold") & 3), reject: vBool(tag + "_reject"), set: vU32(tag + "_set")}
}

func (p c15pol) config(export bool) (*oc.RoutingPolicy, map[string]oc.ApplyPolicy) {
	rp := &oc.RoutingPolicy{}
	ap := oc.ApplyPolicy{}
	ap.Config.DefaultImportPolicy, ap.Config.DefaultExportPolicy = oc.DEFAULT_POLICY_TYPE_ACCEPT_ROUTE, oc.DEFAULT_POLICY_TYPE_ACCEPT_ROUTE
	if p.op != 0 {
		st := oc.Statement{Name: "s1"}
		st.Conditions.BgpConditions.AsPathLength.Operator = []oc.AttributeComparison{"", oc.ATTRIBUTE_COMPARISON_EQ, oc.ATTRIBUTE_COMPARISON_GE, oc.ATTRIBUTE_COMPARISON_LE}[p.op]
		st.Conditions.BgpConditions.AsPathLength.Value = p.value
		if p.reject {
			st.Actions.RouteDisposition = oc.ROUTE_DISPOSITION_REJECT_ROUTE
		} else {
			st.Actions.RouteDisposition = oc.ROUTE_DISPOSITION_ACCEPT_ROUTE
			if export {
				st.Actions.BgpActions.SetMed = "100"
			} else {
				st.Actions.BgpActions.SetLocalPref = p.set
			}
		}
		rp.PolicyDefinitions = []oc.PolicyDefinition{{Name: "p1", Statements: []oc.Statement{st}}}
		if export {
			ap.Config.ExportPolicyList = []string{"p1"}
		} else {
			ap.Config.ImportPolicyList = []string{"p1"}
		}
	}
	return rp, map[string]oc.ApplyPolicy{table.GLOBAL_RIB_NAME: ap}
}

type c15world struct {
	s    *BgpServer
	a, t *peer
	view map[string]*table.Path
}

func c15new(p c15pol, export bool) *c15world {
	fams := []bgp.Family{bgp.RF_IPv4_UC}
	w := &c15world{s: vServer(65000, fams), view: map[string]*table.Path{}}
	rp, ap := p.config(export)
	if err := w.s.policy.Reset(rp, ap); err != nil {
		panic(err)
	}
	w.a = vEstablished(w.s, vNeighbor(2, 65001, 65000, fams), fams)
	if vParam("addpath") == 1 {
		w.a.fsm.familyMap.Store(map[bgp.Family]bgp.BGPAddPathMode{bgp.RF_IPv4_UC: bgp.BGP_ADD_PATH_RECEIVE})
	}
	w.t = vEstablished(w.s, vNeighbor(4, 65003, 65000, fams), fams)
	return w
}

func (w *c15world) drain() int {
	n := 0
	for w.t.fsm.outgoingCh.Len() > 0 {
		m := (<-w.t.fsm.outgoingCh.Out()).(*fsmOutgoingMsg)
		for _, p := range m.Paths {
			n++
			if p.IsWithdraw {
				delete(w.view, p.GetPrefix())
			} else {
				w.view[p.GetPrefix()] = p
			}
		}
	}
	for w.a.fsm.outgoingCh.Len() > 0 {
		<-w.a.fsm.outgoingCh.Out()
	}
	return n
}

func (w *c15world) feed(lens [2]int) {
	for i, l := range lens[:vParam("routes")] {
		aspath := []uint32{65001, 65010, 65011}[:l]
		m := vUpdate4(vPrefix4(10, byte(1+i), 0, 0, 16), false, aspath, vAddr4(10, 0, 0, 2))
		if vParam("addpath") == 1 {
			// an earlier path of the same prefix (another path identifier) carries the local AS: it
			// is stored in the Adj-RIB-In as rejected, in front of the usable one
			bad := vUpdate4(vPrefix4(10, byte(1+i), 0, 0, 16), false, []uint32{65001, 65000}, vAddr4(10, 0, 0, 2))
			bad.Body.(*bgp.BGPUpdate).NLRI[0].ID = 1
			vRecv(w.s, w.a, bad, int64(5+i))
			w.drain()
			m.Body.(*bgp.BGPUpdate).NLRI[0].ID = 2
		}
		vRecv(w.s, w.a, m, int64(10+i))
		w.drain()
	}
}

func c15same(x, y *c15world, export bool) {
	fams := []bgp.Family{bgp.RF_IPv4_UC}
	lx := x.s.globalRib.GetPathList(table.GLOBAL_RIB_NAME, 0, fams)
	ly := y.s.globalRib.GetPathList(table.GLOBAL_RIB_NAME, 0, fams)
	vAssert(len(lx) == len(ly), "after the soft reset the Loc-RIB does not hold the routes a fresh evaluation under the new policy holds")
	for _, p := range lx {
		var q *table.Path
		for _, c := range ly {
			if c.GetPrefix() == p.GetPrefix() {
				q = c
			}
		}
		vAssert(q != nil, "after the soft reset the Loc-RIB holds a route the new policy rejects")
		if q != nil {
			a, _ := p.GetLocalPref()
			b, _ := q.GetLocalPref()
			vAssert(a == b, "after the soft reset a Loc-RIB route does not carry the attributes the new policy sets")
		}
	}
	vAssert(len(x.view) == len(y.view), "after the soft reset the peer has not been told what a fresh evaluation under the new policy tells it (stale or missing route)")
	for k, p := range x.view {
		q, ok := y.view[k]
		vAssert(ok, "after the soft reset the peer still holds a route the new policy withholds")
		if ok {
			a, ea := p.GetMed()
			b, eb := q.GetMed()
			la, _ := p.GetLocalPref()
			lb, _ := q.GetLocalPref()
			vAssert((ea == nil) == (eb == nil) && a == b && la == lb, "after the soft reset the peer holds a route with attributes of the old policy")
		}
	}
}

func VH_c15_soft_reset() {
	export := vParam("export") >= 1
	refresh := vParam("export") == 2 // the peer asks with a ROUTE-REFRESH instead of the operator resetting
	old, cur := c15symPolicy("old"), c15symPolicy("new")
	lens := [2]int{1 + vChoice("aspath_len", 3), 1}
	if vParam("routes") > 1 {
		lens[1] = 1 + vChoice("aspath_len", 3)
	}
	w1 := c15new(old, export)
	w1.feed(lens)
	rp, ap := cur.config(export)
	if err := w1.s.policy.Reset(rp, ap); err != nil {
		panic(err)
	}
	var err error
	if refresh {
		w1.t.fsm.capMap[bgp.BGP_CAP_ROUTE_REFRESH] = []bgp.ParameterCapabilityInterface{bgp.NewCapRouteRefresh()}
		vRecv(w1.s, w1.t, bgp.NewBGPRouteRefreshMessage(bgp.AFI_IP, 0, bgp.SAFI_UNICAST), 100)
	} else if export {
		err = w1.s.softResetOut("", bgp.RF_IPv4_UC, false)
	} else {
		err = w1.s.softResetIn("", bgp.RF_IPv4_UC)
	}
	vAssert(err == nil, "soft reset failed")
	w1.drain()
	w2 := c15new(cur, export)
	w2.feed(lens)
	c15same(w1, w2, export)
	// repeating the reset changes nothing
	if refresh {
		vRecv(w1.s, w1.t, bgp.NewBGPRouteRefreshMessage(bgp.AFI_IP, 0, bgp.SAFI_UNICAST), 101)
	} else if export {
		_ = w1.s.softResetOut("", bgp.RF_IPv4_UC, false)
	} else {
		_ = w1.s.softResetIn("", bgp.RF_IPv4_UC)
	}
	w1.drain()
	c15same(w1, w2, export)
	vReach("end")
}

// C15 (sequences): export policy switched twice between "accept everything" and "reject
// everything", each switch followed by either a soft reset out or a ROUTE-REFRESH from the peer;
// the peer's final view must be what a fresh evaluation under the final policy gives.
func VH_c15_sequence() {
	all := func(reject bool) c15pol {
		if reject {
			return c15pol{op: 2, value: 0, reject: true}
		}
		return c15pol{}
	}
	start := all(vBool("policy_rejects"))
	w1 := c15new(start, true)
	w1.t.fsm.capMap[bgp.BGP_CAP_ROUTE_REFRESH] = []bgp.ParameterCapabilityInterface{bgp.NewCapRouteRefresh()}
	lens := [2]int{1, 1}
	w1.feed(lens)
	last := start
	steps := vParam("steps")
	for i := 0; i < steps; i++ {
		last = all(vBool("policy_rejects"))
		rp, ap := last.config(true)
		if err := w1.s.policy.Reset(rp, ap); err != nil {
			panic(err)
		}
		if vBool("route_refresh") {
			vRecv(w1.s, w1.t, bgp.NewBGPRouteRefreshMessage(bgp.AFI_IP, 0, bgp.SAFI_UNICAST), int64(100+i))
		} else {
			_ = w1.s.softResetOut("", bgp.RF_IPv4_UC, false)
		}
		w1.drain()
	}
	w2 := c15new(last, true)
	w2.feed(lens)
	c15same(w1, w2, true)
	vReach("end")
}

// C15 (defined sets): the import policy rejects the prefixes of a prefix set; the set is replaced
// through RoutingPolicy.AddDefinedSet(replace) - the call behind the AddDefinedSet API - and the soft
// reset in runs. The Loc-RIB must equal a fresh evaluation with the new set.
func c15setPolicy(members [2]bool) (*oc.RoutingPolicy, map[string]oc.ApplyPolicy) {
	rp := &oc.RoutingPolicy{}
	ps := oc.PrefixSet{PrefixSetName: "ps1"}
	for i, in := range members {
		if in {
			ps.PrefixList = append(ps.PrefixList, oc.Prefix{IpPrefix: netip.MustParsePrefix([]string{"10.1.0.0/16", "10.2.0.0/16"}[i]), MasklengthRange: "16..24"})
		}
	}
	rp.DefinedSets.PrefixSets = []oc.PrefixSet{ps}
	st := oc.Statement{Name: "s1"}
	st.Conditions.MatchPrefixSet.PrefixSet = "ps1"
	st.Conditions.MatchPrefixSet.MatchSetOptions = oc.MATCH_SET_OPTIONS_RESTRICTED_TYPE_ANY
	st.Actions.RouteDisposition = oc.ROUTE_DISPOSITION_REJECT_ROUTE
	rp.PolicyDefinitions = []oc.PolicyDefinition{{Name: "p1", Statements: []oc.Statement{st}}}
	ap := oc.ApplyPolicy{}
	ap.Config.ImportPolicyList = []string{"p1"}
	ap.Config.DefaultImportPolicy, ap.Config.DefaultExportPolicy = oc.DEFAULT_POLICY_TYPE_ACCEPT_ROUTE, oc.DEFAULT_POLICY_TYPE_ACCEPT_ROUTE
	return rp, map[string]oc.ApplyPolicy{table.GLOBAL_RIB_NAME: ap}
}

func c15worldWithSet(members [2]bool) *c15world {
	fams := []bgp.Family{bgp.RF_IPv4_UC}
	w := &c15world{s: vServer(65000, fams), view: map[string]*table.Path{}}
	rp, ap := c15setPolicy(members)
	if err := w.s.policy.Reset(rp, ap); err != nil {
		panic(err)
	}
	w.a = vEstablished(w.s, vNeighbor(2, 65001, 65000, fams), fams)
	w.t = vEstablished(w.s, vNeighbor(4, 65003, 65000, fams), fams)
	return w
}

func VH_c15_defined_set() {
	old := [2]bool{vBool("old_has_prefix"), vBool("old_has_prefix")}
	cur := [2]bool{vBool("new_has_prefix"), vBool("new_has_prefix")}
	vAssume(old[0] || old[1])
	vAssume(cur[0] || cur[1])
	lens := [2]int{1, 2}
	w1 := c15worldWithSet(old)
	w1.feed(lens)
	rp, _ := c15setPolicy(cur)
	set, err := table.NewPrefixSet(rp.DefinedSets.PrefixSets[0])
	vAssert(err == nil, "prefix set refused")
	vAssert(w1.s.policy.AddDefinedSet(set, true) == nil, "replacing a defined set failed")
	vAssert(w1.s.softResetIn("", bgp.RF_IPv4_UC) == nil, "soft reset failed")
	w1.drain()
	w2 := c15worldWithSet(cur)
	w2.feed(lens)
	c15same(w1, w2, false)
	vReach("end")
}

// C15 (community sets): the import policy rejects routes carrying a community of a community set;
// one member is removed from the set through RoutingPolicy.DeleteDefinedSet(all=false) - the call
// behind the DeleteDefinedSet API - or added with AddDefinedSet, and the soft reset in runs. The
// Loc-RIB must equal a fresh evaluation with the edited set.
func c15commPolicy(members [2]bool) (*oc.RoutingPolicy, map[string]oc.ApplyPolicy) {
	rp := &oc.RoutingPolicy{}
	cs := oc.CommunitySet{CommunitySetName: "cs1"}
	for i, in := range members {
		if in {
			cs.CommunityList = append(cs.CommunityList, []string{"65000:1", "65000:2"}[i])
		}
	}
	rp.DefinedSets.BgpDefinedSets.CommunitySets = []oc.CommunitySet{cs}
	st := oc.Statement{Name: "s1"}
	st.Conditions.BgpConditions.MatchCommunitySet.CommunitySet = "cs1"
	st.Conditions.BgpConditions.MatchCommunitySet.MatchSetOptions = oc.MATCH_SET_OPTIONS_TYPE_ANY
	st.Actions.RouteDisposition = oc.ROUTE_DISPOSITION_REJECT_ROUTE
	rp.PolicyDefinitions = []oc.PolicyDefinition{{Name: "p1", Statements: []oc.Statement{st}}}
	ap := oc.ApplyPolicy{}
	ap.Config.ImportPolicyList = []string{"p1"}
	ap.Config.DefaultImportPolicy, ap.Config.DefaultExportPolicy = oc.DEFAULT_POLICY_TYPE_ACCEPT_ROUTE, oc.DEFAULT_POLICY_TYPE_ACCEPT_ROUTE
	return rp, map[string]oc.ApplyPolicy{table.GLOBAL_RIB_NAME: ap}
}

func c15commWorld(members [2]bool) *c15world {
	fams := []bgp.Family{bgp.RF_IPv4_UC}
	w := &c15world{s: vServer(65000, fams), view: map[string]*table.Path{}}
	rp, ap := c15commPolicy(members)
	if err := w.s.policy.Reset(rp, ap); err != nil {
		panic(err)
	}
	w.a = vEstablished(w.s, vNeighbor(2, 65001, 65000, fams), fams)
	w.t = vEstablished(w.s, vNeighbor(4, 65003, 65000, fams), fams)
	return w
}

func (w *c15world) feedComm() {
	for i := 0; i < 2; i++ {
		m := vUpdate4(vPrefix4(10, byte(1+i), 0, 0, 16), false, []uint32{65001}, vAddr4(10, 0, 0, 2))
		u := m.Body.(*bgp.BGPUpdate)
		u.PathAttributes = append(u.PathAttributes, bgp.NewPathAttributeCommunities([]uint32{65000<<16 | uint32(1+i)}))
		vRecv(w.s, w.a, m, int64(10+i))
		w.drain()
	}
}

func VH_c15_community_set() {
	old := [2]bool{true, true}
	k := vChoice("removed_member", 2)
	cur := old
	cur[k] = false
	w1 := c15commWorld(old)
	w1.feedComm()
	gone, err := table.NewCommunitySet(oc.CommunitySet{CommunitySetName: "cs1", CommunityList: []string{[]string{"65000:1", "65000:2"}[k]}})
	vAssert(err == nil, "community set refused")
	vAssert(w1.s.policy.DeleteDefinedSet(gone, false) == nil, "removing a member of a defined set failed")
	readd := vBool("add_it_back")
	if readd {
		vAssert(w1.s.policy.AddDefinedSet(gone, false) == nil, "adding a member to a defined set failed")
		cur = old
	}
	vAssert(w1.s.softResetIn("", bgp.RF_IPv4_UC) == nil, "soft reset failed")
	w1.drain()
	w2 := c15commWorld(cur)
	w2.feedComm()
	c15same(w1, w2, false)
	vReach("end")
}

// C15 (ordering against live route changes): peer.routeRefreshInProgress orders a full
// re-advertisement (ROUTE-REFRESH, soft reset out) against the incremental fan-out of a route change
// towards the same peer. The harness plays one side - it holds the lock exactly as that side does -
// and runs the real other side as a goroutine: nothing may reach the peer's queue until the side in
// flight has finished, and afterwards the peer has been told exactly the current Loc-RIB content
// (no stale attributes, no resurrected route). In the engine sync.RWMutex blocks the cooperative
// thread; natively the goroutines really run (vSettle waits 150 ms).
func VH_c15_reset_ordering() {
	fams := []bgp.Family{bgp.RF_IPv4_UC}
	s := vServer(65000, fams)
	b := vEstablished(s, vNeighbor(2, 65001, 65000, fams), fams)
	a := vEstablished(s, vNeighbor(4, 65003, 65000, fams), fams)
	a.fsm.capMap[bgp.BGP_CAP_ROUTE_REFRESH] = []bgp.ParameterCapabilityInterface{bgp.NewCapRouteRefresh()}
	view := map[string]*table.Path{}
	eor := 0
	drain := func() {
		for a.fsm.outgoingCh.Len() > 0 {
			m := (<-a.fsm.outgoingCh.Out()).(*fsmOutgoingMsg)
			for _, p := range m.Paths {
				switch {
				case p.IsEOR():
					eor++
				case p.IsWithdraw:
					delete(view, p.GetPrefix())
				default:
					view[p.GetPrefix()] = p
				}
			}
		}
		for b.fsm.outgoingCh.Len() > 0 {
			<-b.fsm.outgoingCh.Out()
		}
	}
	r1 := vPrefix4(10, 1, 0, 0, 16)
	vRecv(s, b, vUpdate4(r1, false, []uint32{65001, 65010}, vAddr4(10, 0, 0, 2)), 10)
	drain()
	vAssert(len(view) == 1, "the route was not advertised")
	done := make(chan struct{})
	kind := vChoice("reset_kind", 2)
	reset := func() {
		if kind == 0 {
			vRecv(s, a, bgp.NewBGPRouteRefreshMessage(bgp.AFI_IP, 0, bgp.SAFI_UNICAST), 100)
		} else {
			_ = s.softResetOut("10.0.0.4", bgp.RF_IPv4_UC, false)
		}
	}
	change := func() {
		if vBool("change_is_withdraw") {
			vRecv(s, b, vUpdate4(r1, true, nil, vAddr4(10, 0, 0, 2)), 101)
		} else {
			vRecv(s, b, vUpdate4(r1, false, []uint32{65001, 65011, 65012}, vAddr4(10, 0, 0, 2)), 101)
		}
	}
	finished := func() bool {
		select {
		case <-done:
			return true
		default:
			return false
		}
	}
	if vBool("fan_out_in_flight") {
		// a route change is being fanned out to A (propagateUpdateToNeighbors holds the lock in read mode)
		a.routeRefreshInProgress.RLock()
		go func() { reset(); close(done) }()
		vSettle()
		vAssert(!finished() && a.fsm.outgoingCh.Len() == 0, "a full re-advertisement ran while an incremental fan-out to the same peer was in flight: its snapshot can overtake the newer change")
		a.routeRefreshInProgress.RUnlock()
		vAssert(vEventually(finished), "the re-advertisement never ran")
		drain()
		vReach("reset_waited")
	} else {
		// a full re-advertisement to A is in flight (getBestFromLocalCallback holds the lock in write mode)
		a.routeRefreshInProgress.Lock()
		go func() { change(); close(done) }()
		vSettle()
		vAssert(!finished() && a.fsm.outgoingCh.Len() == 0, "a route change was fanned out to a peer in the middle of a full re-advertisement to it")
		a.routeRefreshInProgress.Unlock()
		vAssert(vEventually(finished), "the route change was never processed")
		drain()
		vReach("change_waited")
	}
	// quiescence: A has been told exactly the Loc-RIB content
	loc := s.globalRib.GetBestPathList(table.GLOBAL_RIB_NAME, 0, fams)
	vAssert(len(view) == len(loc), "after the reset and the concurrent change the peer holds a route that left the Loc-RIB, or misses one")
	for _, p := range loc {
		q, ok := view[p.GetPrefix()]
		vAssert(ok && len(q.GetAsList()) == len(p.GetAsList())+1, "after the reset and the concurrent change the peer holds stale attributes")
	}
}
