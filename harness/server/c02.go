package server

import (
	"time"

	"github.com/osrg/gobgp/v4/internal/pkg/table"
	"github.com/osrg/gobgp/v4/pkg/packet/bgp"
)

// C02 (server step): after any history of UPDATEs from one eBGP peer for one prefix - clean
// announcements, announcements whose AS_PATH contains the local AS (loop), withdrawals - driven
// through the real BgpServer.handleFSMMessage, the Loc-RIB holds the peer's route iff the latest
// un-withdrawn route passed the loop check, and the Adj-RIB-In holds the latest un-withdrawn route.
func VH_c02_server_history() {
	fams := []bgp.Family{bgp.RF_IPv4_UC}
	s := vServer(65000, fams)
	p := vEstablished(s, vNeighbor(2, 65001, 65000, fams), fams)
	prefix := vPrefix4(10, 1, 0, 0, 16)
	steps := int(vParam("steps"))
	inAdj, usable := false, false
	lastAS := uint32(0)
	for i := 0; i < steps; i++ {
		op := vChoice("op", 3)
		var m *bgp.BGPMessage
		switch op {
		case 0: // clean announcement
			as := vU32("as")
			vAssume(as != 65000 && as != 0)
			m = vUpdate4(prefix, false, []uint32{65001, as}, vAddr4(10, 0, 0, 2))
			inAdj, usable, lastAS = true, true, as
		case 1: // the local AS is in the path: excluded from selection
			m = vUpdate4(prefix, false, []uint32{65001, 65000}, vAddr4(10, 0, 0, 2))
			inAdj, usable, lastAS = true, false, 65000
		default:
			m = vUpdate4(prefix, true, nil, vAddr4(10, 0, 0, 2))
			inAdj, usable = false, false
		}
		s.handleFSMMessage(p, &fsmMsg{MsgType: fsmMsgBGPMessage, MsgData: m, timestamp: time.Unix(int64(2000+i), 0)})
	}
	adj := p.adjRibIn.PathList(fams, false)
	vAssert((len(adj) == 1) == inAdj && len(adj) <= 1, "Adj-RIB-In does not hold exactly the latest un-withdrawn route")
	loc := s.globalRib.GetPathList(table.GLOBAL_RIB_NAME, 0, fams)
	vAssert(len(loc) <= 1, "Loc-RIB holds more than one route from one source and path-id")
	vAssert((len(loc) == 1) == usable, "Loc-RIB content differs from the latest un-withdrawn route that passed the loop check")
	if len(loc) == 1 && usable {
		l := loc[0].GetAsList()
		vAssert(len(l) == 2 && l[1] == lastAS, "Loc-RIB holds an older route than the Adj-RIB-In")
		vReach("installed")
	}
	if inAdj && !usable {
		vReach("looped")
	}
}
