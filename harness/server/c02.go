package server

import (
	"time"

	"github.com/osrg/gobgp/v4/internal/pkg/table"
	"github.com/osrg/gobgp/v4/pkg/apiutil"
	"github.com/osrg/gobgp/v4/pkg/config/oc"
	"github.com/osrg/gobgp/v4/pkg/packet/bgp"
)

// C02 (server step): after any history of UPDATEs from one eBGP peer for one prefix - clean
// announcements, announcements whose AS_PATH contains the local AS (loop), withdrawals - driven
// through the real BgpServer.handleFSMMessage, the Loc-RIB holds the peer's route iff the latest
// un-withdrawn route passed the loop check, and the Adj-RIB-In holds the latest un-withdrawn route.
func VH_c02_server_history() {
	fams := []bgp.Family{bgp.RF_IPv4_UC}
	s := vServer(65000, fams)
	p := vEstablished(s, vNeighbor(2, 65001, 65000, fams), fams)
	prefix := vPrefix4(10, 1, 0, 0, 16)
	steps := int(vParam("steps"))
	inAdj, usable := false, false
	lastAS := uint32(0)
	for i := 0; i < steps; i++ {
		op := vChoice("op", 3)
		var m *bgp.BGPMessage
		switch op {
		case 0: // clean announcement
			as := vU32("as")
			vAssume(as != 65000 && as != 0)
			m = vUpdate4(prefix, false, []uint32{65001, as}, vAddr4(10, 0, 0, 2))
			inAdj, usable, lastAS = true, true, as
		case 1: // the local AS is in the path: excluded from selection
			m = vUpdate4(prefix, false, []uint32{65001, 65000}, vAddr4(10, 0, 0, 2))
			inAdj, usable, lastAS = true, false, 65000
		default:
			m = vUpdate4(prefix, true, nil, vAddr4(10, 0, 0, 2))
			inAdj, usable = false, false
		}
		s.handleFSMMessage(p, &fsmMsg{MsgType: fsmMsgBGPMessage, MsgData: m, timestamp: time.Unix(int64(2000+i), 0)})
	}
	adj := p.adjRibIn.PathList(fams, false)
	vAssert((len(adj) == 1) == inAdj && len(adj) <= 1, "Adj-RIB-In does not hold exactly the latest un-withdrawn route")
	loc := s.globalRib.GetPathList(table.GLOBAL_RIB_NAME, 0, fams)
	vAssert(len(loc) <= 1, "Loc-RIB holds more than one route from one source and path-id")
	vAssert((len(loc) == 1) == usable, "Loc-RIB content differs from the latest un-withdrawn route that passed the loop check")
	if len(loc) == 1 && usable {
		l := loc[0].GetAsList()
		vAssert(len(l) == 2 && l[1] == lastAS, "Loc-RIB holds an older route than the Adj-RIB-In")
		vReach("installed")
	}
	if inAdj && !usable {
		vReach("looped")
	}
}

// C02 (server, several sources): announcements and withdrawals from two eBGP sources for one
// prefix, the loss of a source's session and the removal of a source through deleteNeighbor (the
// function behind DeletePeer). After every history the Loc-RIB holds exactly the latest
// un-withdrawn route of each source whose session is still up - one per source, best first -
// and each Adj-RIB-In and its counters agree.
func VH_c02_server_sources() {
	fams := []bgp.Family{bgp.RF_IPv4_UC}
	s := vServer(65000, fams)
	asB := uint32(65002)
	parallel := vBool("parallel_links_to_one_router")
	if parallel {
		asB = 65001
	}
	ca, cb := vNeighbor(2, 65001, 65000, fams), vNeighbor(3, asB, 65000, fams)
	src := []*peer{vEstablished(s, ca, fams), vEstablished(s, cb, fams)}
	if parallel { // same router id on both sessions: they are still two sources
		ib := *src[1].peerInfo.Load()
		ib.ID = src[0].peerInfo.Load().ID
		src[1].peerInfo.Store(&ib)
	}
	confs := []*oc.Neighbor{ca, cb}
	prefix := vPrefix4(10, 1, 0, 0, 16)
	var up, has, looped [2]bool
	up[0], up[1] = true, true
	var lastLen [2]int
	steps := vParam("steps")
	for i := 0; i < steps; i++ {
		k := vChoice("source", 2)
		switch vChoice("event", 4) {
		case 0:
			l := 1 + vChoice("aspath_len", 2)
			x := vU32("as") // the local AS here makes the route unusable (loop), still stored in the Adj-RIB-In
			vAssume(x != 0)
			first := uint32(65001 + k)
			if parallel {
				first = 65001
			}
			aspath := []uint32{first, x}[:l]
			vRecv(s, src[k], vUpdate4(prefix, false, aspath, vAddr4(10, 0, 0, byte(2+k))), int64(10+i))
			if up[k] {
				has[k], lastLen[k], looped[k] = true, l, l == 2 && x == 65000
			}
		case 1:
			vRecv(s, src[k], vUpdate4(prefix, true, nil, vAddr4(10, 0, 0, byte(2+k))), int64(10+i))
			if up[k] {
				has[k] = false
			}
		case 2:
			vAssume(up[k])
			vTransition(s, src[k], bgp.BGP_FSM_IDLE, fsmReadFailed)
			up[k], has[k] = false, false
		default:
			vAssume(up[k])
			vAssert(s.deleteNeighbor(confs[k], bgp.BGP_ERROR_CEASE, bgp.BGP_ERROR_SUB_PEER_DECONFIGURED, false) == nil, "an existing peer cannot be deleted")
			src[k].fsm.state.Store(bgp.BGP_FSM_IDLE)
			up[k], has[k] = false, false
		}
	}
	loc := s.globalRib.GetPathList(table.GLOBAL_RIB_NAME, 0, fams)
	n := 0
	for k := range src {
		found := 0
		for _, p := range loc {
			if p.GetSource().Address == vAddr4(10, 0, 0, byte(2+k)) {
				found++
				vAssert(len(p.GetAsList()) == lastLen[k], "the Loc-RIB holds an older route of a source than its latest announcement")
			}
		}
		stored, want := 0, 0
		if has[k] {
			stored = 1
			if !looped[k] {
				want = 1
			}
		}
		vAssert(found == want, "the Loc-RIB does not hold exactly the latest un-withdrawn, loop-free route of each source whose session is up")
		n += want
		vAssert(src[k].adjRibIn.Count(fams) == stored && src[k].adjRibIn.Accepted(fams) == want, "an Adj-RIB-In (or its accepted counter) disagrees with the latest un-withdrawn route of its session")
	}
	vAssert(len(loc) == n, "the Loc-RIB holds a route of no current source")
	if n == 2 {
		vAssert(len(loc[0].GetAsList()) <= len(loc[1].GetAsList()), "the Loc-RIB is not ordered best first")
		vReach("two")
	}
	if !up[0] || !up[1] {
		vReach("ended")
	}
}

// C02 (best-path stream): a consumer registered with BgpServer.watch(WatchBestPath) - the feed of
// the FIB, BMP and MRT writers - applies the notifications in order (a withdrawn best path removes
// the prefix, any other replaces it). After every history of announcements, withdrawals and a
// session loss from two sources over two prefixes, its table equals the current best-path table.
func VH_c02_best_stream() {
	fams := []bgp.Family{bgp.RF_IPv4_UC}
	s := vServer(65000, fams)
	go s.Serve()
	src := []*peer{vEstablished(s, vNeighbor(2, 65001, 65000, fams), fams), vEstablished(s, vNeighbor(3, 65002, 65000, fams), fams)}
	w, err := s.watch(WatchBestPath(true))
	vAssert(err == nil && w != nil, "a best-path watcher cannot be registered")
	fib := map[string]*table.Path{}
	consume := func() {
		vSettle()
		for {
			select {
			case ev := <-w.Event():
				if b, ok := ev.(*watchEventBestPath); ok {
					for _, p := range b.PathList {
						if p.IsWithdraw {
							delete(fib, p.GetPrefix())
						} else {
							fib[p.GetPrefix()] = p
						}
					}
				}
				vSettle()
				continue
			default:
			}
			break
		}
	}
	consume()
	prefixes := []*bgp.IPAddrPrefix{vPrefix4(10, 1, 0, 0, 16), vPrefix4(10, 2, 0, 0, 16)}
	steps := vParam("steps")
	up := [2]bool{true, true}
	for i := 0; i < steps; i++ {
		k := vChoice("source", 2)
		pf := prefixes[vChoice("prefix", 2)]
		switch vChoice("event", 3) {
		case 0:
			l := 1 + vChoice("aspath_len", 2)
			vRecv(s, src[k], vUpdate4(pf, false, []uint32{uint32(65001 + k), 65010}[:l], vAddr4(10, 0, 0, byte(2+k))), int64(10+i))
		case 1:
			vRecv(s, src[k], vUpdate4(pf, true, nil, vAddr4(10, 0, 0, byte(2+k))), int64(10+i))
		default:
			vAssume(up[k])
			vTransition(s, src[k], bgp.BGP_FSM_IDLE, fsmReadFailed)
			up[k] = false
		}
		consume()
	}
	best := s.globalRib.GetBestPathList(table.GLOBAL_RIB_NAME, 0, fams)
	vAssert(len(best) == len(fib), "the table rebuilt from the best-path notifications has a different number of prefixes than the best-path table")
	for _, b := range best {
		f, ok := fib[b.GetPrefix()]
		vAssert(ok, "a current best path was never notified (or was notified as withdrawn)")
		if ok {
			vAssert(f.GetSource() == b.GetSource() && len(f.GetAsList()) == len(b.GetAsList()), "the last notification for a prefix is not its current best path")
			vReach("matches")
		}
	}
	if len(best) == 0 {
		vReach("empty")
	}
}

// C02 (API routes next to peer routes): a prefix announced by a peer and also injected through the
// API; deleting the API route by the identifier AddPath returned removes exactly that route - the
// peer's un-withdrawn route stays in the Loc-RIB and its Adj-RIB-In, in either order of arrival.
func VH_c02_api_delete() {
	fams := []bgp.Family{bgp.RF_IPv4_UC}
	s := vServer(65000, fams)
	a := vEstablished(s, vNeighbor(2, 65001, 65000, fams), fams)
	go s.Serve()
	prefix := vPrefix4(10, 1, 0, 0, 16)
	nh, _ := bgp.NewPathAttributeNextHop(vAddr4(10, 0, 0, 9))
	apiPath := &apiutil.Path{Family: bgp.RF_IPv4_UC, Nlri: prefix, Attrs: []bgp.PathAttributeInterface{bgp.NewPathAttributeOrigin(0), nh, bgp.NewPathAttributeMultiExitDisc(vU32("med"))}}
	peerFirst := vBool("peer_route_first")
	if peerFirst {
		vRecv(s, a, vUpdate4(prefix, false, []uint32{65001}, vAddr4(10, 0, 0, 2)), 10)
	}
	resps, err := s.AddPath(apiutil.AddPathRequest{Paths: []*apiutil.Path{apiPath}})
	vAssert(err == nil && len(resps) == 1 && resps[0].Error == nil, "a well-formed route is refused by AddPath")
	if err != nil || len(resps) != 1 {
		return
	}
	if !peerFirst {
		vRecv(s, a, vUpdate4(prefix, false, []uint32{65001}, vAddr4(10, 0, 0, 2)), 10)
	}
	vAssert(len(s.globalRib.GetPathList(table.GLOBAL_RIB_NAME, 0, fams)) == 2, "the Loc-RIB does not hold one route per source")
	vAssert(s.DeletePath(apiutil.DeletePathRequest{UUIDs: []uuidT{resps[0].UUID}}) == nil, "a route cannot be deleted by the identifier AddPath returned")
	loc := s.globalRib.GetPathList(table.GLOBAL_RIB_NAME, 0, fams)
	vAssert(len(loc) == 1 && !loc[0].IsLocal() && loc[0].GetSource().Address == vAddr4(10, 0, 0, 2), "deleting an API route removed (or left) the wrong route: the peer's un-withdrawn route must be the only one left")
	vAssert(a.adjRibIn.Count(fams) == 1 && a.adjRibIn.Accepted(fams) == 1, "the peer's Adj-RIB-In changed when an API route was deleted")
	// the table summary agrees with the content, also for a prefix that was added and deleted
	other := vPrefix4(10, 2, 0, 0, 16)
	r2, err := s.AddPath(apiutil.AddPathRequest{Paths: []*apiutil.Path{{Family: bgp.RF_IPv4_UC, Nlri: other, Attrs: apiPath.Attrs}}})
	vAssert(err == nil && len(r2) == 1, "a second API route is refused")
	if err == nil && len(r2) == 1 {
		vAssert(s.DeletePath(apiutil.DeletePathRequest{UUIDs: []uuidT{r2[0].UUID}}) == nil, "the second API route cannot be deleted")
	}
	if tbl, ok := s.globalRib.GetTable(bgp.RF_IPv4_UC); ok {
		info := tbl.Info()
		vAssert(info.NumDestination == 1 && info.NumPath == 1, "the table summary disagrees with the Loc-RIB content (it counts a destination without routes, or misses one)")
	}
	vReach("end")
}
