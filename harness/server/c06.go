package server

import (
	"github.com/osrg/gobgp/v4/pkg/packet/bgp"
)

// C06 (reaction): with revised error handling enabled the reaction is the error's class (AFI/SAFI
// disable being carried out as a session reset); with it disabled, or for any other message type,
// every error resets the session.
func VH_c06_handling_error() {
	h := &fsmHandler{fsm: &fsm{logger: vLogger()}}
	class := bgp.ErrorHandling(vInt("class", 0, 4))
	e := bgp.NewMessageErrorWithErrorHandling(bgp.BGP_ERROR_UPDATE_MESSAGE_ERROR, vU8("subcode"), nil, class, nil, "x")
	typ := vU8("msgtype")
	vAssume(typ >= 1 && typ <= 5)
	m := &bgp.BGPMessage{Header: bgp.BGPHeader{Type: typ}}
	revised := vBool("revised")
	got := h.handlingError(m, e, revised)
	want := bgp.ERROR_HANDLING_SESSION_RESET
	if revised && typ == bgp.BGP_MSG_UPDATE && class != bgp.ERROR_HANDLING_AFISAFI_DISABLE {
		want = class
	}
	vAssert(got == want, "reaction differs from the error's class (revised handling) / session reset (otherwise)")
	vReach("end")
}
