package server

import (
	"context"
	"sync"

	"github.com/osrg/gobgp/v4/pkg/config/oc"
	"github.com/osrg/gobgp/v4/pkg/packet/bgp"
)

// C06 (reaction): with revised error handling enabled the reaction is the error's class (AFI/SAFI
// disable being carried out as a session reset); with it disabled, or for any other message type,
// every error resets the session.
func VH_c06_handling_error() {
	h := &fsmHandler{fsm: &fsm{logger: vLogger()}}
	class := bgp.ErrorHandling(vInt("class", 0, 4))
	e := bgp.NewMessageErrorWithErrorHandling(bgp.BGP_ERROR_UPDATE_MESSAGE_ERROR, vU8("subcode"), nil, class, nil, "x")
	typ := vU8("msgtype")
	vAssume(typ >= 1 && typ <= 5)
	m := &bgp.BGPMessage{Header: bgp.BGPHeader{Type: typ}}
	revised := vBool("revised")
	got := h.handlingError(m, e, revised)
	want := bgp.ERROR_HANDLING_SESSION_RESET
	if revised && typ == bgp.BGP_MSG_UPDATE && class != bgp.ERROR_HANDLING_AFISAFI_DISABLE {
		want = class
	}
	vAssert(got == want, "reaction differs from the error's class (revised handling) / session reset (otherwise)")
	vReach("end")
}

// C06 (receive loop): the real recvMessageloop reads one UPDATE with up to two catalogue faults from
// the transport and either hands it to the server callback with the reaction to apply, or queues
// the NOTIFICATION that resets the session.
func VH_c06_recvloop() {
	f1, f2 := vChoice("fault", c06nFaults), vChoice("fault", c06nFaults)
	if vParam("two") == 0 {
		f2 = c06none
	}
	vAssume(c06compatible(f1, f2))
	if f2 != c06none {
		vAssume(f1 < f2)
	}
	ebgp, revised := vBool("ebgp"), vBool("revised_error_handling")
	m := c06build()
	m.inject(f1)
	m.inject(f2)
	want := c06class(f1, ebgp)
	if c := c06class(f2, ebgp); c > want {
		want = c
	}
	if !revised && want != bgp.ERROR_HANDLING_NONE {
		want = bgp.ERROR_HANDLING_SESSION_RESET
	}
	body := m.bytes()
	total := 19 + len(body)
	wire := make([]byte, 16, total)
	for i := range wire {
		wire[i] = 0xff
	}
	wire = append(wire, byte(total>>8), byte(total), bgp.BGP_MSG_UPDATE)
	wire = append(wire, body...)
	conn := newVConn(wire, false)

	f := newFSM(&oc.Global{}, &oc.Neighbor{}, bgp.BGP_FSM_ESTABLISHED, vLogger())
	f.isEBGP, f.isTreatAsWithdraw = ebgp, revised
	f.familyMap.Store(map[bgp.Family]bgp.BGPAddPathMode{bgp.RF_IPv4_UC: bgp.BGP_ADD_PATH_NONE, bgp.RF_IPv6_UC: bgp.BGP_ADD_PATH_NONE})
	var got []*fsmMsg
	h := &fsmHandler{fsm: f, callback: func(m *fsmMsg) { got = append(got, m) }}
	wg := &sync.WaitGroup{}
	wg.Add(1)
	h.recvMessageloop(context.Background(), conn, make(chan struct{}, 2), make(chan fsmStateReason, 3), wg)

	var notif *bgp.BGPMessage
	select {
	case notif = <-f.notification:
	default:
	}
	if want == bgp.ERROR_HANDLING_SESSION_RESET {
		vAssert(notif != nil, "a malformed UPDATE that calls for a session reset queued no NOTIFICATION")
		vAssert(len(got) == 0, "an UPDATE that resets the session was still handed to the RIB")
		if notif != nil {
			n := notif.Body.(*bgp.BGPNotification)
			vAssert(n.ErrorCode == bgp.BGP_ERROR_UPDATE_MESSAGE_ERROR || n.ErrorCode == bgp.BGP_ERROR_MESSAGE_HEADER_ERROR, "NOTIFICATION for a malformed UPDATE does not carry an UPDATE/header error code")
		}
		vReach("reset")
		return
	}
	vAssert(notif == nil, "an UPDATE that does not call for a reset queued a NOTIFICATION")
	vAssert(len(got) == 1, "the UPDATE was not handed to the server exactly once")
	if len(got) != 1 {
		return
	}
	vAssert(got[0].handling == want, "the reaction handed to the server differs from the strongest class the faults call for")
	u := got[0].MsgData.(*bgp.BGPMessage).Body.(*bgp.BGPUpdate)
	if want == bgp.ERROR_HANDLING_NONE || want == bgp.ERROR_HANDLING_ATTRIBUTE_DISCARD {
		// the route is going to be installed: mandatory attributes present, none malformed
		seen := map[bgp.BGPAttrType]int{}
		for _, a := range u.PathAttributes {
			seen[a.GetType()]++
		}
		vAssert(seen[bgp.BGP_ATTR_TYPE_ORIGIN] == 1 && seen[bgp.BGP_ATTR_TYPE_AS_PATH] == 1 && seen[bgp.BGP_ATTR_TYPE_NEXT_HOP] == 1, "an UPDATE lacking a mandatory attribute is installed")
		vAssert(seen[bgp.BGP_ATTR_TYPE_MULTI_EXIT_DISC] <= 1 && seen[bgp.BGP_ATTR_TYPE_AGGREGATOR] == 0, "an attribute that arrived malformed or duplicated is installed")
		vReach("install")
	} else {
		vReach("withdraw")
	}
}

// C06 (the session's error-handling mode): the flags the receive path consults (treat-as-withdraw,
// eBGP) are put in force by the real fsm.stateChange(Established) for every kind of peer - with or
// without the 4-octet AS capability in its OPEN - and a malformed UPDATE whose strongest class is
// treat-as-withdraw (MED with a bad length) read by the real recvMessageloop then gets that reaction
// exactly when revised error handling is configured, a session reset otherwise.
func VH_c06_session_mode() {
	ebgp, revised, four := vBool("ebgp"), vBool("revised_error_handling"), vBool("peer_sent_four_octet_as_capability")
	fams := []bgp.Family{bgp.RF_IPv4_UC}
	g := &oc.Global{}
	g.Config.As, g.Config.RouterId = 65000, vAddr4(1, 1, 1, 1)
	peerAS := uint32(65000)
	if ebgp {
		peerAS = 65001
	}
	c := vNeighbor(2, peerAS, 65000, fams)
	c.Timers.Config.HoldTime, c.Timers.Config.KeepaliveInterval = 90, 30
	c.ErrorHandling.Config.TreatAsWithdraw = revised
	caps := []bgp.ParameterCapabilityInterface{bgp.NewCapMultiProtocol(bgp.RF_IPv4_UC)}
	if four {
		caps = append(caps, bgp.NewCapFourOctetASNumber(peerAS))
	}
	open, _ := bgp.NewBGPOpenMessage(uint16(peerAS), 90, vAddr4(2, 2, 2, 2), []bgp.OptionParameterInterface{bgp.NewOptionParameterCapability(caps)})
	f := newFSM(g, c, bgp.BGP_FSM_OPENCONFIRM, vLogger())
	f.conn = newVConn(nil, true)
	f.recvOpen = open
	f.stateChange(bgp.BGP_FSM_ESTABLISHED, newfsmStateReason(fsmOpenMsgNegotiated, nil, nil))
	vAssert(f.isTreatAsWithdraw == revised, "the session does not run with the configured error-handling mode")
	vAssert(f.isEBGP == ebgp, "the session's eBGP flag does not follow the peer's AS")

	// ORIGIN, AS_PATH (in the width the session uses), NEXT_HOP, MED with length 3, one /16
	var seg bgp.AsPathParamInterface = bgp.NewAsPathParam(bgp.BGP_ASPATH_ATTR_TYPE_SEQ, []uint16{uint16(peerAS)})
	if four {
		seg = bgp.NewAs4PathParam(bgp.BGP_ASPATH_ATTR_TYPE_SEQ, []uint32{peerAS})
	}
	nh, _ := bgp.NewPathAttributeNextHop(vAddr4(10, 0, 0, 2))
	var attrs []byte
	asp := bgp.NewPathAttributeAsPath([]bgp.AsPathParamInterface{seg})
	if !ebgp {
		asp = bgp.NewPathAttributeAsPath(nil)
	}
	for _, a := range []bgp.PathAttributeInterface{bgp.NewPathAttributeOrigin(0), asp, nh} {
		b, _ := a.Serialize()
		attrs = append(attrs, b...)
	}
	if !ebgp {
		b, _ := bgp.NewPathAttributeLocalPref(100).Serialize()
		attrs = append(attrs, b...)
	}
	attrs = append(attrs, 0x80, byte(bgp.BGP_ATTR_TYPE_MULTI_EXIT_DISC), 3, 0, 0, 1)
	body := []byte{0, 0, byte(len(attrs) >> 8), byte(len(attrs))}
	body = append(body, attrs...)
	body = append(body, 16, 10, 1)
	total := 19 + len(body)
	wire := make([]byte, 16, total)
	for i := range wire {
		wire[i] = 0xff
	}
	wire = append(wire, byte(total>>8), byte(total), bgp.BGP_MSG_UPDATE)
	wire = append(wire, body...)
	var got []*fsmMsg
	h := &fsmHandler{fsm: f, callback: func(m *fsmMsg) { got = append(got, m) }}
	wg := &sync.WaitGroup{}
	wg.Add(1)
	h.recvMessageloop(context.Background(), newVConn(wire, false), make(chan struct{}, 2), make(chan fsmStateReason, 3), wg)
	var notif *bgp.BGPMessage
	select {
	case notif = <-f.notification:
	default:
	}
	if revised {
		vAssert(notif == nil && len(got) == 1 && got[0].handling == bgp.ERROR_HANDLING_TREAT_AS_WITHDRAW, "with revised error handling configured a MED of bad length is not treated as a withdrawal (the session was reset or the route kept)")
		vReach("withdraw")
	} else {
		vAssert(notif != nil && len(got) == 0, "without revised error handling a malformed UPDATE does not reset the session")
		vReach("reset")
	}
}
