package server

import (
	"net/netip"

	"github.com/osrg/gobgp/v4/internal/pkg/table"
	"github.com/osrg/gobgp/v4/pkg/config/oc"
	"github.com/osrg/gobgp/v4/pkg/packet/bgp"
	"github.com/osrg/gobgp/v4/pkg/packet/bmp"
	"github.com/osrg/gobgp/v4/pkg/packet/mrt"
)

// C19 (the daemon's table dump): the TABLE_DUMPv2 records mrtWriter.dumpTable builds for the
// Loc-RIB, serialised and parsed back, name the same peers (BGP identifier, address, AS), and every
// RIB entry's peer index designates the peer its route was learned from, with the route's
// attributes. Sources: an IPv4 neighbour, an IPv6 neighbour that may carry a zone (unnumbered /
// link-local peering), optionally a local route; each neighbour announces up to two prefixes.
func VH_c19_mrt_dump_table() {
	fams := []bgp.Family{bgp.RF_IPv4_UC, bgp.RF_IPv6_UC}
	s := vServer(65000, fams)
	a := vEstablished(s, vNeighbor(2, 65001, 65000, fams), fams)
	bc := vNeighbor(3, 65002, 65000, fams)
	baddr := netip.AddrFrom16([16]byte{0xfe, 0x80, 15: 3})
	if vBool("ipv6_peer_has_zone") {
		baddr = baddr.WithZone("eth0")
	}
	b := vEstablished(s, bc, fams)
	conf := b.fsm.pConf.ReadCopy()
	conf.Config.NeighborAddress, conf.State.NeighborAddress = baddr, baddr
	b.fsm.pConf.Update(&conf)
	delete(s.neighborMap, vAddr4(10, 0, 0, 3))
	s.neighborMap[baddr] = b
	ib := *b.peerInfo.Load()
	ib.Address = baddr
	b.peerInfo.Store(&ib)
	type exp struct {
		prefix string
		src    *table.PeerInfo
		med    uint32
	}
	var want []exp
	feed := func(p *peer, k byte, as uint32) {
		med := uint32(100*int(k)) + uint32(as&0xff)
		m := vUpdate4(vPrefix4(10, k, 0, 0, 16), false, []uint32{as}, vAddr4(10, 0, 0, 9))
		u := m.Body.(*bgp.BGPUpdate)
		u.PathAttributes = append(u.PathAttributes, bgp.NewPathAttributeMultiExitDisc(med))
		vRecv(s, p, m, int64(10+int(k)))
		want = append(want, exp{vPrefix4(10, k, 0, 0, 16).String(), p.peerInfo.Load(), med})
	}
	na, nb := 1+vChoice("routes_from_a", 2), 1+vChoice("routes_from_b", 2)
	for k := 0; k < na; k++ {
		feed(a, byte(1+k), 65001)
	}
	for k := 0; k < nb; k++ {
		feed(b, byte(1+k), 65002) // the same prefixes: destinations with two sources
	}
	if vBool("ipv6_route") { // an IPv6 unicast route: a RIB_IPV6_UNICAST record
		r6, _ := bgp.NewIPAddrPrefix(netip.PrefixFrom(netip.AddrFrom16([16]byte{0x20, 0x01, 0x0d, 0xb8, 1}), 48))
		m := vUpdate6(r6, false, []uint32{65002})
		u := m.Body.(*bgp.BGPUpdate)
		u.PathAttributes = append(u.PathAttributes, bgp.NewPathAttributeMultiExitDisc(777))
		vRecv(s, b, m, 30)
		want = append(want, exp{r6.String(), b.peerInfo.Load(), 777})
	}
	for _, p := range []*peer{a, b} {
		for p.fsm.outgoingCh.Len() > 0 {
			<-p.fsm.outgoingCh.Out()
		}
	}
	w := &mrtWriter{s: s, c: &oc.MrtConfig{}}
	msgs := w.dumpTable()
	vAssert(len(msgs) >= 2, "the table dump holds no RIB records")
	var peers []*mrt.Peer
	seen := 0
	for i, m := range msgs {
		raw, err := m.Serialize()
		vAssert(err == nil, "a table dump record cannot be serialised")
		h, err := mrt.ParseHeader(raw[:mrt.MRT_COMMON_HEADER_LEN])
		vAssert(err == nil && int(h.Len) == len(raw)-mrt.MRT_COMMON_HEADER_LEN, "a table dump record's header does not describe it")
		back, err := mrt.ParseBody(raw[mrt.MRT_COMMON_HEADER_LEN:], h)
		vAssert(err == nil, "a table dump record the daemon wrote does not parse back")
		if err != nil {
			return
		}
		if i == 0 {
			pit, ok := back.Body.(*mrt.PeerIndexTable)
			vAssert(ok && pit.CollectorBgpId == vAddr4(1, 1, 1, 1), "the dump does not start with the peer index table of this collector")
			peers = pit.Peers
			continue
		}
		rib, ok := back.Body.(*mrt.Rib)
		vAssert(ok, "a record after the peer index table is not a RIB record")
		for _, e := range rib.Entries {
			vAssert(int(e.PeerIndex) < len(peers), "a RIB entry's peer index points past the peer index table")
			if int(e.PeerIndex) >= len(peers) {
				return
			}
			pe := peers[e.PeerIndex]
			var med uint32
			for _, at := range e.PathAttributes {
				if x, ok := at.(*bgp.PathAttributeMultiExitDisc); ok {
					med = x.Value
				}
			}
			found := false
			for _, x := range want {
				if x.prefix == rib.Prefix.String() && x.med == med {
					found = true
					seen++
					vAssert(pe.IpAddress == x.src.Address.WithZone("") && pe.BgpId == x.src.ID, "a RIB entry's peer index designates another peer than the one the route was learned from")
					vAssert(pe.AS == x.src.AS, "the peer index table does not carry the peer's AS number")
				}
			}
			vAssert(found, "the dump holds a route (prefix, attributes) that is not in the Loc-RIB")
		}
	}
	vAssert(seen == len(want), "a Loc-RIB route is missing from the dump")
	vAssert(len(peers) == 2, "the peer index table does not list each source exactly once")
	vReach("end")
}

// C19 (the daemon's BMP records for sessions): bmpPeerUp / bmpPeerDown / bmpPeerRoute built from a
// session event with symbolic peer AS, addresses (IPv4 or IPv6), identifier, ports, peer type and
// pre/post-policy flag, serialised and parsed back: the same peer (address, AS, identifier, flags,
// time), the same local end and OPENs, the down reason prescribed for the loss kind, the same UPDATE.
func VH_c19_bmp_session_records() {
	v6 := vBool("peer_is_ipv6")
	peerAddr, localAddr := vAddr4(10, 0, vU8("peer_octet"), 2), vAddr4(10, 0, 0, 1)
	if v6 {
		peerAddr = netip.AddrFrom16([16]byte{0x20, 0x01, 0x0d, 0xb8, 14: vU8("peer_octet"), 15: 2})
		localAddr = netip.AddrFrom16([16]byte{0x20, 0x01, 0x0d, 0xb8, 15: 1})
	}
	peerAS := vU32("peer_as")
	peerID := vAddr4(2, 2, vU8("id_octet"), 2)
	open := func(as uint16, id netip.Addr) *bgp.BGPMessage {
		m, _ := bgp.NewBGPOpenMessage(as, 90, id, []bgp.OptionParameterInterface{bgp.NewOptionParameterCapability([]bgp.ParameterCapabilityInterface{bgp.NewCapMultiProtocol(bgp.RF_IPv4_UC)})})
		return m
	}
	ev := &watchEventPeer{PeerAS: peerAS, LocalAS: 65000, PeerAddress: peerAddr, LocalAddress: localAddr, PeerPort: vU16("peer_port"), LocalPort: vU16("local_port"),
		PeerID: peerID, SentOpen: open(65000, vAddr4(1, 1, 1, 1)), RecvOpen: open(uint16(peerAS), peerID), Timestamp: vTimeUnix(1700000000)}
	ptype := uint8(vChoice("peer_type", 3)) // global, RD, local instance peer
	policy := vBool("post_policy")
	pd := vU64("peer_distinguisher")
	back := func(m *bmp.BMPMessage) *bmp.BMPMessage {
		raw, err := m.Serialize()
		vAssert(err == nil, "a BMP record of the daemon cannot be serialised")
		got, err := bmp.ParseBMPMessage(raw)
		vAssert(err == nil && got != nil, "a BMP record the daemon wrote does not parse back")
		vAssume(err == nil && got != nil) // reported above; nothing further to compare
		return got
	}
	samePeer := func(h bmp.BMPPeerHeader) {
		vAssert(h.PeerType == ptype && h.PeerDistinguisher == pd, "peer type / distinguisher changed")
		vAssert(h.PeerAddress == peerAddr && h.PeerAS == peerAS && h.PeerBGPID == peerID, "the per-peer header does not parse back to the same peer (address, AS, identifier)")
		vAssert((h.Flags&bmp.BMP_PEER_FLAG_IPV6 != 0) == v6, "the V flag does not follow the peer's address family")
		vAssert((h.Flags&bmp.BMP_PEER_FLAG_POST_POLICY != 0) == policy, "the L flag does not follow pre/post-policy")
		vAssert(h.Timestamp == 1700000000, "the event time changed")
	}
	switch vChoice("record", 3) {
	case 0:
		g := back(bmpPeerUp(ev, ptype, policy, pd))
		samePeer(g.PeerHeader)
		b, ok := g.Body.(*bmp.BMPPeerUpNotification)
		vAssert(ok && b.LocalAddress == localAddr && b.LocalPort == ev.LocalPort && b.RemotePort == ev.PeerPort, "Peer Up does not parse back to the same local address and ports")
		if ok {
			so, ro := b.SentOpenMsg.Body.(*bgp.BGPOpen), b.ReceivedOpenMsg.Body.(*bgp.BGPOpen)
			vAssert(so.MyAS == 65000 && so.ID == vAddr4(1, 1, 1, 1) && ro.MyAS == uint16(peerAS) && ro.ID == peerID, "Peer Up does not carry the sent OPEN first and the received OPEN second")
		}
		vReach("peer_up")
	case 1:
		kinds := []fsmStateReasonType{fsmNotificationSent, fsmHoldTimerExpired, fsmAdminDown, fsmNotificationRecv, fsmReadFailed, fsmDeConfigured}
		wantCode := []uint8{1, 1, 2, 3, 4, 5}
		k := vChoice("loss", len(kinds))
		var n *bgp.BGPMessage
		if wantCode[k] == 1 || wantCode[k] == 3 {
			n = bgp.NewBGPNotificationMessage(vU8("code"), vU8("subcode"), nil)
		}
		ev.StateReason = newfsmStateReason(kinds[k], n, nil)
		g := back(bmpPeerDown(ev, ptype, policy, pd))
		samePeer(g.PeerHeader)
		b, ok := g.Body.(*bmp.BMPPeerDownNotification)
		vAssert(ok && b.Reason == wantCode[k], "Peer Down does not carry the reason RFC 7854 prescribes for the kind of loss")
		if ok && n != nil {
			vAssert(b.BGPNotification != nil && b.BGPNotification.Body.(*bgp.BGPNotification).ErrorCode == n.Body.(*bgp.BGPNotification).ErrorCode &&
				b.BGPNotification.Body.(*bgp.BGPNotification).ErrorSubcode == n.Body.(*bgp.BGPNotification).ErrorSubcode, "Peer Down does not carry the NOTIFICATION that ended the session")
		}
		vReach("peer_down")
	default:
		u := vUpdate4(vPrefix4(10, vU8("prefix_octet"), 0, 0, 16), false, []uint32{peerAS}, vAddr4(10, 0, 0, 2))
		payload, _ := u.Serialize()
		four := vBool("four_octet_as")
		info := &table.PeerInfo{AS: peerAS, ID: peerID, Address: peerAddr}
		g := back(bmpPeerRoute(ptype, policy, pd, four, info, 1700000000, payload))
		samePeer(g.PeerHeader)
		vAssert((g.PeerHeader.Flags&bmp.BMP_PEER_FLAG_TWO_AS != 0) == !four, "the A flag does not follow the AS_PATH width of the session")
		b, ok := g.Body.(*bmp.BMPRouteMonitoring)
		vAssert(ok, "a route monitoring record parses back as something else")
		if ok && four {
			vAssert(b.BGPUpdate != nil && len(b.BGPUpdate.Body.(*bgp.BGPUpdate).NLRI) == 1 && b.BGPUpdate.Body.(*bgp.BGPUpdate).NLRI[0].NLRI.(*bgp.IPAddrPrefix).Prefix == u.Body.(*bgp.BGPUpdate).NLRI[0].NLRI.(*bgp.IPAddrPrefix).Prefix, "route monitoring does not parse back to the same route")
		}
		vReach("route")
	}
}
