package server

import (
	"net/netip"

	"github.com/osrg/gobgp/v4/internal/pkg/table"
	"github.com/osrg/gobgp/v4/pkg/config/oc"
	"github.com/osrg/gobgp/v4/pkg/packet/bgp"
	"github.com/osrg/gobgp/v4/pkg/packet/mrt"
)

// C19 (the daemon's table dump): the TABLE_DUMPv2 records mrtWriter.dumpTable builds for the
// Loc-RIB, serialised and parsed back, name the same peers (BGP identifier, address, AS), and every
// RIB entry's peer index designates the peer its route was learned from, with the route's
// attributes. Sources: an IPv4 neighbour, an IPv6 neighbour that may carry a zone (unnumbered /
// link-local peering), optionally a local route; each neighbour announces up to two prefixes.
func VH_c19_mrt_dump_table() {
	fams := []bgp.Family{bgp.RF_IPv4_UC, bgp.RF_IPv6_UC}
	s := vServer(65000, fams)
	a := vEstablished(s, vNeighbor(2, 65001, 65000, fams), fams)
	bc := vNeighbor(3, 65002, 65000, fams)
	baddr := netip.AddrFrom16([16]byte{0xfe, 0x80, 15: 3})
	if vBool("ipv6_peer_has_zone") {
		baddr = baddr.WithZone("eth0")
	}
	b := vEstablished(s, bc, fams)
	conf := b.fsm.pConf.ReadCopy()
	conf.Config.NeighborAddress, conf.State.NeighborAddress = baddr, baddr
	b.fsm.pConf.Update(&conf)
	delete(s.neighborMap, vAddr4(10, 0, 0, 3))
	s.neighborMap[baddr] = b
	ib := *b.peerInfo.Load()
	ib.Address = baddr
	b.peerInfo.Store(&ib)
	type exp struct {
		prefix string
		src    *table.PeerInfo
		med    uint32
	}
	var want []exp
	feed := func(p *peer, k byte, as uint32) {
		med := uint32(100*int(k)) + uint32(as&0xff)
		m := vUpdate4(vPrefix4(10, k, 0, 0, 16), false, []uint32{as}, vAddr4(10, 0, 0, 9))
		u := m.Body.(*bgp.BGPUpdate)
		u.PathAttributes = append(u.PathAttributes, bgp.NewPathAttributeMultiExitDisc(med))
		vRecv(s, p, m, int64(10+int(k)))
		want = append(want, exp{vPrefix4(10, k, 0, 0, 16).String(), p.peerInfo.Load(), med})
	}
	na, nb := 1+vChoice("routes_from_a", 2), 1+vChoice("routes_from_b", 2)
	for k := 0; k < na; k++ {
		feed(a, byte(1+k), 65001)
	}
	for k := 0; k < nb; k++ {
		feed(b, byte(1+k), 65002) // the same prefixes: destinations with two sources
	}
	if vBool("ipv6_route") { // an IPv6 unicast route: a RIB_IPV6_UNICAST record
		r6, _ := bgp.NewIPAddrPrefix(netip.PrefixFrom(netip.AddrFrom16([16]byte{0x20, 0x01, 0x0d, 0xb8, 1}), 48))
		m := vUpdate6(r6, false, []uint32{65002})
		u := m.Body.(*bgp.BGPUpdate)
		u.PathAttributes = append(u.PathAttributes, bgp.NewPathAttributeMultiExitDisc(777))
		vRecv(s, b, m, 30)
		want = append(want, exp{r6.String(), b.peerInfo.Load(), 777})
	}
	for _, p := range []*peer{a, b} {
		for p.fsm.outgoingCh.Len() > 0 {
			<-p.fsm.outgoingCh.Out()
		}
	}
	w := &mrtWriter{s: s, c: &oc.MrtConfig{}}
	msgs := w.dumpTable()
	vAssert(len(msgs) >= 2, "the table dump holds no RIB records")
	var peers []*mrt.Peer
	seen := 0
	for i, m := range msgs {
		raw, err := m.Serialize()
		vAssert(err == nil, "a table dump record cannot be serialised")
		h, err := mrt.ParseHeader(raw[:mrt.MRT_COMMON_HEADER_LEN])
		vAssert(err == nil && int(h.Len) == len(raw)-mrt.MRT_COMMON_HEADER_LEN, "a table dump record's header does not describe it")
		back, err := mrt.ParseBody(raw[mrt.MRT_COMMON_HEADER_LEN:], h)
		vAssert(err == nil, "a table dump record the daemon wrote does not parse back")
		if err != nil {
			return
		}
		if i == 0 {
			pit, ok := back.Body.(*mrt.PeerIndexTable)
			vAssert(ok && pit.CollectorBgpId == vAddr4(1, 1, 1, 1), "the dump does not start with the peer index table of this collector")
			peers = pit.Peers
			continue
		}
		rib, ok := back.Body.(*mrt.Rib)
		vAssert(ok, "a record after the peer index table is not a RIB record")
		for _, e := range rib.Entries {
			vAssert(int(e.PeerIndex) < len(peers), "a RIB entry's peer index points past the peer index table")
			if int(e.PeerIndex) >= len(peers) {
				return
			}
			pe := peers[e.PeerIndex]
			var med uint32
			for _, at := range e.PathAttributes {
				if x, ok := at.(*bgp.PathAttributeMultiExitDisc); ok {
					med = x.Value
				}
			}
			found := false
			for _, x := range want {
				if x.prefix == rib.Prefix.String() && x.med == med {
					found = true
					seen++
					vAssert(pe.IpAddress == x.src.Address.WithZone("") && pe.BgpId == x.src.ID, "a RIB entry's peer index designates another peer than the one the route was learned from")
					vAssert(pe.AS == x.src.AS, "the peer index table does not carry the peer's AS number")
				}
			}
			vAssert(found, "the dump holds a route (prefix, attributes) that is not in the Loc-RIB")
		}
	}
	vAssert(seen == len(want), "a Loc-RIB route is missing from the dump")
	vAssert(len(peers) == 2, "the peer index table does not list each source exactly once")
	vReach("end")
}
