package server

import (
	"net/netip"

	"github.com/osrg/gobgp/v4/internal/pkg/table"
	"github.com/osrg/gobgp/v4/pkg/config/oc"

	"github.com/osrg/gobgp/v4/pkg/packet/bgp"
)

// C17 (server step): a peer that negotiated Route Target Constraint holds a VPN route iff it has
// an accepted membership for one of the route's targets. One VPN route with target X is learned
// from an iBGP source; the RTC peer (eBGP) sends a history of membership announcements and
// withdrawals - target X or an unrelated target Y, two origin AS values - through the real
// BgpServer.handleFSMMessage; the batches queued for it are applied to a view.
func c17rtm(origin uint32, rt bgp.ExtendedCommunityInterface, withdraw bool) *bgp.BGPMessage {
	n := bgp.NewRouteTargetMembershipNLRI(origin, rt)
	if withdraw {
		a, _ := bgp.NewPathAttributeMpUnreachNLRI(bgp.RF_RTC_UC, []bgp.PathNLRI{{NLRI: n}})
		return bgp.NewBGPUpdateMessage(nil, []bgp.PathAttributeInterface{a}, nil)
	}
	mp, _ := bgp.NewPathAttributeMpReachNLRI(bgp.RF_RTC_UC, []bgp.PathNLRI{{NLRI: n}}, vAddr4(10, 0, 0, 3))
	attrs := []bgp.PathAttributeInterface{bgp.NewPathAttributeOrigin(0),
		bgp.NewPathAttributeAsPath([]bgp.AsPathParamInterface{bgp.NewAs4PathParam(bgp.BGP_ASPATH_ATTR_TYPE_SEQ, []uint32{65003})}), mp}
	return bgp.NewBGPUpdateMessage(nil, attrs, nil)
}

func VH_c17_server_rtc() {
	fams := []bgp.Family{bgp.RF_IPv4_VPN, bgp.RF_RTC_UC}
	s := vServer(65000, fams)
	if vParam("import_policy") == 1 {
		// an import policy with a modifying action: the Loc-RIB then holds a clone of the received path
		rp := &oc.RoutingPolicy{}
		st := oc.Statement{Name: "s1"}
		st.Actions.RouteDisposition = oc.ROUTE_DISPOSITION_ACCEPT_ROUTE
		st.Actions.BgpActions.SetLocalPref = 200
		rp.PolicyDefinitions = []oc.PolicyDefinition{{Name: "p1", Statements: []oc.Statement{st}}}
		ap := oc.ApplyPolicy{}
		ap.Config.ImportPolicyList = []string{"p1"}
		ap.Config.DefaultImportPolicy, ap.Config.DefaultExportPolicy = oc.DEFAULT_POLICY_TYPE_ACCEPT_ROUTE, oc.DEFAULT_POLICY_TYPE_ACCEPT_ROUTE
		if err := s.policy.Reset(rp, map[string]oc.ApplyPolicy{table.GLOBAL_RIB_NAME: ap}); err != nil {
			panic(err)
		}
	}
	src := vEstablished(s, vNeighbor(2, 65000, 65000, []bgp.Family{bgp.RF_IPv4_VPN}), []bgp.Family{bgp.RF_IPv4_VPN})
	rp := vEstablished(s, vNeighbor(3, 65003, 65000, fams), fams)
	x := bgp.NewTwoOctetAsSpecificExtended(bgp.EC_SUBTYPE_ROUTE_TARGET, 65000, 100, true)
	y := bgp.NewTwoOctetAsSpecificExtended(bgp.EC_SUBTYPE_ROUTE_TARGET, 65000, 200, true)
	z := bgp.NewTwoOctetAsSpecificExtended(bgp.EC_SUBTYPE_ROUTE_TARGET, 65000, 300, true)

	// the VPN route, learned before or after the memberships; its target set is {}, {X} or {X,Y}
	rd := bgp.NewRouteDistinguisherTwoOctetAS(65000, 1)
	vpn, _ := bgp.NewLabeledVPNIPAddrPrefix(netip.MustParsePrefix("10.1.0.0/16"), *bgp.NewMPLSLabelStack(100), rd)
	mp, _ := bgp.NewPathAttributeMpReachNLRI(bgp.RF_IPv4_VPN, []bgp.PathNLRI{{NLRI: vpn}}, vAddr4(10, 0, 0, 2))
	attrs := []bgp.PathAttributeInterface{bgp.NewPathAttributeOrigin(0), bgp.NewPathAttributeAsPath(nil), bgp.NewPathAttributeLocalPref(100)}
	nTargets := vChoice("route_targets", 3)
	if vParam("targets") == 1 {
		nTargets = 1 // quick tier: one target
	}
	switch nTargets {
	case 1:
		attrs = append(attrs, bgp.NewPathAttributeExtendedCommunities([]bgp.ExtendedCommunityInterface{x}))
	case 2:
		attrs = append(attrs, bgp.NewPathAttributeExtendedCommunities([]bgp.ExtendedCommunityInterface{x, y}))
	}
	route := bgp.NewBGPUpdateMessage(nil, append(attrs, mp), nil)

	have := false
	drain := func() {
		for rp.fsm.outgoingCh.Len() > 0 {
			m := (<-rp.fsm.outgoingCh.Out()).(*fsmOutgoingMsg)
			for _, p := range m.Paths {
				if p.GetFamily() != bgp.RF_IPv4_VPN {
					continue
				}
				have = !p.IsWithdraw
			}
		}
		for src.fsm.outgoingCh.Len() > 0 {
			<-src.fsm.outgoingCh.Out()
		}
	}
	routeFirst := vBool("route_before_memberships")
	if routeFirst {
		vRecv(s, src, route, 10)
		drain()
		if vParam("import_policy") == 1 && vBool("soft_reset_in") {
			vAssert(s.softResetIn("", bgp.RF_IPv4_VPN) == nil, "soft reset failed")
			drain()
		}
	}
	// memberships the peer holds, by target (X, Y, unrelated Z, default) and origin AS
	var member [4][2]bool
	steps := vParam("steps")
	kinds := 3
	if vParam("targets") == 1 {
		kinds = 2 // quick tier: the route's target or an unrelated one
	}
	for i := 0; i < steps; i++ {
		k := vChoice("origin_as", 2)
		withdraw := vBool("withdraw")
		which := vChoice("membership_target", kinds+1)
		var rt bgp.ExtendedCommunityInterface
		slot := which
		switch {
		case vParam("targets") == 1 && which == 1:
			rt, slot = z, 2
		case vParam("targets") == 1 && which == 2:
			rt, slot = nil, 3
		case which == 0:
			rt = x
		case which == 1:
			rt = y
		case which == 2:
			rt = z
		default:
			rt, slot = nil, 3
		}
		vRecv(s, rp, c17rtm(uint32(65003+k), rt, withdraw), int64(20+i))
		drain()
		member[slot][k] = !withdraw
	}
	if !routeFirst {
		vRecv(s, src, route, 50)
		drain()
	}
	has := func(t int) bool { return member[t][0] || member[t][1] }
	want := has(3) || nTargets >= 1 && has(0) || nTargets >= 2 && has(1)
	vAssert(have == want, "an RTC peer's view of a VPN route differs from 'it has an accepted membership for one of the route's targets (or the default membership)'")
	if want {
		vReach("advertised")
	} else {
		vReach("withheld")
	}
}

// C17 (VRF peer): a peer attached to a VRF holds, as a plain IPv4 route, exactly the VPN routes one
// of whose targets the VRF imports. A VPN prefix is announced, re-announced with another target set
// and withdrawn by an iBGP source; the batches queued for the VRF peer are applied to a view.
func VH_c17_server_vrf() {
	vpnFams := []bgp.Family{bgp.RF_IPv4_VPN}
	s := vServer(65000, []bgp.Family{bgp.RF_IPv4_VPN, bgp.RF_IPv4_UC, bgp.RF_RTC_UC})
	x := bgp.NewTwoOctetAsSpecificExtended(bgp.EC_SUBTYPE_ROUTE_TARGET, 65000, 100, true)
	y := bgp.NewTwoOctetAsSpecificExtended(bgp.EC_SUBTYPE_ROUTE_TARGET, 65000, 200, true)
	rdv := bgp.NewRouteDistinguisherTwoOctetAS(65000, 9)
	pl, err := s.globalRib.AddVrf("v1", 1, rdv, []bgp.ExtendedCommunityInterface{x}, []bgp.ExtendedCommunityInterface{x}, &table.PeerInfo{AS: 65000, LocalID: vAddr4(1, 1, 1, 1)})
	vAssert(err == nil, "a VRF cannot be added")
	if len(pl) > 0 {
		s.propagateUpdate(nil, pl)
	}
	src := vEstablished(s, vNeighbor(2, 65000, 65000, vpnFams), vpnFams)
	cc := vNeighbor(4, 65004, 65000, []bgp.Family{bgp.RF_IPv4_UC})
	cc.Config.Vrf = "v1"
	ce := vEstablished(s, cc, []bgp.Family{bgp.RF_IPv4_UC})
	rd := bgp.NewRouteDistinguisherTwoOctetAS(65000, 1)
	vpn, _ := bgp.NewLabeledVPNIPAddrPrefix(netip.MustParsePrefix("10.1.0.0/16"), *bgp.NewMPLSLabelStack(100), rd)
	mk := func(targets int, withdraw bool) *bgp.BGPMessage {
		if withdraw {
			a, _ := bgp.NewPathAttributeMpUnreachNLRI(bgp.RF_IPv4_VPN, []bgp.PathNLRI{{NLRI: vpn}})
			return bgp.NewBGPUpdateMessage(nil, []bgp.PathAttributeInterface{a}, nil)
		}
		mp, _ := bgp.NewPathAttributeMpReachNLRI(bgp.RF_IPv4_VPN, []bgp.PathNLRI{{NLRI: vpn}}, vAddr4(10, 0, 0, 2))
		attrs := []bgp.PathAttributeInterface{bgp.NewPathAttributeOrigin(0), bgp.NewPathAttributeAsPath(nil), bgp.NewPathAttributeLocalPref(100)}
		switch targets {
		case 1:
			attrs = append(attrs, bgp.NewPathAttributeExtendedCommunities([]bgp.ExtendedCommunityInterface{x}))
		case 2:
			attrs = append(attrs, bgp.NewPathAttributeExtendedCommunities([]bgp.ExtendedCommunityInterface{y}))
		case 3:
			attrs = append(attrs, bgp.NewPathAttributeExtendedCommunities([]bgp.ExtendedCommunityInterface{y, x}))
		}
		return bgp.NewBGPUpdateMessage(nil, append(attrs, mp), nil)
	}
	have, want := false, false
	steps := vParam("steps")
	for i := 0; i < steps; i++ {
		ev := vChoice("event", 5) // 0 no target, 1 imported target, 2 other target, 3 both, 4 withdraw
		vRecv(s, src, mk(ev, ev == 4), int64(10+i))
		want = ev == 1 || ev == 3
		for ce.fsm.outgoingCh.Len() > 0 {
			m := (<-ce.fsm.outgoingCh.Out()).(*fsmOutgoingMsg)
			for _, p := range m.Paths {
				if p.IsEOR() {
					continue
				}
				vAssert(p.GetFamily() == bgp.RF_IPv4_UC, "a VRF peer is sent a route that is not a plain route of its family")
				have = !p.IsWithdraw
			}
		}
		for src.fsm.outgoingCh.Len() > 0 {
			<-src.fsm.outgoingCh.Out()
		}
	}
	vAssert(have == want, "a VRF peer's view of a VPN route differs from 'one of its targets is imported by the VRF' (stale or missing route)")
	if want {
		vReach("imported")
	} else {
		vReach("not_imported")
	}
}
