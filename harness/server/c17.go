package server

import (
	"net/netip"

	"github.com/osrg/gobgp/v4/pkg/packet/bgp"
)

// C17 (server step): a peer that negotiated Route Target Constraint holds a VPN route iff it has
// an accepted membership for one of the route's targets. One VPN route with target X is learned
// from an iBGP source; the RTC peer (eBGP) sends a history of membership announcements and
// withdrawals - target X or an unrelated target Y, two origin AS values - through the real
// BgpServer.handleFSMMessage; the batches queued for it are applied to a view.
func c17rtm(origin uint32, rt bgp.ExtendedCommunityInterface, withdraw bool) *bgp.BGPMessage {
	n := bgp.NewRouteTargetMembershipNLRI(origin, rt)
	if withdraw {
		a, _ := bgp.NewPathAttributeMpUnreachNLRI(bgp.RF_RTC_UC, []bgp.PathNLRI{{NLRI: n}})
		return bgp.NewBGPUpdateMessage(nil, []bgp.PathAttributeInterface{a}, nil)
	}
	mp, _ := bgp.NewPathAttributeMpReachNLRI(bgp.RF_RTC_UC, []bgp.PathNLRI{{NLRI: n}}, vAddr4(10, 0, 0, 3))
	attrs := []bgp.PathAttributeInterface{bgp.NewPathAttributeOrigin(0),
		bgp.NewPathAttributeAsPath([]bgp.AsPathParamInterface{bgp.NewAs4PathParam(bgp.BGP_ASPATH_ATTR_TYPE_SEQ, []uint32{65003})}), mp}
	return bgp.NewBGPUpdateMessage(nil, attrs, nil)
}

func VH_c17_server_rtc() {
	fams := []bgp.Family{bgp.RF_IPv4_VPN, bgp.RF_RTC_UC}
	s := vServer(65000, fams)
	src := vEstablished(s, vNeighbor(2, 65000, 65000, []bgp.Family{bgp.RF_IPv4_VPN}), []bgp.Family{bgp.RF_IPv4_VPN})
	rp := vEstablished(s, vNeighbor(3, 65003, 65000, fams), fams)
	x := bgp.NewTwoOctetAsSpecificExtended(bgp.EC_SUBTYPE_ROUTE_TARGET, 65000, 100, true)
	y := bgp.NewTwoOctetAsSpecificExtended(bgp.EC_SUBTYPE_ROUTE_TARGET, 65000, 200, true)

	// the VPN route, learned before or after the memberships
	rd := bgp.NewRouteDistinguisherTwoOctetAS(65000, 1)
	vpn, _ := bgp.NewLabeledVPNIPAddrPrefix(netip.MustParsePrefix("10.1.0.0/16"), *bgp.NewMPLSLabelStack(100), rd)
	mp, _ := bgp.NewPathAttributeMpReachNLRI(bgp.RF_IPv4_VPN, []bgp.PathNLRI{{NLRI: vpn}}, vAddr4(10, 0, 0, 2))
	route := bgp.NewBGPUpdateMessage(nil, []bgp.PathAttributeInterface{bgp.NewPathAttributeOrigin(0),
		bgp.NewPathAttributeAsPath(nil), bgp.NewPathAttributeLocalPref(100),
		bgp.NewPathAttributeExtendedCommunities([]bgp.ExtendedCommunityInterface{x}), mp}, nil)

	have := false
	drain := func() {
		for rp.fsm.outgoingCh.Len() > 0 {
			m := (<-rp.fsm.outgoingCh.Out()).(*fsmOutgoingMsg)
			for _, p := range m.Paths {
				if p.GetFamily() != bgp.RF_IPv4_VPN {
					continue
				}
				have = !p.IsWithdraw
			}
		}
		for src.fsm.outgoingCh.Len() > 0 {
			<-src.fsm.outgoingCh.Out()
		}
	}
	routeFirst := vBool("route_before_memberships")
	if routeFirst {
		vRecv(s, src, route, 10)
		drain()
	}
	// memberships the peer holds for X, by origin AS
	var member [2]bool
	steps := vParam("steps")
	for i := 0; i < steps; i++ {
		k := vChoice("origin_as", 2)
		withdraw := vBool("withdraw")
		rt := bgp.ExtendedCommunityInterface(x)
		other := vBool("unrelated_target")
		if other {
			rt = y
		}
		vRecv(s, rp, c17rtm(uint32(65003+k), rt, withdraw), int64(20+i))
		drain()
		if !other {
			member[k] = !withdraw
		}
	}
	if !routeFirst {
		vRecv(s, src, route, 50)
		drain()
	}
	want := member[0] || member[1]
	vAssert(have == want, "an RTC peer's view of a VPN route differs from 'it has an accepted membership for one of the route's targets'")
	if want {
		vReach("advertised")
	} else {
		vReach("withheld")
	}
}
