package server

import (
	"context"
	"net/netip"
	"slices"
	"sync"
	"time"

	"github.com/osrg/gobgp/v4/internal/pkg/table"
	"github.com/osrg/gobgp/v4/pkg/packet/bgp"
)

// C01 (server step, observed at each peer's outgoing queue): a speaker in AS 65000 with two route
// sources (A: eBGP 65001, B: iBGP) and two further targets (T1: eBGP 65003, T2: iBGP). Every
// history of UPDATEs from A and B over one prefix is driven through the real
// BgpServer.handleFSMMessage; the path batches queued for every peer are applied in order to a
// per-peer view. At quiescence each view must equal the export of the Loc-RIB best path to that
// peer: present iff a best path exists, it was not learned from that peer, the peer's AS is not in
// its AS_PATH (eBGP), and it is not iBGP-learned towards an iBGP peer.

type c01view struct {
	have bool
	path *table.Path
}

func c01drain(p *peer, v *c01view, prefix string) {
	for p.fsm.outgoingCh.Len() > 0 {
		m := (<-p.fsm.outgoingCh.Out()).(*fsmOutgoingMsg)
		for _, path := range m.Paths {
			vAssert(path.GetPrefix() == prefix, "a route for a prefix nobody announced was queued")
			if path.IsWithdraw {
				v.have, v.path = false, nil
			} else {
				v.have, v.path = true, path
			}
		}
	}
}

func VH_c01_server_fanout() {
	fams := []bgp.Family{bgp.RF_IPv4_UC}
	s := vServer(65000, fams)
	a := vEstablished(s, vNeighbor(2, 65001, 65000, fams), fams)
	b := vEstablished(s, vNeighbor(3, 65000, 65000, fams), fams)
	t1 := vEstablished(s, vNeighbor(4, 65003, 65000, fams), fams)
	t2 := vEstablished(s, vNeighbor(5, 65000, 65000, fams), fams)
	c3 := vNeighbor(6, 65000, 65000, fams)
	c3.RouteReflector.Config.RouteReflectorClient = true
	c3.RouteReflector.State.RouteReflectorClusterId = vAddr4(1, 1, 1, 1) // no explicit cluster id: the effective one defaults to the router id
	t3 := vEstablished(s, c3, fams) // route-reflector client: iBGP-learned routes are reflected to it
	peers := []*peer{a, b, t1, t2, t3}
	views := make([]c01view, len(peers))
	prefix := vPrefix4(10, 1, 0, 0, 16)
	steps := vParam("steps")
	for i := 0; i < steps; i++ {
		src := a
		if vBool("from_b") {
			src = b
		}
		var m *bgp.BGPMessage
		if vBool("withdraw") {
			m = vUpdate4(prefix, true, nil, vAddr4(10, 0, 0, 2))
		} else {
			x := vU32("as")
			vAssume(x != 0)
			aspath := []uint32{x}
			if src == a {
				aspath = []uint32{65001, x}
			}
			m = vUpdate4(prefix, false, aspath, src.fsm.pConf.ReadOnly().State.NeighborAddress)
			if src == b {
				u := m.Body.(*bgp.BGPUpdate)
				u.PathAttributes = append(u.PathAttributes, bgp.NewPathAttributeLocalPref(100))
				if vBool("cluster_list_has_local_id") {
					cl, _ := bgp.NewPathAttributeClusterList([]netip.Addr{vAddr4(9, 9, 9, 9), vAddr4(1, 1, 1, 1)})
					oi, _ := bgp.NewPathAttributeOriginatorId(vAddr4(8, 8, 8, 8))
					u.PathAttributes = append(u.PathAttributes, oi, cl)
				}
			}
		}
		s.handleFSMMessage(src, &fsmMsg{MsgType: fsmMsgBGPMessage, MsgData: m, timestamp: time.Unix(int64(2000+i), 0)})
		for k, p := range peers {
			c01drain(p, &views[k], prefix.String())
		}
	}
	var best *table.Path
	if l := s.globalRib.GetBestPathList(table.GLOBAL_RIB_NAME, 0, fams); len(l) > 0 {
		vAssert(len(l) == 1, "more than one best path for one prefix")
		best = l[0]
	}
	for k, p := range peers {
		want := best != nil && best.GetSource().Address != p.fsm.pConf.ReadOnly().State.NeighborAddress
		if want && p.isIBGPPeer() && best.IsIBGP() && !p.isRouteReflectorClient() {
			want = false // iBGP-learned routes go to iBGP peers only by reflection to clients
		}
		if want && p.isRouteReflectorClient() && slices.Contains(best.GetClusterList(), vAddr4(1, 1, 1, 1)) {
			want = false // RFC 4456: the local cluster id is already in the CLUSTER_LIST
		}
		if want && !p.isIBGPPeer() && slices.Contains(best.GetAsList(), p.AS()) {
			want = false
		}
		vAssert(views[k].have == want, "a peer's view differs from the export of the current best path (stale or missing route)")
		if want && views[k].have {
			got := views[k].path
			vAssert(got.GetSource() == best.GetSource(), "the route a peer holds is not the current best path")
			exp := best.GetAsList()
			if !p.isIBGPPeer() {
				exp = append([]uint32{65000}, exp...)
			}
			vAssert(slices.Equal(got.GetAsList(), exp), "the AS_PATH a peer holds is not the export of the best path's")
			if p.isRouteReflectorClient() && best.IsIBGP() {
				vAssert(got.GetOriginatorID().IsValid() && len(got.GetClusterList()) >= 1 && got.GetClusterList()[0] == vAddr4(1, 1, 1, 1), "a reflected route lacks ORIGINATOR_ID or the local cluster id first in its CLUSTER_LIST")
				vReach("reflected")
			}
			vReach("advertised")
		}
	}
	if best == nil {
		vReach("empty")
	}
}

// C01 (twin sources): two route-reflector clients announce the prefix with byte-identical path
// attributes (or one of two attribute variants), withdraw it and go down, in every order. When the
// best path moves from one client to the other nothing in the attributes changes - only the source
// does - and still the new source has to lose the route reflected to it and the old one has to be
// told the new best. A non-client iBGP peer and an eBGP peer watch as well.
func VH_c01_server_twins() {
	fams := []bgp.Family{bgp.RF_IPv4_UC}
	s := vServer(65000, fams)
	mk := func(i byte) *peer {
		c := vNeighbor(i, 65000, 65000, fams)
		c.RouteReflector.Config.RouteReflectorClient = true
		c.RouteReflector.State.RouteReflectorClusterId = vAddr4(1, 1, 1, 1)
		return vEstablished(s, c, fams)
	}
	c1, c2 := mk(2), mk(3)
	// parallel = 1: the two clients are parallel sessions to ONE router (same BGP identifier,
	// different neighbour addresses): a route learned over one session is never sent back to that
	// router over the other
	parallel := vParam("parallel") == 1
	if parallel {
		conf := c2.fsm.pConf.ReadCopy()
		conf.State.RemoteRouterId = c1.fsm.pConf.ReadOnly().State.RemoteRouterId
		c2.fsm.pConf.Update(&conf)
		ib := *c2.peerInfo.Load()
		ib.ID = c1.peerInfo.Load().ID
		c2.peerInfo.Store(&ib)
	}
	t1 := vEstablished(s, vNeighbor(4, 65003, 65000, fams), fams)
	t2 := vEstablished(s, vNeighbor(5, 65000, 65000, fams), fams)
	peers := []*peer{c1, c2, t1, t2}
	up := []bool{true, true, true, true}
	views := make([]c01view, len(peers))
	prefix := vPrefix4(10, 1, 0, 0, 16)
	steps := vParam("steps")
	for i := 0; i < steps; i++ {
		k := 0
		if vBool("from_c2") {
			k = 1
		}
		if !up[k] {
			continue
		}
		src := peers[k]
		switch vChoice("op", 3) {
		case 0:
			asn := uint32(7)
			if vBool("other_attributes") {
				asn = 8
			}
			m := vUpdate4(prefix, false, []uint32{asn}, vAddr4(10, 0, 0, 9))
			u := m.Body.(*bgp.BGPUpdate)
			u.PathAttributes = append(u.PathAttributes, bgp.NewPathAttributeLocalPref(100))
			s.handleFSMMessage(src, &fsmMsg{MsgType: fsmMsgBGPMessage, MsgData: m, timestamp: time.Unix(int64(2000+i), 0)})
		case 1:
			s.handleFSMMessage(src, &fsmMsg{MsgType: fsmMsgBGPMessage, MsgData: vUpdate4(prefix, true, nil, vAddr4(10, 0, 0, 9)), timestamp: time.Unix(int64(2000+i), 0)})
		case 2:
			vTransition(s, src, bgp.BGP_FSM_IDLE, fsmReadFailed)
			up[k] = false
			views[k] = c01view{}
		}
		for j, p := range peers {
			if up[j] {
				c01drain(p, &views[j], prefix.String())
			}
		}
	}
	var best *table.Path
	if l := s.globalRib.GetBestPathList(table.GLOBAL_RIB_NAME, 0, fams); len(l) > 0 {
		vAssert(len(l) == 1, "more than one best path for one prefix")
		best = l[0]
	}
	for j, p := range peers {
		if !up[j] {
			continue
		}
		want := best != nil && best.GetSource().Address != p.fsm.pConf.ReadOnly().State.NeighborAddress
		if want && parallel && j < 2 {
			want = false // the best path came from the same router over the other session
			vReach("not_sent_back")
		}
		vAssert(views[j].have == want, "a peer's view differs from the export of the current best path (stale or missing route, or a route sent back to the router it came from) after the best path moved between sources with identical attributes")
		if want && views[j].have {
			vAssert(views[j].path.GetSource() == best.GetSource(), "the route a peer holds is not the current best path")
			vAssert(slices.Equal(views[j].path.GetAsList()[len(views[j].path.GetAsList())-1:], best.GetAsList()), "the AS_PATH a peer holds does not end in the best path's")
			if j < 2 {
				vReach("twin_holds_other")
			}
		}
	}
	if best == nil {
		vReach("empty")
	}
}

// C01 (ADD-PATH target): sources in distinct ASes announce and withdraw one prefix; the target
// negotiated ADD-PATH send with send-max paths per prefix. The queued batches are applied to a view
// keyed by path identifier. At quiescence the view holds min(send-max, eligible) routes, each of
// them a route currently in the Loc-RIB under the identifier the Loc-RIB gives it - nothing stale.
func VH_c01_server_addpath() {
	fams := []bgp.Family{bgp.RF_IPv4_UC}
	s := vServer(65000, fams)
	nsrc := vParam("sources")
	srcs := make([]*peer, nsrc)
	for i := range srcs {
		srcs[i] = vEstablished(s, vNeighbor(byte(2+i), uint32(65001+i), 65000, fams), fams)
	}
	tc := vNeighbor(9, 65009, 65000, fams)
	sendMax := vParam("sendmax")
	tc.AfiSafis[0].AddPaths.Config.SendMax = uint8(sendMax)
	t := vEstablished(s, tc, fams)
	t.fsm.familyMap.Store(map[bgp.Family]bgp.BGPAddPathMode{bgp.RF_IPv4_UC: bgp.BGP_ADD_PATH_SEND})
	prefix := vPrefix4(10, 1, 0, 0, 16)
	view := map[uint32]*table.Path{}
	steps := vParam("steps")
	for i := 0; i < steps; i++ {
		k := vChoice("source", nsrc)
		src := srcs[k]
		m := vUpdate4(prefix, vBool("withdraw"), []uint32{uint32(65001 + k)}, src.fsm.pConf.ReadOnly().State.NeighborAddress)
		s.handleFSMMessage(src, &fsmMsg{MsgType: fsmMsgBGPMessage, MsgData: m, timestamp: time.Unix(int64(2000+i), 0)})
		for t.fsm.outgoingCh.Len() > 0 {
			om := (<-t.fsm.outgoingCh.Out()).(*fsmOutgoingMsg)
			for _, path := range om.Paths {
				id := path.LocalID()
				if path.IsWithdraw {
					delete(view, id)
				} else {
					view[id] = path
				}
			}
		}
		for _, sp := range srcs {
			for sp.fsm.outgoingCh.Len() > 0 {
				<-sp.fsm.outgoingCh.Out()
			}
		}
	}
	loc := s.globalRib.GetPathList(table.GLOBAL_RIB_NAME, 0, fams)
	want := len(loc)
	if want > sendMax {
		want = sendMax
	}
	vAssert(len(view) == want, "an ADD-PATH peer does not hold min(send-max, eligible) routes for the prefix (stale or missing route)")
	for id, p := range view {
		found := false
		for _, l := range loc {
			if l.LocalID() == id && l.GetSource() == p.GetSource() {
				found = true
			}
		}
		vAssert(found, "an ADD-PATH peer holds a route that is not in the Loc-RIB under that path identifier")
	}
	if len(loc) > sendMax {
		vReach("held_back")
	}
	if len(view) > 0 {
		vReach("advertised")
	}
}

// C01 (flaps): announcements and withdrawals from two eBGP sources interleaved with the loss of a
// source's session and a flap (down, then up with the initial table transfer) of the target's
// session. The target's view is reset when its session ends. At quiescence the view equals the
// export of the best path, and nothing of a source whose session has ended is in the Loc-RIB.
func VH_c01_server_flaps() {
	fams := []bgp.Family{bgp.RF_IPv4_UC}
	s := vServer(65000, fams)
	a := vEstablished(s, vNeighbor(2, 65001, 65000, fams), fams)
	b := vEstablished(s, vNeighbor(3, 65002, 65000, fams), fams)
	t := vEstablished(s, vNeighbor(4, 65003, 65000, fams), fams)
	prefix := vPrefix4(10, 1, 0, 0, 16)
	view := c01view{}
	aUp, tUp := true, true
	steps := vParam("steps")
	for i := 0; i < steps; i++ {
		switch vChoice("event", 6) {
		case 0:
			x := vU32("as") // may be the target's AS (not exportable to it) or the local AS (loop)
			vAssume(x != 0)
			vRecv(s, a, vUpdate4(prefix, false, []uint32{65001, x}, vAddr4(10, 0, 0, 2)), int64(10+i))
		case 1:
			vRecv(s, a, vUpdate4(prefix, true, nil, vAddr4(10, 0, 0, 2)), int64(10+i))
		case 2:
			vRecv(s, b, vUpdate4(prefix, false, []uint32{65002}, vAddr4(10, 0, 0, 3)), int64(10+i))
		case 3:
			vRecv(s, b, vUpdate4(prefix, true, nil, vAddr4(10, 0, 0, 3)), int64(10+i))
		case 4: // the session with source A is lost for good
			vAssume(aUp)
			vTransition(s, a, bgp.BGP_FSM_IDLE, fsmReadFailed)
			aUp = false
		default: // the target's session flaps
			vAssume(tUp || true)
			vTransition(s, t, bgp.BGP_FSM_IDLE, fsmReadFailed)
			view = c01view{} // the peer forgets everything it was told on the old session
			for t.fsm.outgoingCh.Len() > 0 {
				<-t.fsm.outgoingCh.Out()
			}
			t.fsm.conn = newVConn(nil, true)
			vTransition(s, t, bgp.BGP_FSM_ESTABLISHED, fsmOpenMsgNegotiated)
		}
		c01drain(t, &view, prefix.String())
		for _, p := range []*peer{a, b} {
			for p.fsm.outgoingCh.Len() > 0 {
				<-p.fsm.outgoingCh.Out()
			}
		}
	}
	var best *table.Path
	for _, p := range s.globalRib.GetPathList(table.GLOBAL_RIB_NAME, 0, fams) {
		vAssert(aUp || p.GetSource().Address != vAddr4(10, 0, 0, 2), "a route of a session that has ended is still in the Loc-RIB")
	}
	if l := s.globalRib.GetBestPathList(table.GLOBAL_RIB_NAME, 0, fams); len(l) > 0 {
		best = l[0]
	}
	want := best != nil && !slices.Contains(best.GetAsList(), 65003)
	vAssert(view.have == want, "after flaps the peer's view differs from the export of the current best path (stale or missing route)")
	if want && view.have {
		vAssert(view.path.GetSource() == best.GetSource(), "after flaps the route the peer holds is not the current best path")
		vReach("advertised")
	}
	if !aUp {
		vReach("source_lost")
	}
}

// C01 (transport): the real sendMessageloop (coalescing sender + packer + serialisation) turns the
// batches queued for a session into bytes; the UPDATEs written to the transport, parsed back and
// applied in order, leave the peer with exactly the effect of applying the queued batches one
// path at a time (the last action per prefix wins, each announced prefix with its own attributes).
func VH_c01_transport() {
	f, h, conn := c07fsm(bgp.BGP_FSM_ESTABLISHED, nil, true)
	f.familyMap.Store(map[bgp.Family]bgp.BGPAddPathMode{bgp.RF_IPv4_UC: bgp.BGP_ADD_PATH_NONE})
	src := &table.PeerInfo{AS: 65009, Address: vAddr4(10, 0, 0, 9), ID: vAddr4(9, 9, 9, 9)}
	prefixes := []*bgp.IPAddrPrefix{vPrefix4(10, 1, 0, 0, 16), vPrefix4(10, 2, 0, 0, 16)}
	type want struct {
		have bool
		med  uint32
	}
	model := map[string]want{}
	batches := vParam("batches")
	for i := 0; i < batches; i++ {
		var paths []*table.Path
		n := 1 + vChoice("batch_size", 2)
		for j := 0; j < n; j++ {
			pf := prefixes[vChoice("prefix", 2)]
			if vBool("withdraw") {
				paths = append(paths, table.NewPath(bgp.RF_IPv4_UC, src, bgp.PathNLRI{NLRI: pf}, true, nil, vTimeUnix(int64(100+i)), false))
				model[pf.String()] = want{}
			} else {
				med := vU32("med")
				nh, _ := bgp.NewPathAttributeNextHop(vAddr4(10, 0, 0, 1))
				attrs := []bgp.PathAttributeInterface{bgp.NewPathAttributeOrigin(0),
					bgp.NewPathAttributeAsPath([]bgp.AsPathParamInterface{bgp.NewAs4PathParam(bgp.BGP_ASPATH_ATTR_TYPE_SEQ, []uint32{65000, 65009})}), nh,
					bgp.NewPathAttributeMultiExitDisc(med)}
				paths = append(paths, table.NewPath(bgp.RF_IPv4_UC, src, bgp.PathNLRI{NLRI: pf}, false, attrs, vTimeUnix(int64(100+i)), false))
				model[pf.String()] = want{true, med}
			}
		}
		f.outgoingCh.In() <- &fsmOutgoingMsg{Paths: paths}
	}
	ctx, cancel := context.WithCancel(context.Background())
	wg := &sync.WaitGroup{}
	wg.Add(1)
	go h.sendMessageloop(ctx, conn, make(chan fsmStateReason, 3), wg)
	vSettle()
	cancel()
	// the peer's side: parse what was written and apply it
	view := map[string]want{}
	conn.mu.Lock()
	b := append([]byte(nil), conn.out...)
	conn.mu.Unlock()
	for len(b) >= 19 {
		l := int(b[16])<<8 | int(b[17])
		vAssert(l >= 19 && l <= len(b) && l <= 4096, "a message written to the session is mis-framed or exceeds 4096 octets")
		if l < 19 || l > len(b) {
			return
		}
		m, err := bgp.ParseBGPMessage(b[:l])
		vAssert(err == nil, "a message written to the session does not parse")
		if err != nil {
			return
		}
		if u, ok := m.Body.(*bgp.BGPUpdate); ok {
			for _, w := range u.WithdrawnRoutes {
				view[w.NLRI.String()] = want{}
			}
			var med uint32
			for _, a := range u.PathAttributes {
				if x, ok := a.(*bgp.PathAttributeMultiExitDisc); ok {
					med = x.Value
				}
			}
			for _, n := range u.NLRI {
				view[n.NLRI.String()] = want{true, med}
			}
		}
		b = b[l:]
	}
	for _, pf := range prefixes {
		vAssert(view[pf.String()] == model[pf.String()], "the UPDATEs written to the transport do not leave the peer with the effect of the queued route changes applied in order")
	}
	vReach("end")
}
