package server

import (
	"context"
	"sync"
	"sync/atomic"

	"github.com/osrg/gobgp/v4/internal/pkg/table"
	"github.com/osrg/gobgp/v4/pkg/packet/bgp"
)

// C11 (a route that cannot be sent): a single route whose UPDATE exceeds the session's message size
// is skipped and counted by the real sendMessageloop - nothing over the limit is written - and the
// routes queued before and after it still reach the peer, and so do KEEPALIVEs: the sender survives.
func VH_c11_sender_skips_oversized() {
	f, h, conn := c07fsm(bgp.BGP_FSM_ESTABLISHED, nil, true)
	f.familyMap.Store(map[bgp.Family]bgp.BGPAddPathMode{bgp.RF_IPv4_UC: bgp.BGP_ADD_PATH_NONE})
	src := &table.PeerInfo{AS: 65009, Address: vAddr4(10, 0, 0, 9), ID: vAddr4(9, 9, 9, 9)}
	mk := func(k byte, med uint32, big int) *table.Path {
		nh, _ := bgp.NewPathAttributeNextHop(vAddr4(10, 0, 0, 1))
		attrs := []bgp.PathAttributeInterface{bgp.NewPathAttributeOrigin(0),
			bgp.NewPathAttributeAsPath([]bgp.AsPathParamInterface{bgp.NewAs4PathParam(bgp.BGP_ASPATH_ATTR_TYPE_SEQ, []uint32{65000, 65009})}), nh,
			bgp.NewPathAttributeMultiExitDisc(med)}
		if big > 0 {
			attrs = append(attrs, bgp.NewPathAttributeUnknown(bgp.BGP_ATTR_FLAG_OPTIONAL|bgp.BGP_ATTR_FLAG_TRANSITIVE|bgp.BGP_ATTR_FLAG_EXTENDED_LENGTH, 250, make([]byte, big)))
		}
		return table.NewPath(bgp.RF_IPv4_UC, src, bgp.PathNLRI{NLRI: vPrefix4(10, k, 0, 0, 16)}, false, attrs, vTimeUnix(100), false)
	}
	// concrete attribute values: every attribute hash is computed by the real code (the engine's
	// uninterpreted hash for symbolic bytes is not constrained against real hashes of constants)
	m1, m3 := uint32(11), uint32(11+vChoice("other_routes_share_attributes", 2))
	pos := vChoice("oversized_position", 3) // the oversized route is queued first, in the middle, or last
	queue := []*table.Path{mk(1, m1, 0), mk(3, m3, 0)}
	bigRoute := mk(2, 7, 5000)
	queue = append(queue[:pos:pos], append([]*table.Path{bigRoute}, queue[pos:]...)...)
	if vBool("one_batch") {
		f.outgoingCh.In() <- &fsmOutgoingMsg{Paths: queue}
	} else {
		for _, p := range queue {
			f.outgoingCh.In() <- &fsmOutgoingMsg{Paths: []*table.Path{p}}
		}
	}
	ctx, cancel := context.WithCancel(context.Background())
	wg := &sync.WaitGroup{}
	wg.Add(1)
	go h.sendMessageloop(ctx, conn, make(chan fsmStateReason, 3), wg)
	vEventually(func() bool {
		conn.mu.Lock()
		defer conn.mu.Unlock()
		return atomic.LoadUint64(&f.counterStats.Sent.Discarded) >= 1 && len(conn.out) > 0 && f.outgoingCh.Len() == 0
	})
	vSettle()
	cancel()
	conn.mu.Lock()
	b := append([]byte(nil), conn.out...)
	conn.mu.Unlock()
	got := map[string]uint32{}
	for len(b) >= 19 {
		l := int(b[16])<<8 | int(b[17])
		vAssert(l >= 19 && l <= len(b) && l <= 4096, "a message written to the session is mis-framed or exceeds 4096 octets")
		if l < 19 || l > len(b) {
			return
		}
		m, err := bgp.ParseBGPMessage(b[:l])
		vAssert(err == nil, "a message written to the session does not parse")
		if err != nil {
			return
		}
		if u, ok := m.Body.(*bgp.BGPUpdate); ok {
			var med uint32
			for _, a := range u.PathAttributes {
				if x, ok := a.(*bgp.PathAttributeMultiExitDisc); ok {
					med = x.Value
				}
			}
			for _, n := range u.NLRI {
				got[n.NLRI.String()] = med
			}
		}
		b = b[l:]
	}
	_, sentBig := got["10.2.0.0/16"]
	vAssert(!sentBig, "a route whose UPDATE exceeds the session's message size was sent")
	v1, ok1 := got["10.1.0.0/16"]
	v3, ok3 := got["10.3.0.0/16"]
	vAssert(ok1 && v1 == m1 && ok3 && v3 == m3, "a route queued next to one that is too large to be sent did not reach the peer (the sender stopped, or dropped more than the oversized route)")
	vAssert(atomic.LoadUint64(&f.counterStats.Sent.Discarded) == 1, "the skipped route is not counted exactly once as discarded")
	vReach("end")
}
