package mrt

import (
	"net/netip"

	"github.com/osrg/gobgp/v4/pkg/packet/bgp"
)

// C19 (MRT): decoders return a value or an error without panicking or reading past the data; the
// stream splitter never returns a token longer than the data it was given.

func VH_c19_mrt_header() {
	buf := vBytes("hdr", vParam("n"), 8)
	h, err := ParseHeader(buf)
	if err == nil {
		vAssert(h != nil, "ParseHeader returned neither a value nor an error")
		vReach("ok")
	}
	vReach("end")
}

// the splitter is handed len(data) valid bytes inside a larger buffer (what bufio.Scanner does)
func VH_c19_mrt_split() {
	buf := vBytes("data", vParam("n"), 8)
	adv, tok, err := SplitMrt(buf, vBool("eof"))
	if err == nil {
		vAssert(adv >= 0 && adv <= len(buf), "splitter advances past the data it was given")
		vAssert(len(tok) <= len(buf) && len(tok) == adv, "splitter returned a token longer than the data")
		if tok != nil {
			vAssert(adv >= MRT_COMMON_HEADER_LEN, "splitter returned a token shorter than a record header")
			vReach("token")
		}
	}
	vReach("end")
}

var c19tdSubtypes = []MRTSubTypeTableDumpv2{PEER_INDEX_TABLE, RIB_IPV4_UNICAST, RIB_IPV6_UNICAST, RIB_GENERIC, GEO_PEER_TABLE, RIB_IPV4_UNICAST_ADDPATH, RIB_IPV6_MULTICAST_ADDPATH, RIB_GENERIC_ADDPATH}

func VH_c19_mrt_body_tabledump() {
	st := c19tdSubtypes[vChoice("subtype", len(c19tdSubtypes))]
	h := &MRTHeader{Type: TABLE_DUMPv2, SubType: uint16(st), Len: vU32("hlen")}
	buf := vBytes("body", vParam("n"), 8)
	m, err := ParseBody(buf, h)
	if err == nil {
		vAssert(m != nil && m.Body != nil, "ParseBody returned neither a value nor an error")
		vReach("ok")
	}
	vReach("end")
}

var c19mpSubtypes = []MRTSubTypeBGP4MP{STATE_CHANGE, STATE_CHANGE_AS4, MESSAGE, MESSAGE_AS4, MESSAGE_AS4_LOCAL, MESSAGE_AS4_ADDPATH, MESSAGE_LOCAL_ADDPATH}

func VH_c19_mrt_body_bgp4mp() {
	st := c19mpSubtypes[vChoice("subtype", len(c19mpSubtypes))]
	h := &MRTHeader{Type: BGP4MP, SubType: uint16(st), Len: vU32("hlen")}
	buf := vBytes("body", vParam("n"), 8)
	m, err := ParseBody(buf, h)
	if err == nil {
		vAssert(m != nil && m.Body != nil, "ParseBody returned neither a value nor an error")
		vReach("ok")
	}
	vReach("end")
}

func c19eq(a, b []byte) bool {
	if len(a) != len(b) {
		return false
	}
	for i := range a {
		if a[i] != b[i] {
			return false
		}
	}
	return true
}

// constructed records parse back to the same record
func VH_c19_mrt_roundtrip() {
	id := netip.AddrFrom4([4]byte{10, 0, vU8("id"), 1})
	var body Body
	var st MRTSubTyper
	typ := TABLE_DUMPv2
	var wantPrefix []byte
	switch vChoice("kind", 4) {
	case 0: // peer index table, one IPv4 peer, AS2 or AS4
		as := vU32("as")
		as4 := vBool("as4")
		if !as4 {
			vAssume(as <= 65535)
		}
		body = NewPeerIndexTable(id, "v", []*Peer{NewPeer(id, netip.AddrFrom4([4]byte{192, 0, 2, vU8("p")}), as, as4)})
		st = PEER_INDEX_TABLE
	case 1: // peer index table, one IPv6 peer
		body = NewPeerIndexTable(id, "", []*Peer{NewPeer(id, netip.AddrFrom16([16]byte{0x20, 0x01, 15: vU8("p")}), vU32("as"), true)})
		st = PEER_INDEX_TABLE
	case 2: // IPv4 unicast RIB with one entry, with and without ADD-PATH
		addpath := vBool("addpath")
		// every RIB subtype: the four AFI/SAFI-specific ones and RIB_GENERIC (here a VPNv4 route),
		// the subtype chosen for the family as the daemon's table dump does
		var nlri bgp.NLRI
		fam := bgp.RF_IPv4_UC
		st = RIB_IPV4_UNICAST
		switch vChoice("rib_family", 5) {
		case 0:
			nlri, _ = bgp.NewIPAddrPrefix(netip.PrefixFrom(netip.AddrFrom4([4]byte{10, vU8("n"), 0, 0}), 16))
		case 1:
			fam, st = bgp.RF_IPv4_MC, RIB_IPV4_MULTICAST
			nlri, _ = bgp.NewIPAddrPrefix(netip.PrefixFrom(netip.AddrFrom4([4]byte{10, vU8("n"), 0, 0}), 16))
		case 2:
			fam, st = bgp.RF_IPv6_UC, RIB_IPV6_UNICAST
			nlri, _ = bgp.NewIPAddrPrefix(netip.PrefixFrom(netip.AddrFrom16([16]byte{0x20, 0x01, vU8("n")}), 32))
		case 3:
			fam, st = bgp.RF_IPv6_MC, RIB_IPV6_MULTICAST
			nlri, _ = bgp.NewIPAddrPrefix(netip.PrefixFrom(netip.AddrFrom16([16]byte{0x20, 0x01, vU8("n")}), 32))
		default:
			fam, st = bgp.RF_IPv4_VPN, RIB_GENERIC
			nlri, _ = bgp.NewLabeledVPNIPAddrPrefix(netip.PrefixFrom(netip.AddrFrom4([4]byte{10, vU8("n"), 0, 0}), 16), *bgp.NewMPLSLabelStack(100), bgp.NewRouteDistinguisherTwoOctetAS(65000, 1))
			vReach("generic")
		}
		e := NewRibEntry(vU16("peer"), vU32("time"), vU32("pathid"), []bgp.PathAttributeInterface{bgp.NewPathAttributeOrigin(vU8("org") % 3), bgp.NewPathAttributeMultiExitDisc(vU32("med"))}, addpath)
		body = NewRib(vU32("seq"), fam, nlri, []*RibEntry{e})
		if addpath {
			st = st.(MRTSubTypeTableDumpv2) + 6
		}
		wantPrefix, _ = nlri.Serialize()
	default: // BGP4MP state change
		typ = BGP4MP
		as4 := vBool("as4")
		pa, la := vU32("peeras"), vU32("localas")
		if !as4 {
			vAssume(pa <= 65535 && la <= 65535)
		}
		b, err := NewBGP4MPStateChange(pa, la, vU16("ifidx"), netip.AddrFrom4([4]byte{192, 0, 2, vU8("p")}), netip.AddrFrom4([4]byte{192, 0, 2, 1}), as4, BGPState(vU16("old")%7), BGPState(vU16("new")%7))
		vAssert(err == nil, "state change rejected by the constructor")
		body = b
		st = STATE_CHANGE
		if as4 {
			st = STATE_CHANGE_AS4
		}
	}
	hdr := &MRTHeader{Timestamp: vU32("ts"), Type: typ, SubType: st.ToUint16()}
	m := &MRTMessage{Header: *hdr, Body: body}
	b, err := m.Serialize()
	vAssert(err == nil, "constructed record cannot be serialised")
	h2, err := ParseHeader(b)
	vAssert(err == nil && int(h2.Len) == len(b)-MRT_COMMON_HEADER_LEN && h2.Type == typ && h2.SubType == st.ToUint16() && h2.Timestamp == hdr.Timestamp, "record header changed by the round trip")
	m2, err := ParseBody(b[MRT_COMMON_HEADER_LEN:], h2)
	vAssert(err == nil, "own record encoding rejected")
	if err != nil {
		return
	}
	if rib, ok := m2.Body.(*Rib); ok {
		gotPrefix, _ := rib.Prefix.Serialize()
		vAssert(c19eq(gotPrefix, wantPrefix) && len(rib.Entries) == 1, "a RIB record does not parse back to the same prefix and entries")
	}
	b2, err := m2.Serialize()
	vAssert(err == nil && c19eq(b, b2), "re-serialising the parsed record is not a fixpoint")
	adv, tok, err := SplitMrt(b, true)
	vAssert(err == nil && adv == len(b) && len(tok) == len(b), "splitter does not return the whole record")
	vReach("end")
}
