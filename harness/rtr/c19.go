package rtr

import "net/netip"

// C19 (RPKI-RTR): ParseRTR returns a value or an error for every byte string without panicking or
// reading past the data; every PDU the package can construct round-trips.

func VH_c19_rtr_nopanic() {
	buf := vBytes("pdu", vParam("n"), 8)
	m, err := ParseRTR(buf)
	if err == nil {
		vAssert(m != nil, "ParseRTR returned neither a value nor an error")
		vReach("ok")
	}
	vReach("end")
}

func c19eq(a, b []byte) bool {
	if len(a) != len(b) {
		return false
	}
	for i := range a {
		if a[i] != b[i] {
			return false
		}
	}
	return true
}

func c19rt(m RTRMessage) RTRMessage {
	b, err := m.Serialize()
	vAssert(err == nil, "constructed PDU cannot be serialised")
	vAssert(len(b) >= 8 && int(b[4])<<24|int(b[5])<<16|int(b[6])<<8|int(b[7]) == len(b), "PDU length field differs from the bytes emitted")
	got, err := ParseRTR(b)
	vAssert(err == nil, "own PDU encoding rejected")
	b2, err := got.Serialize()
	vAssert(err == nil && c19eq(b, b2), "re-serialising the parsed PDU is not a fixpoint")
	return got
}

func VH_c19_rtr_roundtrip() {
	id, sn := vU16("id"), vU32("sn")
	switch vChoice("pdu", 8) {
	case 0:
		g := c19rt(NewRTRSerialNotify(id, sn)).(*RTRSerialNotify)
		vAssert(g.SessionID == id && g.SerialNumber == sn, "serial notify changed")
	case 1:
		g := c19rt(NewRTRSerialQuery(id, sn)).(*RTRSerialQuery)
		vAssert(g.SessionID == id && g.SerialNumber == sn, "serial query changed")
	case 2:
		_ = c19rt(NewRTRResetQuery()).(*RTRResetQuery)
		_ = c19rt(NewRTRCacheReset()).(*RTRCacheReset)
	case 3:
		g := c19rt(NewRTRCacheResponse(id)).(*RTRCacheResponse)
		vAssert(g.SessionID == id, "cache response changed")
	case 4:
		g := c19rt(NewRTREndOfData(id, sn)).(*RTREndOfData)
		vAssert(g.SessionID == id && g.SerialNumber == sn, "end of data changed")
	case 5:
		pl, ml := vU8("plen"), vU8("mlen")
		vAssume(pl <= ml && ml <= 32)
		a := netip.AddrFrom4([4]byte{vU8("a"), vU8("a"), vU8("a"), vU8("a")})
		p := NewRTRIPPrefix(a, pl, ml, vU32("as"), vU8("flags"))
		vAssert(p != nil, "valid IPv4 ROA rejected by the constructor")
		g := c19rt(p).(*RTRIPPrefix)
		vAssert(g.Prefix == a && g.PrefixLen == pl && g.MaxLen == ml && g.AS == p.AS && g.Flags == p.Flags, "IPv4 prefix PDU changed")
	case 6:
		pl, ml := vU8("plen"), vU8("mlen")
		vAssume(pl <= ml && ml <= 128)
		a := netip.AddrFrom16([16]byte{0x20, 0x01, vU8("a"), vU8("a"), 15: vU8("a")})
		p := NewRTRIPPrefix(a, pl, ml, vU32("as"), vU8("flags"))
		vAssert(p != nil, "valid IPv6 ROA rejected by the constructor")
		g := c19rt(p).(*RTRIPPrefix)
		vAssert(g.Prefix == a && g.PrefixLen == pl && g.MaxLen == ml && g.AS == p.AS, "IPv6 prefix PDU changed")
	default:
		pdu := []byte{0, 2, vU8("p"), vU8("p")}
		txt := []byte{vU8("t"), vU8("t"), vU8("t")}
		e := NewRTRErrorReport(vU16("code"), pdu[:vInt("np", 2, 4)], txt[:vInt("nt", 0, 3)])
		vAssert(e != nil, "error report rejected by the constructor")
		g := c19rt(e).(*RTRErrorReport)
		vAssert(g.ErrorCode == e.ErrorCode && c19eq(g.PDU, e.PDU) && c19eq(g.Text, e.Text), "error report changed")
	}
	vReach("end")
}
