package bmp

import (
	"net/netip"

	"github.com/osrg/gobgp/v4/pkg/packet/bgp"
)

// C19 (BMP): every byte string decodes to a value or an error without an escaping panic or a read
// past the data; the splitter stays inside the data; constructed messages round-trip.

func c19bmpType(typ uint8, n int) {
	buf := vBytes("msg", n, 8)
	vAssume(len(buf) >= 6)
	vAssume(buf[0] == BMP_VERSION && buf[5] == typ)
	m, err := ParseBMPMessage(buf)
	if err == nil {
		vAssert(m != nil && m.Body != nil, "ParseBMPMessage returned neither a value nor an error")
		vReach("ok")
	}
	vReach("end")
}

func VH_c19_bmp_initiation()  { c19bmpType(BMP_MSG_INITIATION, 6+vParam("n")) }
func VH_c19_bmp_termination() { c19bmpType(BMP_MSG_TERMINATION, 6+vParam("n")) }
func VH_c19_bmp_stats()       { c19bmpType(BMP_MSG_STATISTICS_REPORT, 6+42+vParam("n")) }
func VH_c19_bmp_peerdown()    { c19bmpType(BMP_MSG_PEER_DOWN_NOTIFICATION, 6+42+vParam("n")) }
func VH_c19_bmp_mirroring()   { c19bmpType(BMP_MSG_ROUTE_MIRRORING, 6+42+vParam("n")) }
func VH_c19_bmp_peerup()      { c19bmpType(BMP_MSG_PEER_UP_NOTIFICATION, 6+42+vParam("n")) }
func VH_c19_bmp_monitoring()  { c19bmpType(BMP_MSG_ROUTE_MONITORING, 6+42+vParam("n")) }

func VH_c19_bmp_anytype() {
	buf := vBytes("msg", vParam("n"), 8)
	m, err := ParseBMPMessage(buf)
	if err == nil {
		vAssert(m != nil, "ParseBMPMessage returned neither a value nor an error")
	}
	vReach("end")
}

// the body parsers are also exported and are not protected by the recover in ParseBMPMessage
func VH_c19_bmp_bodies_direct() {
	buf := vBytes("body", vParam("n"), 8)
	msg := &BMPMessage{}
	switch vChoice("body", 5) {
	case 0:
		_ = (&BMPInitiation{}).ParseBody(msg, buf)
	case 1:
		_ = (&BMPTermination{}).ParseBody(msg, buf)
	case 2:
		_ = (&BMPStatisticsReport{}).ParseBody(msg, buf)
	case 3:
		_ = (&BMPPeerDownNotification{}).ParseBody(msg, buf)
	default:
		_ = (&BMPRouteMirroring{}).ParseBody(msg, buf)
	}
	vReach("end")
}

func VH_c19_bmp_split() {
	buf := vBytes("data", vParam("n"), 8)
	adv, tok, err := SplitBMP(buf, vBool("eof"))
	if err != nil {
		vAssert(adv == 0 && tok == nil, "splitter returned a token together with an error")
		vReach("end")
		return
	}
	vAssert(adv >= 0 && adv <= len(buf) && len(tok) == adv, "splitter returned a token longer than the data it was given")
	if tok != nil {
		vAssert(adv >= BMP_HEADER_SIZE, "splitter returned a token shorter than a message header")
		vReach("token")
	}
	vReach("end")
}

func c19eq(a, b []byte) bool {
	if len(a) != len(b) {
		return false
	}
	for i := range a {
		if a[i] != b[i] {
			return false
		}
	}
	return true
}

func c19bmpRT(m *BMPMessage) *BMPMessage {
	b, err := m.Serialize()
	vAssert(err == nil, "constructed message cannot be serialised")
	vAssert(len(b) >= 6 && int(b[1])<<24|int(b[2])<<16|int(b[3])<<8|int(b[4]) == len(b), "BMP length field differs from the bytes emitted")
	adv, tok, err := SplitBMP(b, true)
	vAssert(err == nil && adv == len(b) && len(tok) == len(b), "splitter does not return the whole message")
	got, err := ParseBMPMessage(b)
	vAssert(err == nil, "own message encoding rejected")
	got.Header.Length = 0
	b2, err := got.Serialize()
	vAssert(err == nil && c19eq(b, b2), "re-serialising the parsed message is not a fixpoint")
	return got
}

func c19peerHeader() BMPPeerHeader {
	flags := vU8("flags") & (BMP_PEER_FLAG_POST_POLICY | BMP_PEER_FLAG_TWO_AS | BMP_PEER_FLAG_ADJ_RIB_TYP)
	return *NewBMPPeerHeader(vU8("ptype")%3, flags, vU64("dist"), netip.AddrFrom4([4]byte{10, 0, vU8("pa"), 1}), vU32("pas"), netip.AddrFrom4([4]byte{10, 0, 0, vU8("pid")}), 0)
}

var c19strs = []string{"", "a", "gobgp"}

func VH_c19_bmp_roundtrip() {
	switch vChoice("kind", 6) {
	case 0: // initiation: sysName / sysDescr / free string, values incl. the empty string in any position
		m := NewBMPInitiation([]BMPInfoTLVInterface{
			NewBMPInfoTLVString(BMP_INIT_TLV_TYPE_SYS_NAME, c19strs[vChoice("s", 3)]),
			NewBMPInfoTLVString(BMP_INIT_TLV_TYPE_SYS_DESCR, c19strs[vChoice("s", 3)]),
		})
		g := c19bmpRT(m).Body.(*BMPInitiation)
		vAssert(len(g.Info) == 2, "initiation lost or gained an information TLV")
	case 1:
		m := NewBMPTermination([]BMPTermTLVInterface{NewBMPTermTLV16(BMP_TERM_TLV_TYPE_REASON, vU16("reason")), NewBMPTermTLVString(BMP_TERM_TLV_TYPE_STRING, c19strs[vChoice("s", 3)])})
		g := c19bmpRT(m).Body.(*BMPTermination)
		vAssert(len(g.Info) == 2, "termination lost or gained a TLV")
	case 2:
		// every statistics type of RFC 7854 / RFC 8671, each in the counter format the RFC gives it
		t32 := []uint16{BMP_STAT_TYPE_REJECTED, BMP_STAT_TYPE_DUPLICATE_PREFIX, BMP_STAT_TYPE_DUPLICATE_WITHDRAW, BMP_STAT_TYPE_INV_UPDATE_DUE_TO_CLUSTER_LIST_LOOP,
			BMP_STAT_TYPE_INV_UPDATE_DUE_TO_AS_PATH_LOOP, BMP_STAT_TYPE_INV_UPDATE_DUE_TO_ORIGINATOR_ID, BMP_STAT_TYPE_INV_UPDATE_DUE_TO_AS_CONFED_LOOP,
			BMP_STAT_TYPE_WITHDRAW_UPDATE, BMP_STAT_TYPE_WITHDRAW_PREFIX, BMP_STAT_TYPE_DUPLICATE_UPDATE}
		t64 := []uint16{BMP_STAT_TYPE_ADJ_RIB_IN, BMP_STAT_TYPE_LOC_RIB, BMP_STAT_TYPE_ADJ_RIB_OUT_PRE_POLICY, BMP_STAT_TYPE_ADJ_RIB_OUT_POST_POLICY}
		tAfi := []uint16{BMP_STAT_TYPE_PER_AFI_SAFI_ADJ_RIB_IN, BMP_STAT_TYPE_PER_AFI_SAFI_LOC_RIB, BMP_STAT_TYPE_PER_AFI_SAFI_ADJ_RIB_OUT_PRE_POLICY, BMP_STAT_TYPE_PER_AFI_SAFI_ADJ_RIB_OUT_POST_POLICY}
		m := NewBMPStatisticsReport(c19peerHeader(), []BMPStatsTLVInterface{NewBMPStatsTLV32(t32[vChoice("stat32", len(t32))], vU32("v32")), NewBMPStatsTLV64(t64[vChoice("stat64", len(t64))], vU64("v64")), NewBMPStatsTLVPerAfiSafi64(tAfi[vChoice("stat_afi", len(tAfi))], vU16("afi"), vU8("safi"), vU64("v"))})
		g := c19bmpRT(m).Body.(*BMPStatisticsReport)
		vAssert(len(g.Stats) == 3, "statistics report lost or gained a counter")
	case 3: // peer down, reasons without an embedded message and with TLVs (RFC 9069)
		ph := c19peerHeader()
		var m *BMPMessage
		switch vChoice("reason", 3) {
		case 0:
			m = NewBMPPeerDownNotification(ph, BMP_PEER_DOWN_REASON_LOCAL_NO_NOTIFICATION, nil, []byte{vU8("d"), vU8("d")})
		case 1:
			m = NewBMPPeerDownNotification(ph, BMP_PEER_DOWN_REASON_REMOTE_NO_NOTIFICATION, nil, nil)
		default:
			m = NewBMPPeerDownNotification(ph, BMP_PEER_DOWN_REASON_TLV_FOLLOWS, nil, nil, NewBMPInfoTLVString(BMP_INIT_TLV_TYPE_VRF_TABLE_NAME, c19strs[vChoice("s", 3)]))
			g := c19bmpRT(m).Body.(*BMPPeerDownNotification)
			vAssert(len(g.Info) == 1, "peer down lost its information TLV")
			vReach("end")
			return
		}
		_ = c19bmpRT(m)
	case 4: // peer down with an embedded NOTIFICATION
		n := bgp.NewBGPNotificationMessage(vU8("code"), vU8("sub"), nil)
		m := NewBMPPeerDownNotification(c19peerHeader(), BMP_PEER_DOWN_REASON_REMOTE_BGP_NOTIFICATION, n, nil)
		g := c19bmpRT(m).Body.(*BMPPeerDownNotification)
		vAssert(g.BGPNotification != nil && g.BGPNotification.Body.(*bgp.BGPNotification).ErrorCode == n.Body.(*bgp.BGPNotification).ErrorCode, "embedded NOTIFICATION changed")
	default:
		m := NewBMPRouteMirroring(c19peerHeader(), []BMPRouteMirrTLVInterface{NewBMPRouteMirrTLV16(BMP_ROUTE_MIRRORING_TLV_TYPE_INFO, vU16("info"))})
		g := c19bmpRT(m).Body.(*BMPRouteMirroring)
		vAssert(len(g.Info) == 1, "route mirroring lost its TLV")
	}
	vReach("end")
}

// The parser's own recover() hides a fault on the guard page, so "no read past the data" is also
// stated as a property that replays natively: two buffers holding the same message bytes but
// different stale bytes in their spare capacity must parse to the same result.
func VH_c19_bmp_noninterference() {
	buf := vBytes("msg", 6+vParam("n"), 0)
	vAssume(len(buf) >= 6 && buf[0] == BMP_VERSION)
	vAssume(buf[5] == BMP_MSG_INITIATION || buf[5] == BMP_MSG_TERMINATION)
	a := make([]byte, len(buf), len(buf)+8)
	b := make([]byte, len(buf), len(buf)+8)
	copy(a, buf)
	copy(b, buf)
	ta, tb := a[len(buf):cap(a)], b[len(buf):cap(b)]
	for i := range ta {
		ta[i], tb[i] = 0x00, 0xff
	}
	ma, ea := ParseBMPMessage(a)
	mb, eb := ParseBMPMessage(b)
	vAssert((ea == nil) == (eb == nil), "the parse outcome depends on stale bytes beyond the message")
	if ea == nil && eb == nil {
		ma.Header.Length, mb.Header.Length = 0, 0
		sa, _ := ma.Serialize()
		sb, _ := mb.Serialize()
		vAssert(c19eq(sa, sb), "the parsed message depends on stale bytes beyond the message")
	}
	vReach("end")
}
