package bgp

import (
	"net/netip"
)

// C04: encode and decode are mutually inverse and agree on framing.

func c04eqBytes(a, b []byte) bool {
	if len(a) != len(b) {
		return false
	}
	for i := range a {
		if a[i] != b[i] {
			return false
		}
	}
	return true
}

// c04attrRoundTrip: Len() == bytes emitted == bytes the decoder consumes, the decoded attribute
// re-serialises to the same bytes and reports the same Len().
func c04attrRoundTrip(a PathAttributeInterface, opt *MarshallingOption) PathAttributeInterface {
	b, err := a.Serialize(opt)
	vAssert(err == nil, "constructed attribute cannot be serialised")
	vAssert(a.Len(opt) == len(b), "attribute Len() differs from the bytes it emits")
	// the header is well-formed under RFC 4271 4.3: flags, type, 1- or 2-octet length covering the rest
	vAssert(len(b) >= 3, "attribute shorter than its header")
	if b[0]&0x10 != 0 {
		vAssert(len(b) >= 4 && int(b[2])<<8|int(b[3]) == len(b)-4, "extended-length field does not cover the value")
	} else {
		vAssert(int(b[2]) == len(b)-3, "length field does not cover the value")
	}
	vAssert(BGPAttrType(b[1]) == a.GetType(), "type octet differs from GetType()")
	d, err := GetPathAttribute(b)
	vAssert(err == nil, "own encoding: no decoder for the attribute type")
	err = d.DecodeFromBytes(b, opt)
	vAssert(err == nil, "own encoding rejected by the decoder")
	vAssert(d.Len(opt) == len(b), "decoder consumed a different number of bytes than were emitted")
	b2, err := d.Serialize(opt)
	vAssert(err == nil && c04eqBytes(b, b2), "re-serialising the parsed attribute is not a fixpoint")
	vAssert(d.GetType() == a.GetType() && d.GetFlags() == BGPAttrFlag(b[0]), "parsed type/flags differ")
	return d
}

func VH_c04_attr_origin() {
	v := vU8("v")
	d := c04attrRoundTrip(NewPathAttributeOrigin(v), &MarshallingOption{}).(*PathAttributeOrigin)
	vAssert(d.Value == v, "ORIGIN changed")
	vReach("end")
}

func VH_c04_attr_med_lp() {
	med, lp := vU32("med"), vU32("lp")
	m := c04attrRoundTrip(NewPathAttributeMultiExitDisc(med), &MarshallingOption{}).(*PathAttributeMultiExitDisc)
	l := c04attrRoundTrip(NewPathAttributeLocalPref(lp), &MarshallingOption{}).(*PathAttributeLocalPref)
	_ = c04attrRoundTrip(NewPathAttributeAtomicAggregate(), &MarshallingOption{})
	vAssert(m.Value == med && l.Value == lp, "MED / LOCAL_PREF value changed")
	vReach("end")
}

func VH_c04_attr_nexthop_ids() {
	a4 := netip.AddrFrom4([4]byte{vU8("a"), vU8("a"), vU8("a"), vU8("a")})
	nh, err := NewPathAttributeNextHop(a4)
	vAssert(err == nil, "v4 next hop rejected")
	d := c04attrRoundTrip(nh, &MarshallingOption{}).(*PathAttributeNextHop)
	vAssert(d.Value == a4, "NEXT_HOP changed")
	oid, _ := NewPathAttributeOriginatorId(a4)
	d2 := c04attrRoundTrip(oid, &MarshallingOption{}).(*PathAttributeOriginatorId)
	vAssert(d2.Value == a4, "ORIGINATOR_ID changed")
	cl, _ := NewPathAttributeClusterList([]netip.Addr{a4, netip.AddrFrom4([4]byte{1, 2, 3, vU8("b")})})
	d3 := c04attrRoundTrip(cl, &MarshallingOption{}).(*PathAttributeClusterList)
	vAssert(len(d3.Value) == 2 && d3.Value[0] == a4, "CLUSTER_LIST changed")
	vReach("end")
}

func VH_c04_attr_aspath() {
	as2 := vBool("as2")
	opt := &MarshallingOption{Use2ByteAS: as2}
	n := 1 + vChoice("n", 3)
	var params []AsPathParamInterface
	t1, t2 := vU8("t"), vU8("t")
	vAssume(t1 >= 1 && t1 <= 4 && t2 >= 1 && t2 <= 4)
	if as2 {
		as := []uint16{vU16("as"), vU16("as"), vU16("as")}
		params = []AsPathParamInterface{NewAsPathParam(t1, as[:n]), NewAsPathParam(t2, []uint16{vU16("bs")})}
	} else {
		as := []uint32{vU32("as"), vU32("as"), vU32("as")}
		params = []AsPathParamInterface{NewAs4PathParam(t1, as[:n]), NewAs4PathParam(t2, []uint32{vU32("bs")})}
	}
	d := c04attrRoundTrip(NewPathAttributeAsPath(params), opt).(*PathAttributeAsPath)
	vAssert(len(d.Value) == 2 && d.Value[0].GetType() == t1 && len(d.Value[0].GetAS()) == n && d.Value[1].GetType() == t2, "AS_PATH segments changed")
	for i := 0; i < n; i++ {
		vAssert(d.Value[0].GetAS()[i] == params[0].GetAS()[i], "AS_PATH member changed")
	}
	// AS4_PATH is always 4-octet
	a4 := c04attrRoundTrip(NewPathAttributeAs4Path([]*As4PathParam{NewAs4PathParam(t1&1+1, []uint32{vU32("cs"), vU32("cs")})}), opt).(*PathAttributeAs4Path)
	vAssert(len(a4.Value) == 1 && len(a4.Value[0].AS) == 2, "AS4_PATH changed")
	vReach("end")
}

func VH_c04_attr_aggregator() {
	addr := netip.AddrFrom4([4]byte{10, vU8("a"), 0, 1})
	a2, err := NewPathAttributeAggregator(vU16("as2"), addr)
	vAssert(err == nil, "aggregator rejected")
	d := c04attrRoundTrip(a2, &MarshallingOption{Use2ByteAS: true}).(*PathAttributeAggregator)
	vAssert(d.Value.AS == uint32(a2.Value.AS) && d.Value.Address == addr, "2-octet AGGREGATOR changed")
	a4, _ := NewPathAttributeAggregator(vU32("as4"), addr)
	d4 := c04attrRoundTrip(a4, &MarshallingOption{}).(*PathAttributeAggregator)
	vAssert(d4.Value.AS == a4.Value.AS && d4.Value.Address == addr, "4-octet AGGREGATOR changed")
	g, _ := NewPathAttributeAs4Aggregator(vU32("as4b"), addr)
	dg := c04attrRoundTrip(g, &MarshallingOption{}).(*PathAttributeAs4Aggregator)
	vAssert(dg.Value.AS == g.Value.AS && dg.Value.Address == addr, "AS4_AGGREGATOR changed")
	vReach("end")
}

func VH_c04_attr_communities() {
	n := vInt("n", 1, 3)
	cs := []uint32{vU32("c"), vU32("c"), vU32("c")}
	d := c04attrRoundTrip(NewPathAttributeCommunities(cs[:n]), &MarshallingOption{}).(*PathAttributeCommunities)
	vAssert(len(d.Value) == n, "COMMUNITIES count changed")
	for i := 0; i < n; i++ {
		vAssert(d.Value[i] == cs[i], "community changed")
	}
	ls := []*LargeCommunity{NewLargeCommunity(vU32("l"), vU32("l"), vU32("l")), NewLargeCommunity(vU32("l"), vU32("l"), vU32("l"))}
	m := vInt("m", 1, 2)
	dl := c04attrRoundTrip(NewPathAttributeLargeCommunities(ls[:m]), &MarshallingOption{}).(*PathAttributeLargeCommunities)
	vAssert(len(dl.Values) == m && *dl.Values[0] == *ls[0], "LARGE_COMMUNITY changed")
	vReach("end")
}

func VH_c04_attr_extcomm() {
	var ecs []ExtendedCommunityInterface
	switch vChoice("kind", 4) {
	case 0:
		// sub-type 4 of the two-octet-AS type is the link-bandwidth community, which has its own
		// constructor and a float payload; it is not generated through the generic constructor
		st := ExtendedCommunityAttrSubType(vU8("st"))
		vAssume(st != EC_SUBTYPE_LINK_BANDWIDTH)
		ecs = append(ecs, NewTwoOctetAsSpecificExtended(st, vU16("as"), vU32("la"), vBool("tr")))
	case 1:
		ecs = append(ecs, NewFourOctetAsSpecificExtended(ExtendedCommunityAttrSubType(vU8("st")), vU32("as"), vU16("la"), vBool("tr")))
	case 2:
		e, _ := NewIPv4AddressSpecificExtended(ExtendedCommunityAttrSubType(vU8("st")), netip.AddrFrom4([4]byte{10, vU8("a"), 0, 1}), vU16("la"), vBool("tr"))
		ecs = append(ecs, e)
	default:
		// opaque community; the registered sub-types (color, encapsulation, default gateway, origin
		// validation) have their own constructors and normalise reserved octets
		tr, st := vBool("tr"), vU8("o")
		vAssume(st != uint8(EC_SUBTYPE_COLOR) && st != uint8(EC_SUBTYPE_ENCAPSULATION) && st != uint8(EC_SUBTYPE_DEFAULT_GATEWAY) && st != uint8(EC_SUBTYPE_ORIGIN_VALIDATION))
		ecs = append(ecs, NewOpaqueExtended(tr, []byte{st, vU8("o"), vU8("o"), vU8("o"), vU8("o"), vU8("o"), vU8("o")}))
	}
	ecs = append(ecs, NewTwoOctetAsSpecificExtended(EC_SUBTYPE_ROUTE_TARGET, vU16("as2"), vU32("la2"), true))
	d := c04attrRoundTrip(NewPathAttributeExtendedCommunities(ecs), &MarshallingOption{}).(*PathAttributeExtendedCommunities)
	vAssert(len(d.Value) == 2, "EXTENDED_COMMUNITIES count changed")
	vReach("end")
}

// unknown attribute with a value of symbolic length around the extended-length threshold
func VH_c04_attr_unknown() {
	val := vBytes("val", vParam("max"), 0)
	vAssume(len(val) >= vParam("min"))
	// optional transitive, partial bit free; the extended-length flag is derived from the length
	flags := BGP_ATTR_FLAG_OPTIONAL | BGP_ATTR_FLAG_TRANSITIVE | BGPAttrFlag(vU8("flags"))&BGP_ATTR_FLAG_PARTIAL
	a := NewPathAttributeUnknown(flags, BGPAttrType(200+vU8("t")%50), val)
	d := c04attrRoundTrip(a, &MarshallingOption{}).(*PathAttributeUnknown)
	vAssert(len(d.Value) == len(val), "unknown attribute value length changed")
	vReach("end")
}

// ---- NLRI ----

func c04prefix4(name string) netip.Prefix {
	bits := vInt(name+"_bits", 0, 32)
	a := netip.AddrFrom4([4]byte{vU8(name), vU8(name), vU8(name), vU8(name)})
	p, err := a.Prefix(bits)
	vAssert(err == nil, "prefix construction failed")
	return p
}

// c04prefix4c: prefix with a length chosen from the byte-boundary cases (concrete per path) and
// symbolic address bits; used inside composite messages where a symbolic byte length would make
// every later offset symbolic. The single-NLRI harnesses cover every bit length.
func c04prefix4c(name string) netip.Prefix {
	bits := []int{0, 1, 8, 9, 24, 32}[vChoice(name+"_bits", 6)]
	a := netip.AddrFrom4([4]byte{vU8(name), vU8(name), vU8(name), vU8(name)})
	p, err := a.Prefix(bits)
	vAssert(err == nil, "prefix construction failed")
	return p
}

func VH_c04_nlri_ipv4() {
	p := c04prefix4("p")
	n, err := NewIPAddrPrefix(p)
	vAssert(err == nil, "valid prefix rejected")
	b, err := n.Serialize()
	vAssert(err == nil && n.Len() == len(b) && len(b) == 1+(p.Bits()+7)/8, "NLRI Len() differs from the bytes emitted")
	d := &IPAddrPrefix{}
	vAssert(d.decodeFromBytes(b, 4) == nil, "own NLRI encoding rejected")
	vAssert(d.Prefix == p && d.Len() == len(b), "IPv4 prefix changed by the round trip")
	vReach("end")
}

func VH_c04_nlri_ipv6() {
	bits := vInt("bits", 0, 128)
	var raw [16]byte
	for i := 0; i < 4; i++ { // first and last two octets symbolic
		raw[[]int{0, 1, 14, 15}[i]] = vU8("b")
	}
	raw[7] = vU8("mid")
	p, err := netip.AddrFrom16(raw).Prefix(bits)
	vAssert(err == nil, "prefix construction failed")
	n, err := NewIPAddrPrefix(p)
	vAssert(err == nil, "valid prefix rejected")
	b, _ := n.Serialize()
	vAssert(n.Len() == len(b) && len(b) == 1+(bits+7)/8, "NLRI Len() differs from the bytes emitted")
	d := &IPAddrPrefix{}
	vAssert(d.decodeFromBytes(b, 16) == nil, "own NLRI encoding rejected")
	vAssert(d.Prefix == p, "IPv6 prefix changed by the round trip")
	vReach("end")
}

func VH_c04_nlri_labeled_vpn() {
	p := c04prefix4("p")
	label := vU32("label") & 0xfffff
	ls := *NewMPLSLabelStack(label)
	ln, err := NewLabeledIPAddrPrefix(p, ls)
	vAssert(err == nil, "labelled prefix rejected")
	b, err := ln.Serialize()
	vAssert(err == nil && ln.Len() == len(b), "labelled NLRI Len() differs from the bytes emitted")
	dl := &LabeledIPAddrPrefix{}
	vAssert(dl.decodeFromBytes(b, 4) == nil, "own labelled NLRI encoding rejected")
	vAssert(dl.Prefix == p && len(dl.Labels.Labels) == 1 && dl.Labels.Labels[0] == label, "labelled prefix changed by the round trip")
	var rd RouteDistinguisherInterface
	switch vChoice("rd", 3) {
	case 0:
		rd = NewRouteDistinguisherTwoOctetAS(vU16("rda"), vU32("rdb"))
	case 1:
		rd, _ = NewRouteDistinguisherIPAddressAS(netip.AddrFrom4([4]byte{10, 0, vU8("rdi"), 1}), vU16("rda"))
	default:
		rd = NewRouteDistinguisherFourOctetAS(vU32("rdb"), vU16("rda"))
	}
	vn, err := NewLabeledVPNIPAddrPrefix(p, ls, rd)
	vAssert(err == nil, "VPN prefix rejected")
	vb, err := vn.Serialize()
	vAssert(err == nil && vn.Len() == len(vb), "VPN NLRI Len() differs from the bytes emitted")
	dv := &LabeledVPNIPAddrPrefix{}
	vAssert(dv.decodeFromBytes(vb, 4) == nil, "own VPN NLRI encoding rejected")
	vb2, _ := dv.Serialize()
	vAssert(dv.Prefix == p && c04eqBytes(vb, vb2), "VPN prefix changed by the round trip")
	vReach("end")
}

// ---- whole UPDATE under session options, with an independent reading of the RFC 4271/4760/7911 framing ----

// c04frame walks an UPDATE body with nothing but the RFC framing rules and returns false if the
// element boundaries do not add up.
func c04frame(b []byte, addpath bool) (ok bool, nwd, nattr, nnlri int) {
	if len(b) < 4 {
		return false, 0, 0, 0
	}
	wl := int(b[0])<<8 | int(b[1])
	if len(b) < 2+wl+2 {
		return false, 0, 0, 0
	}
	walk := func(s []byte) (int, bool) {
		n := 0
		for len(s) > 0 {
			if addpath {
				if len(s) < 4 {
					return n, false
				}
				s = s[4:]
			}
			if len(s) < 1 || s[0] > 32 {
				return n, false
			}
			l := 1 + (int(s[0])+7)/8
			if len(s) < l {
				return n, false
			}
			s = s[l:]
			n++
		}
		return n, true
	}
	nwd, ok = walk(b[2 : 2+wl])
	if !ok {
		return false, 0, 0, 0
	}
	rest := b[2+wl:]
	al := int(rest[0])<<8 | int(rest[1])
	if len(rest) < 2+al {
		return false, 0, 0, 0
	}
	as := rest[2 : 2+al]
	for len(as) > 0 {
		if len(as) < 3 {
			return false, 0, 0, 0
		}
		hl, vl := 3, int(as[2])
		if as[0]&0x10 != 0 {
			if len(as) < 4 {
				return false, 0, 0, 0
			}
			hl, vl = 4, int(as[2])<<8|int(as[3])
		}
		if len(as) < hl+vl {
			return false, 0, 0, 0
		}
		as = as[hl+vl:]
		nattr++
	}
	nnlri, ok = walk(rest[2+al:])
	return ok, nwd, nattr, nnlri
}

func VH_c04_update() {
	addpath := vBool("addpath")
	as2 := vBool("as2")
	tx, rx := &MarshallingOption{Use2ByteAS: as2}, &MarshallingOption{Use2ByteAS: as2}
	if addpath { // the same session: what one side sends with path ids the other side expects to receive
		tx.AddPath = map[Family]BGPAddPathMode{RF_IPv4_UC: BGP_ADD_PATH_SEND}
		rx.AddPath = map[Family]BGPAddPathMode{RF_IPv4_UC: BGP_ADD_PATH_RECEIVE}
	}
	w1, _ := NewIPAddrPrefix(c04prefix4c("w"))
	n1, _ := NewIPAddrPrefix(c04prefix4c("n"))
	n2, _ := NewIPAddrPrefix(netip.PrefixFrom(netip.AddrFrom4([4]byte{10, 9, 0, 0}), 16))
	nh, _ := NewPathAttributeNextHop(netip.AddrFrom4([4]byte{10, 0, 0, vU8("nh")}))
	var asp *PathAttributeAsPath
	if as2 {
		asp = NewPathAttributeAsPath([]AsPathParamInterface{NewAsPathParam(BGP_ASPATH_ATTR_TYPE_SEQ, []uint16{vU16("as")})})
	} else {
		asp = NewPathAttributeAsPath([]AsPathParamInterface{NewAs4PathParam(BGP_ASPATH_ATTR_TYPE_SEQ, []uint32{vU32("as")})})
	}
	attrs := []PathAttributeInterface{NewPathAttributeOrigin(vU8("org") % 3), asp, nh, NewPathAttributeMultiExitDisc(vU32("med"))}
	msg := NewBGPUpdateMessage([]PathNLRI{{NLRI: w1, ID: vU32("wid")}}, attrs, []PathNLRI{{NLRI: n1, ID: vU32("nid")}, {NLRI: n2, ID: 7}})
	b, err := msg.Serialize(tx)
	vAssert(err == nil, "constructed UPDATE cannot be serialised")
	vAssert(int(b[16])<<8|int(b[17]) == len(b) && b[18] == BGP_MSG_UPDATE, "header length/type differ from the bytes emitted")
	ok, nwd, nattr, nnlri := c04frame(b[19:], addpath)
	vAssert(ok && nwd == 1 && nattr == 4 && nnlri == 2, "emitted UPDATE is mis-framed under the RFC 4271/7911 rules")
	got, err := ParseBGPMessage(b, rx)
	vAssert(err == nil, "own UPDATE encoding rejected under the same session options")
	u := got.Body.(*BGPUpdate)
	vAssert(len(u.WithdrawnRoutes) == 1 && len(u.PathAttributes) == 4 && len(u.NLRI) == 2, "UPDATE element counts changed")
	vAssert(u.WithdrawnRoutes[0].NLRI.(*IPAddrPrefix).Prefix == w1.Prefix && u.NLRI[0].NLRI.(*IPAddrPrefix).Prefix == n1.Prefix, "prefix changed by the round trip")
	if addpath {
		vAssert(u.WithdrawnRoutes[0].ID == msg.Body.(*BGPUpdate).WithdrawnRoutes[0].ID && u.NLRI[0].ID == msg.Body.(*BGPUpdate).NLRI[0].ID && u.NLRI[1].ID == 7, "path id changed by the round trip")
	}
	got.Header.Len = 0
	b2, err := got.Serialize(tx)
	vAssert(err == nil && c04eqBytes(b, b2), "re-serialising the parsed UPDATE is not a fixpoint")
	vReach("end")
}

// MP_REACH / MP_UNREACH for IPv6 unicast under asymmetric ADD-PATH modes
func VH_c04_mp() {
	mode := vChoice("mode", 3) // 0 none, 1 we send path ids, 2 we receive path ids only
	tx, rx := &MarshallingOption{}, &MarshallingOption{}
	switch mode {
	case 1:
		tx.AddPath = map[Family]BGPAddPathMode{RF_IPv6_UC: BGP_ADD_PATH_SEND}
		rx.AddPath = map[Family]BGPAddPathMode{RF_IPv6_UC: BGP_ADD_PATH_RECEIVE}
	case 2: // we only receive: what we send carries no path ids and the peer does not expect any
		tx.AddPath = map[Family]BGPAddPathMode{RF_IPv6_UC: BGP_ADD_PATH_RECEIVE}
		rx.AddPath = map[Family]BGPAddPathMode{RF_IPv6_UC: BGP_ADD_PATH_SEND}
	}
	bits := []int{0, 1, 16, 17, 63, 64}[vChoice("bits", 6)]
	p, _ := netip.AddrFrom16([16]byte{0x20, 0x01, vU8("a"), vU8("a")}).Prefix(bits)
	n, _ := NewIPAddrPrefix(p)
	id := vU32("id")
	reach, err := NewPathAttributeMpReachNLRI(RF_IPv6_UC, []PathNLRI{{NLRI: n, ID: id}}, netip.AddrFrom16([16]byte{0x20, 0x01, 15: 1}))
	vAssert(err == nil, "MP_REACH rejected")
	unreach, err := NewPathAttributeMpUnreachNLRI(RF_IPv6_UC, []PathNLRI{{NLRI: n, ID: id}})
	vAssert(err == nil, "MP_UNREACH rejected")
	lenOK := true
	for k, a := range []PathAttributeInterface{reach, unreach} {
		b, err := a.Serialize(tx)
		vAssert(err == nil, "constructed MP attribute cannot be serialised")
		if mode != 1 {
			vAssert(a.Len(tx) == len(b), "MP attribute Len() differs from the bytes it emits")
		} else if a.Len(tx) != len(b) {
			lenOK = false
		}
		d, _ := GetPathAttribute(b)
		vAssert(int(b[2]) == len(b)-3 && b[0]&0x10 == 0, "MP attribute length octet does not cover the value")
		vAssert(d.DecodeFromBytes(b, rx) == nil, "own MP attribute encoding rejected under the same session options")
		var v []PathNLRI
		if k == 0 {
			v = d.(*PathAttributeMpReachNLRI).Value
		} else {
			v = d.(*PathAttributeMpUnreachNLRI).Value
		}
		vAssert(len(v) == 1 && v[0].NLRI.(*IPAddrPrefix).Prefix == p, "MP NLRI changed by the round trip")
		if mode == 1 {
			vAssert(v[0].ID == id, "MP path id changed by the round trip")
		}
		vAssert(d.Len(rx) == len(b), "decoded MP attribute Len() differs from the bytes consumed")
	}
	vReach("end")
	// last, because it is a recorded finding on the unchanged tree (known_findings.json):
	if !c04mpDirectionOnly {
		vAssert(lenOK, "constructed MP attribute Len() does not count the ADD-PATH path identifiers it emits")
	}
}

// C08 (emitted under exactly the negotiated options): the same round trip, deciding only the ADD-PATH
// direction of MP_REACH / MP_UNREACH; the Len() bookkeeping is C04's subject (recorded finding there)
var c04mpDirectionOnly bool

func VH_c08_mp_direction() {
	c04mpDirectionOnly = true
	VH_c04_mp()
}

func VH_c04_open() {
	var caps []ParameterCapabilityInterface
	switch vChoice("cap", 9) {
	case 0:
		caps = append(caps, NewCapMultiProtocol(NewFamily(vU16("afi"), vU8("safi"))))
	case 1:
		caps = append(caps, NewCapRouteRefresh(), NewCapEnhancedRouteRefresh(), NewCapExtendedMessage(), NewCapRouteRefreshCisco())
	case 2:
		caps = append(caps, NewCapFourOctetASNumber(vU32("as4")))
	case 3:
		caps = append(caps, NewCapAddPath([]*CapAddPathTuple{NewCapAddPathTuple(NewFamily(vU16("afi"), vU8("safi")), BGPAddPathMode(vU8("mode"))), NewCapAddPathTuple(RF_IPv4_UC, BGP_ADD_PATH_BOTH)}))
	case 4:
		caps = append(caps, NewCapGracefulRestart(vBool("r"), vBool("n"), vU16("time")&0xfff, []*CapGracefulRestartTuple{NewCapGracefulRestartTuple(NewFamily(vU16("afi"), vU8("safi")), vBool("fwd"))}))
	case 5:
		caps = append(caps, NewCapLongLivedGracefulRestart([]*CapLongLivedGracefulRestartTuple{NewCapLongLivedGracefulRestartTuple(NewFamily(vU16("afi"), vU8("safi")), vBool("fwd"), vU32("rt")&0xffffff)}))
	case 6:
		caps = append(caps, NewCapExtendedNexthop([]*CapExtendedNexthopTuple{NewCapExtendedNexthopTuple(NewFamily(vU16("afi"), vU8("safi")), vU16("nh"))}))
	case 7:
		caps = append(caps, NewCapFQDN("host", "example.net"), NewCapSoftwareVersion("gobgp-x"))
	default:
		caps = append(caps, NewCapUnknown(BGPCapabilityCode(200+vU8("code")%50), []byte{vU8("v"), vU8("v")}))
	}
	for _, c := range caps {
		cb, err := c.Serialize()
		vAssert(err == nil && c.Len() == len(cb), "capability Len() differs from the bytes it emits")
	}
	id := netip.AddrFrom4([4]byte{vU8("id"), vU8("id"), vU8("id"), vU8("id")})
	msg, err := NewBGPOpenMessage(vU16("as"), vU16("hold"), id, []OptionParameterInterface{NewOptionParameterCapability(caps)})
	vAssert(err == nil, "OPEN rejected")
	b, err := msg.Serialize()
	vAssert(err == nil && int(b[16])<<8|int(b[17]) == len(b), "OPEN header length differs from the bytes emitted")
	got, err := ParseBGPMessage(b)
	vAssert(err == nil, "own OPEN encoding rejected")
	o := got.Body.(*BGPOpen)
	vAssert(o.Version == 4 && o.ID == id && len(o.OptParams) == 1, "OPEN fields changed by the round trip")
	pc := o.OptParams[0].(*OptionParameterCapability)
	vAssert(len(pc.Capability) == len(caps), "capability count changed by the round trip")
	for i := range caps {
		vAssert(pc.Capability[i].Code() == caps[i].Code() && pc.Capability[i].Len() == caps[i].Len(), "capability changed by the round trip")
		vAssert(c04sameCap(caps[i], pc.Capability[i]), "a capability's field values changed by the round trip")
	}
	got.Header.Len = 0
	b2, err := got.Serialize()
	vAssert(err == nil && c04eqBytes(b, b2), "re-serialising the parsed OPEN is not a fixpoint")
	vReach("end")
}

// field-by-field equality of the capability kinds with numeric fields (true for the others: their
// bytes are compared by the fixpoint check)
func c04sameCap(a, b ParameterCapabilityInterface) bool {
	switch x := a.(type) {
	case *CapMultiProtocol:
		y, ok := b.(*CapMultiProtocol)
		return ok && x.CapValue == y.CapValue
	case *CapFourOctetASNumber:
		y, ok := b.(*CapFourOctetASNumber)
		return ok && x.CapValue == y.CapValue
	case *CapAddPath:
		y, ok := b.(*CapAddPath)
		if !ok || len(x.Tuples) != len(y.Tuples) {
			return false
		}
		for i := range x.Tuples {
			if *x.Tuples[i] != *y.Tuples[i] {
				return false
			}
		}
	case *CapGracefulRestart:
		y, ok := b.(*CapGracefulRestart)
		if !ok || x.Flags != y.Flags || x.Time != y.Time || len(x.Tuples) != len(y.Tuples) {
			return false
		}
		for i := range x.Tuples {
			if *x.Tuples[i] != *y.Tuples[i] {
				return false
			}
		}
	case *CapLongLivedGracefulRestart:
		y, ok := b.(*CapLongLivedGracefulRestart)
		if !ok || len(x.Tuples) != len(y.Tuples) {
			return false
		}
		for i := range x.Tuples {
			if *x.Tuples[i] != *y.Tuples[i] {
				return false
			}
		}
	case *CapExtendedNexthop:
		y, ok := b.(*CapExtendedNexthop)
		if !ok || len(x.Tuples) != len(y.Tuples) {
			return false
		}
		for i := range x.Tuples {
			if *x.Tuples[i] != *y.Tuples[i] {
				return false
			}
		}
	}
	return true
}

func VH_c04_notification_refresh() {
	data := []byte{vU8("d"), vU8("d"), vU8("d")}
	n := NewBGPNotificationMessage(vU8("code"), vU8("sub"), data[:vInt("n", 0, 3)])
	b, err := n.Serialize()
	vAssert(err == nil && int(b[16])<<8|int(b[17]) == len(b), "NOTIFICATION header length differs from the bytes emitted")
	got, err := ParseBGPMessage(b)
	vAssert(err == nil, "own NOTIFICATION encoding rejected")
	g := got.Body.(*BGPNotification)
	o := n.Body.(*BGPNotification)
	vAssert(g.ErrorCode == o.ErrorCode && g.ErrorSubcode == o.ErrorSubcode && c04eqBytes(g.Data, o.Data), "NOTIFICATION changed by the round trip")
	r := NewBGPRouteRefreshMessage(vU16("afi"), vU8("dem"), vU8("safi"))
	rb, err := r.Serialize()
	vAssert(err == nil && len(rb) == 23, "ROUTE-REFRESH is not 23 octets")
	rg, err := ParseBGPMessage(rb)
	vAssert(err == nil, "own ROUTE-REFRESH encoding rejected")
	x, y := rg.Body.(*BGPRouteRefresh), r.Body.(*BGPRouteRefresh)
	vAssert(x.AFI == y.AFI && x.SAFI == y.SAFI && x.Demarcation == y.Demarcation, "ROUTE-REFRESH changed by the round trip")
	k := NewBGPKeepAliveMessage()
	kb, _ := k.Serialize()
	vAssert(len(kb) == 19, "KEEPALIVE is not 19 octets")
	vReach("end")
}

// bytes -> parse -> serialise -> parse is a fixpoint for every accepted UPDATE body (short bodies)
func VH_c04_fixpoint_update() {
	buf := vBytes("upd", vParam("n"), 0)
	opt := &MarshallingOption{}
	if vBool("addpath") {
		opt.AddPath = map[Family]BGPAddPathMode{RF_IPv4_UC: BGP_ADD_PATH_BOTH}
	}
	m := &BGPUpdate{}
	if m.DecodeFromBytes(buf, opt) != nil {
		return
	}
	b1, err := m.Serialize(opt)
	vAssert(err == nil, "accepted UPDATE cannot be re-serialised")
	m2 := &BGPUpdate{}
	vAssert(m2.DecodeFromBytes(b1, opt) == nil, "re-serialised UPDATE is rejected by the parser")
	b2, err := m2.Serialize(opt)
	vAssert(err == nil && c04eqBytes(b1, b2), "parse/serialise is not a fixpoint")
	vAssert(len(m.NLRI) == len(m2.NLRI) && len(m.WithdrawnRoutes) == len(m2.WithdrawnRoutes) && len(m.PathAttributes) == len(m2.PathAttributes), "element counts changed through serialise/parse")
	vReach("end")
}

// C04 (MP_REACH next hops): every next-hop shape the constructor accepts for IPv6 unicast, labelled
// and VPN families - one global address, or global plus link-local - serialises to bytes the decoder
// accepts and that carry the same next hops and NLRI; Len() equals the bytes emitted.
func VH_c04_mp_nexthops() {
	g := netip.AddrFrom16([16]byte{0x20, 0x01, 0x0d, 0xb8, vU8("g"), 15: 1})
	ll := netip.AddrFrom16([16]byte{0xfe, 0x80, 14: vU8("l"), 15: 2})
	nhs := []netip.Addr{g}
	if vBool("with_link_local") {
		nhs = append(nhs, ll)
	}
	var fam Family
	var n NLRI
	pfx := netip.MustParsePrefix("2001:db8:1::/48")
	switch vChoice("family", 3) {
	case 0:
		fam = RF_IPv6_UC
		n, _ = NewIPAddrPrefix(pfx)
	case 1:
		fam = RF_IPv6_MPLS
		n, _ = NewLabeledIPAddrPrefix(pfx, *NewMPLSLabelStack(vU32("label") & 0xfffff))
	default:
		fam = RF_IPv6_VPN
		n, _ = NewLabeledVPNIPAddrPrefix(pfx, *NewMPLSLabelStack(vU32("label") & 0xfffff), NewRouteDistinguisherTwoOctetAS(vU16("rd_admin"), vU32("rd_assigned")))
	}
	vAssume(n != nil)
	reach, err := NewPathAttributeMpReachNLRI(fam, []PathNLRI{{NLRI: n}}, nhs...)
	vAssume(err == nil)
	b, err := reach.Serialize()
	vAssert(err == nil, "constructed MP_REACH cannot be serialised")
	if err != nil {
		return
	}
	vAssert(reach.Len() == len(b), "MP_REACH Len() differs from the bytes it emits")
	d, _ := GetPathAttribute(b)
	vAssert(d.DecodeFromBytes(b) == nil, "own MP_REACH encoding rejected by the decoder")
	back, ok := d.(*PathAttributeMpReachNLRI)
	if !ok {
		return
	}
	vAssert(back.Nexthop == g, "the global next hop changed in the round trip")
	if len(nhs) == 2 {
		vAssert(back.LinkLocalNexthop == ll, "the link-local next hop was lost or changed in the round trip")
	}
	nb, _ := n.Serialize()
	vAssert(len(back.Value) == 1, "MP_REACH NLRI lost in the round trip")
	if len(back.Value) == 1 {
		bb, _ := back.Value[0].NLRI.Serialize()
		vAssert(c04eqBytes(nb, bb), "MP_REACH NLRI changed in the round trip")
	}
	b2, _ := back.Serialize()
	vAssert(c04eqBytes(b, b2), "re-serialising the parsed MP_REACH is not a fixpoint")
	vReach("end")
}

// C04 (AS-specific extended communities): two- and four-octet AS specific communities, transitive
// or not, with symbolic sub-type, AS and local administrator: the type octet on the wire is the one
// GetTypes reports and the value parses back to an equal community of the same kind.
func VH_c04_ext_as_specific() {
	trans := vBool("transitive")
	sub := ExtendedCommunityAttrSubType(vU8("subtype"))
	vAssume(sub == EC_SUBTYPE_ROUTE_TARGET || sub == EC_SUBTYPE_ROUTE_ORIGIN) // sub-types without a more specific registered decoder
	var ec ExtendedCommunityInterface
	four := vBool("four_octet_as")
	if four {
		ec = NewFourOctetAsSpecificExtended(sub, vU32("as"), vU16("local"), trans)
	} else {
		ec = NewTwoOctetAsSpecificExtended(sub, vU16("as16"), vU32("local32"), trans)
	}
	b, err := ec.Serialize()
	vAssert(err == nil && len(b) == 8, "an AS-specific extended community does not serialise to 8 octets")
	if err != nil || len(b) != 8 {
		return
	}
	t, s := ec.GetTypes()
	vAssert(b[0] == byte(t) && b[1] == byte(s), "the type / sub-type octets on the wire differ from GetTypes()")
	back, err := ParseExtended(b)
	vAssert(err == nil && back != nil, "own extended community encoding rejected")
	if err != nil || back == nil {
		return
	}
	if four {
		x, ok := back.(*FourOctetAsSpecificExtended)
		vAssert(ok && x.AS == ec.(*FourOctetAsSpecificExtended).AS && x.LocalAdmin == ec.(*FourOctetAsSpecificExtended).LocalAdmin && x.IsTransitive == trans, "a four-octet AS specific community does not parse back to itself")
	} else {
		x, ok := back.(*TwoOctetAsSpecificExtended)
		vAssert(ok && x.AS == ec.(*TwoOctetAsSpecificExtended).AS && x.LocalAdmin == ec.(*TwoOctetAsSpecificExtended).LocalAdmin && x.IsTransitive == trans, "a two-octet AS specific community does not parse back to itself")
	}
	vReach("end")
}
