package bgp

// C05: no byte string can crash, hang or over-read the BGP message parser; every returned value
// can be measured and re-serialised. Inputs are vBytes buffers (symbolic content, symbolic length,
// stale bytes between len and cap that must never be read).

func c05opts() *MarshallingOption {
	o := &MarshallingOption{Use2ByteAS: vBool("as2"), ExtendedMessage: vBool("ext")}
	if vBool("addpath") {
		o.AddPath = map[Family]BGPAddPathMode{RF_IPv4_UC: BGP_ADD_PATH_RECEIVE, RF_IPv6_UC: BGP_ADD_PATH_RECEIVE}
	}
	return o
}

func VH_c05_header() {
	buf := vBytes("msg", vParam("n"), 4)
	h := &BGPHeader{}
	err := h.DecodeFromBytes(buf)
	if err == nil {
		vAssert(h.Len >= 19, "accepted header with length < 19")
		out, _ := h.Serialize()
		vAssert(len(out) == 19 && out[18] == buf[18] && out[16] == buf[16] && out[17] == buf[17], "header re-serialisation differs")
		vReach("ok")
	}
	vReach("end")
}

func VH_c05_capability() {
	buf := vBytes("cap", vParam("n"), 4)
	c, err := DecodeCapability(buf)
	if err == nil {
		n := c.Len()
		out, serr := c.Serialize()
		vAssert(serr == nil, "decoded capability cannot be serialised")
		// Len() is what the OPEN decoder advances by: it must stay inside the data. (A capability
		// with trailing bytes re-serialises canonically, so Len()==len(out) is only asserted for
		// constructed values, under C04.)
		vAssert(n >= 2 && n <= len(buf), "capability Len() outside the data it was decoded from")
		vAssert(len(out) >= 2 && len(out) <= n, "re-serialised capability longer than the input it was decoded from")
		vReach("ok")
	}
	vReach("end")
}

func VH_c05_open() {
	buf := vBytes("open", vParam("n"), 4)
	m := &BGPOpen{}
	err := m.DecodeFromBytes(buf)
	if err == nil {
		_, serr := m.Serialize()
		vAssert(serr == nil, "decoded OPEN cannot be serialised")
		vReach("ok")
	}
	vReach("end")
}

// whole-message entry with the type pinned by the harness instance
func c05message(typ uint8, body int) {
	buf := vBytes("msg", 19+body, 4)
	vAssume(len(buf) >= 19)
	for i := 0; i < 16; i++ {
		vAssume(buf[i] == 0xff)
	}
	vAssume(buf[18] == typ)
	m, err := ParseBGPMessage(buf, c05opts())
	if m != nil && m.Body != nil {
		if err == nil {
			vReach("ok")
		}
		_, _ = m.Serialize()
	}
	vReach("end")
}

func VH_c05_msg_open()         { c05message(BGP_MSG_OPEN, vParam("n")) }
func VH_c05_msg_notification() { c05message(BGP_MSG_NOTIFICATION, vParam("n")) }
func VH_c05_msg_keepalive()    { c05message(BGP_MSG_KEEPALIVE, vParam("n")) }
func VH_c05_msg_routerefresh() { c05message(BGP_MSG_ROUTE_REFRESH, vParam("n")) }
func VH_c05_msg_unknown() {
	buf := vBytes("msg", 19+vParam("n"), 4)
	vAssume(len(buf) >= 19)
	vAssume(buf[18] == 0 || buf[18] > 5)
	m, err := ParseBGPMessage(buf)
	vAssert(m == nil && err != nil, "message of unknown type accepted")
	vReach("end")
}

// body entry: header given separately (what the receive loop does)
func VH_c05_body() {
	h := &BGPHeader{Len: vU16("hlen"), Type: vU8("htype")}
	vAssume(h.Type != BGP_MSG_UPDATE && h.Type != BGP_MSG_OPEN) // those have their own harnesses
	buf := vBytes("body", vParam("n"), 4)
	m, err := ParseBGPBody(h, buf, c05opts())
	if err == nil {
		_, _ = m.Serialize()
		vReach("ok")
	}
	vReach("end")
}

// ---- UPDATE, sectioned (DESIGN 4/C05): each harness makes one of the three loops fully symbolic ----

func c05afterUpdate(m *BGPUpdate, err error, opt *MarshallingOption) {
	// the daemon goes on to use a message returned with a non-fatal error
	fatal := false
	if err != nil {
		if me, ok := err.(*MessageError); ok {
			fatal = me.ErrorHandling == ERROR_HANDLING_SESSION_RESET || me.ErrorHandling == ERROR_HANDLING_AFISAFI_DISABLE
		} else {
			fatal = true
		}
	}
	if fatal {
		return
	}
	for _, a := range m.PathAttributes {
		_ = a.Len(opt)
		_ = a.GetType()
		_ = a.GetFlags()
	}
	for _, n := range m.NLRI {
		_ = n.NLRI.Len(opt)
	}
	for _, n := range m.WithdrawnRoutes {
		_ = n.NLRI.Len(opt)
	}
	_, _ = m.Serialize(opt)
	// ... and validates it (recvMessageloop runs ValidateUpdateMsg on every UPDATE that does not reset
	// the session, also after a discard / treat-as-withdraw class decode error)
	_, _ = ValidateUpdateMsg(m, map[Family]BGPAddPathMode{RF_IPv4_UC: BGP_ADD_PATH_NONE, RF_IPv6_UC: BGP_ADD_PATH_NONE}, vBool("ebgp"), false, false)
	if err == nil {
		vReach("ok")
	} else {
		vReach("nonfatal")
	}
}

func VH_c05_upd_withdrawn() {
	n := vParam("n")
	buf := vBytes("upd", 4+n, 4)
	vAssume(len(buf) >= 4)
	wlen := int(buf[0])<<8 | int(buf[1])
	vAssume(len(buf) == 4+wlen)
	vAssume(buf[2+wlen] == 0 && buf[3+wlen] == 0)
	opt := c05opts()
	m := &BGPUpdate{}
	err := m.DecodeFromBytes(buf, opt)
	c05afterUpdate(m, err, opt)
	vReach("end")
}

func VH_c05_upd_nlri() {
	n := vParam("n")
	buf := vBytes("upd", 4+n, 4)
	vAssume(len(buf) >= 4)
	vAssume(buf[0] == 0 && buf[1] == 0 && buf[2] == 0 && buf[3] == 0)
	opt := c05opts()
	m := &BGPUpdate{}
	err := m.DecodeFromBytes(buf, opt)
	c05afterUpdate(m, err, opt)
	vReach("end")
}

// exactly one attribute of a pinned type code whose own length field fills the attribute area; no
// withdrawn routes, no NLRI. optmask selects which session options are symbolic for this type
// (1 = 2-octet AS, 2 = ADD-PATH): the others do not reach the attribute's decoder.
func c05updAttr(typ uint8, optmask int) {
	area := vParam("n")
	buf := vBytes("upd", 4+area, 4)
	vAssume(len(buf) >= 4+3)
	vAssume(buf[0] == 0 && buf[1] == 0)
	alen := int(buf[2])<<8 | int(buf[3])
	vAssume(len(buf) == 4+alen)
	vAssume(buf[5] == typ)
	// the attribute's own length field covers at least the rest of the area: exact fill or any
	// over-long declared length (so no second attribute follows; the pair harness covers that)
	if buf[4]&0x10 != 0 { // extended length
		vAssume(alen >= 4 && int(buf[6])<<8|int(buf[7]) >= alen-4)
	} else {
		vAssume(int(buf[6]) >= alen-3)
	}
	opt := &MarshallingOption{}
	if optmask&1 != 0 {
		opt.Use2ByteAS = vBool("as2")
	}
	if optmask&2 != 0 && vBool("addpath") {
		opt.AddPath = map[Family]BGPAddPathMode{RF_IPv4_UC: BGP_ADD_PATH_RECEIVE, RF_IPv6_UC: BGP_ADD_PATH_RECEIVE}
	}
	m := &BGPUpdate{}
	err := m.DecodeFromBytes(buf, opt)
	c05afterUpdate(m, err, opt)
	vReach("end")
}

// two attributes back to back with free types: the hand-over between attributes
func VH_c05_upd_attr_pair() {
	area := vParam("n")
	buf := vBytes("upd", 4+area, 4)
	vAssume(len(buf) >= 4+3)
	vAssume(buf[0] == 0 && buf[1] == 0)
	alen := int(buf[2])<<8 | int(buf[3])
	vAssume(len(buf) == 4+alen)
	vAssume(buf[4]&0x10 == 0 && int(buf[6]) <= 1) // first attribute: short, value of 0..1 bytes
	vAssume(buf[5] == 1 || buf[5] == 6 || buf[5] == 250)
	second := 7 + int(buf[6])
	if len(buf) > second-2 {
		t2 := buf[second-2]
		vAssume(t2 == 1 || t2 == 4 || t2 == 6 || t2 == 8 || t2 == 250)
	}
	opt := &MarshallingOption{}
	m := &BGPUpdate{}
	err := m.DecodeFromBytes(buf, opt)
	c05afterUpdate(m, err, opt)
	vReach("end")
}

func VH_c05_upd_attr_origin()      { c05updAttr(1, 0) }
func VH_c05_upd_attr_aspath()      { c05updAttr(2, 1) }
func VH_c05_upd_attr_nexthop()     { c05updAttr(3, 0) }
func VH_c05_upd_attr_med()         { c05updAttr(4, 0) }
func VH_c05_upd_attr_localpref()   { c05updAttr(5, 0) }
func VH_c05_upd_attr_atomic()      { c05updAttr(6, 0) }
func VH_c05_upd_attr_aggregator()  { c05updAttr(7, 1) }
func VH_c05_upd_attr_communities() { c05updAttr(8, 0) }
func VH_c05_upd_attr_originator()  { c05updAttr(9, 0) }
func VH_c05_upd_attr_clusterlist() { c05updAttr(10, 0) }
func VH_c05_upd_attr_mpreach()     { c05updAttr(14, 2) }
func VH_c05_upd_attr_mpunreach()   { c05updAttr(15, 2) }
func VH_c05_upd_attr_extcomm()     { c05updAttr(16, 0) }
func VH_c05_upd_attr_as4path()     { c05updAttr(17, 1) }
func VH_c05_upd_attr_as4aggr()     { c05updAttr(18, 1) }
func VH_c05_upd_attr_pmsi()        { c05updAttr(22, 0) }
func VH_c05_upd_attr_tunnelencap() { c05updAttr(23, 0) }
func VH_c05_upd_attr_ip6extcomm()  { c05updAttr(25, 0) }
func VH_c05_upd_attr_aigp()        { c05updAttr(26, 0) }
func VH_c05_upd_attr_ls()          { c05updAttr(29, 0) }
func VH_c05_upd_attr_largecomm()   { c05updAttr(32, 0) }
func VH_c05_upd_attr_prefixsid()   { c05updAttr(40, 0) }
func VH_c05_upd_attr_unknown()     { c05updAttr(250, 0) }

// all three sections free, short total: covers the hand-over arithmetic between the loops
func VH_c05_upd_all() {
	buf := vBytes("upd", vParam("n"), 4)
	opt := c05opts()
	m := &BGPUpdate{}
	err := m.DecodeFromBytes(buf, opt)
	c05afterUpdate(m, err, opt)
	vReach("end")
}

// per-family NLRI entry point for the FlowSpec families (bgp.NLRIFromSlice): every buffer up to n
// octets either decodes or is refused - within the unwinding bound, i.e. the component loop makes
// progress on every input (a component that reports a zero length would never be passed) - and a
// decoded NLRI can be measured and serialised.
func VH_c05_nlri_flowspec() {
	fam := []Family{RF_FS_IPv4_UC, RF_FS_IPv6_UC, RF_FS_IPv4_VPN, RF_FS_L2_VPN}[vParam("family")]
	buf := vBytes("nlri", vParam("n"), 4)
	n, err := NLRIFromSlice(fam, buf)
	if err == nil {
		vAssert(n != nil, "NLRIFromSlice returned neither a value nor an error")
		_ = n.Len()
		_, _ = n.Serialize()
		vReach("ok")
	}
	vReach("end")
}
