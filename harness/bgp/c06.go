package bgp

import "net/netip"

// C06: malformed UPDATEs are contained. A valid base UPDATE (ORIGIN, AS_PATH, NEXT_HOP, MED, one NLRI)
// is serialised by the real encoder, then up to two faults from a catalogue are injected at the
// byte level with symbolic parameters. Decoding + validation must report the strongest handling
// class any injected fault calls for under RFC 7606 / RFC 4271 (table written here, independent of
// getErrorHandlingFromPathAttribute), and an attribute that failed with discard class must not
// remain in the message.

const (
	c06none = iota
	c06originValue
	c06originLength
	c06originFlags
	c06nexthopValue
	c06aspathSegType
	c06medLength
	c06dupMed
	c06missingNexthop
	c06aggregatorLength
	c06atomicWithValue
	c06unknownWellKnown
	c06totalLenOverrun
	c06prefixLen
	c06confedSegment
	c06communitiesLength
	c06nexthopLength
	c06aspathOverrun
	c06withdrawnLenOverrun
	c06missingAsPath
	c06missingOrigin
	c06medPartial
	c06nFaults
)

// the class RFC 7606 (sections 3, 7) / RFC 4271 (6.3) assigns to each fault
func c06class(f int, ebgp bool) ErrorHandling {
	switch f {
	case c06none:
		return ERROR_HANDLING_NONE
	case c06originValue, c06originLength, c06originFlags, c06nexthopValue, c06aspathSegType, c06medLength, c06missingNexthop,
		c06communitiesLength, c06nexthopLength, c06aspathOverrun, c06missingAsPath, c06missingOrigin, c06medPartial:
		return ERROR_HANDLING_TREAT_AS_WITHDRAW
	case c06dupMed, c06aggregatorLength, c06atomicWithValue:
		return ERROR_HANDLING_ATTRIBUTE_DISCARD
	case c06confedSegment:
		if ebgp {
			return ERROR_HANDLING_TREAT_AS_WITHDRAW
		}
		return ERROR_HANDLING_NONE
	default: // unknown well-known attribute, framing errors: the session cannot go on
		return ERROR_HANDLING_SESSION_RESET
	}
}

type c06msg struct {
	attrs [][]byte // one byte string per attribute
	nlri  []byte
	extra int // added to the total attribute length field
	wextra int // the withdrawn routes length field points this far beyond the end of the message
}

func c06build() *c06msg {
	nh, _ := NewPathAttributeNextHop(netip.AddrFrom4([4]byte{10, 0, 0, 1}))
	base := []PathAttributeInterface{
		NewPathAttributeOrigin(vU8("origin") % 3),
		NewPathAttributeAsPath([]AsPathParamInterface{NewAs4PathParam(BGP_ASPATH_ATTR_TYPE_SEQ, []uint32{vU32("as")})}),
		nh,
		NewPathAttributeMultiExitDisc(vU32("med")),
	}
	m := &c06msg{nlri: []byte{16, 10, vU8("nlri")}}
	for _, a := range base {
		b, _ := a.Serialize()
		m.attrs = append(m.attrs, b)
	}
	if vBool("with_mp_reach") { // the same UPDATE may also carry IPv6 reachability
		p6, _ := NewIPAddrPrefix(netip.PrefixFrom(netip.AddrFrom16([16]byte{0x20, 0x01, 0xd, 0xb8}), 32))
		mp, _ := NewPathAttributeMpReachNLRI(RF_IPv6_UC, []PathNLRI{{NLRI: p6}}, netip.AddrFrom16([16]byte{0x20, 0x01, 15: 1}))
		b, _ := mp.Serialize()
		m.attrs = append(m.attrs, b)
	}
	return m
}

func (m *c06msg) inject(f int) {
	switch f {
	case c06originValue:
		v := vU8("bad_origin")
		vAssume(v > 2)
		m.attrs[0][3] = v
	case c06originLength:
		m.attrs[0] = append(m.attrs[0], vU8("extra_origin_byte"))
		m.attrs[0][2] = 2
	case c06originFlags:
		m.attrs[0][0] |= 0x80 // well-known attribute marked optional
	case c06nexthopValue:
		b := vU8("bad_nh")
		vAssume(b == 0 || b >= 224)
		m.attrs[2][3] = b
	case c06aspathSegType:
		t := vU8("bad_segtype")
		vAssume(t == 0 || t > 4)
		m.attrs[1][3] = t
	case c06medLength:
		m.attrs[3] = m.attrs[3][:6]
		m.attrs[3][2] = 3
	case c06dupMed:
		m.attrs = append(m.attrs, append([]byte(nil), m.attrs[3]...))
	case c06missingNexthop:
		m.attrs = append(m.attrs[:2:2], m.attrs[3:]...)
	case c06aggregatorLength:
		m.attrs = append(m.attrs, []byte{0xc0, 7, 5, 0, 1, 10, 0, 0})
	case c06atomicWithValue:
		m.attrs = append(m.attrs, []byte{0x40, 6, 1, vU8("atomic_val")})
	case c06unknownWellKnown:
		m.attrs = append(m.attrs, []byte{0x40, 99, 1, 0})
	case c06totalLenOverrun:
		m.extra = 4 + int(vU8("overrun")&7) // beyond the end of the message (the NLRI field is 3 octets)
	case c06prefixLen:
		l := vU8("bad_plen")
		vAssume(l > 32)
		m.nlri[0] = l
	case c06confedSegment:
		m.attrs[1][3] = BGP_ASPATH_ATTR_TYPE_CONFED_SEQ
	case c06communitiesLength:
		n := 1 + vChoice("community_extra_bytes", 3) // length 4k+1..4k+3
		a := []byte{0xc0, 8, byte(4 + n), 0xfd, 0xe8, 0, 1}
		for i := 0; i < n; i++ {
			a = append(a, vU8("community_byte"))
		}
		m.attrs = append(m.attrs, a)
	case c06nexthopLength:
		if vBool("next_hop_too_long") {
			m.attrs[2] = append(m.attrs[2], vU8("next_hop_extra"))
			m.attrs[2][2] = 5
		} else {
			m.attrs[2] = m.attrs[2][:6]
			m.attrs[2][2] = 3
		}
	case c06aspathOverrun:
		c := vU8("segment_count")
		vAssume(c > 1) // the segment announces more members than the attribute holds
		m.attrs[1][4] = c
	case c06withdrawnLenOverrun:
		m.wextra = 1 + 200*vChoice("withdrawn_overrun", 2) // beyond the end of the message by 1 or 201 octets
	case c06missingAsPath:
		m.attrs = append(m.attrs[:1:1], m.attrs[2:]...)
	case c06missingOrigin:
		m.attrs = m.attrs[1:]
	case c06medPartial:
		// MED is optional non-transitive: the Partial bit must be 0 (RFC 4271 4.3); a flags error is
		// treat-as-withdraw (RFC 7606 3.c). MED is the last base attribute whatever was removed before.
		for i := range m.attrs {
			if m.attrs[i][1] == byte(BGP_ATTR_TYPE_MULTI_EXIT_DISC) {
				m.attrs[i][0] |= 0x20
			}
		}
	}
}

func (m *c06msg) bytes() []byte {
	var as []byte
	for _, a := range m.attrs {
		as = append(as, a...)
	}
	tl := len(as) + m.extra
	wl := 0
	if m.wextra > 0 {
		wl = len(as) + len(m.nlri) + 2 + m.wextra // more than everything that follows the field
	}
	out := []byte{byte(wl >> 8), byte(wl), byte(tl >> 8), byte(tl)}
	out = append(out, as...)
	return append(out, m.nlri...)
}

func c06handling(err error) ErrorHandling {
	if err == nil {
		return ERROR_HANDLING_NONE
	}
	if me, ok := err.(*MessageError); ok {
		if me.ErrorHandling == ERROR_HANDLING_AFISAFI_DISABLE {
			return ERROR_HANDLING_SESSION_RESET // the daemon maps it so
		}
		return me.ErrorHandling
	}
	return ERROR_HANDLING_SESSION_RESET
}

func c06compatible(f1, f2 int) bool {
	// two faults on the same bytes would overwrite each other; such pairs are not combined
	site := func(f int) int {
		switch f {
		case c06originValue, c06originLength, c06originFlags, c06missingOrigin:
			return 1
		case c06nexthopValue, c06missingNexthop, c06nexthopLength:
			return 2
		case c06aspathSegType, c06confedSegment, c06aspathOverrun, c06missingAsPath:
			return 3
		case c06medLength, c06dupMed, c06medPartial:
			return 4
		case c06totalLenOverrun, c06prefixLen, c06withdrawnLenOverrun:
			return 5
		}
		return 10 + f
	}
	return f1 == c06none || f2 == c06none || site(f1) != site(f2)
}

func VH_c06_strongest() {
	f1, f2 := vChoice("fault", c06nFaults), vChoice("fault", c06nFaults)
	if vParam("two") == 0 {
		f2 = c06none
	}
	vAssume(c06compatible(f1, f2) && f1 <= f2+c06nFaults*0) // unordered pairs once
	if f2 != c06none {
		vAssume(f1 < f2)
	}
	ebgp := vBool("ebgp")
	m := c06build()
	m.inject(f1)
	m.inject(f2)
	want := c06class(f1, ebgp)
	if c := c06class(f2, ebgp); c > want {
		want = c
	}
	u := &BGPUpdate{}
	derr := u.DecodeFromBytes(m.bytes(), &MarshallingOption{})
	got := c06handling(derr)
	if got < ERROR_HANDLING_SESSION_RESET {
		// the daemon validates what the decoder let through
		_, verr := ValidateUpdateMsg(u, map[Family]BGPAddPathMode{RF_IPv4_UC: BGP_ADD_PATH_NONE, RF_IPv6_UC: BGP_ADD_PATH_NONE}, ebgp, false, false)
		if h := c06handling(verr); h > got {
			got = h
		}
	}
	vAssert(got == want, "reaction to a malformed UPDATE differs from the strongest class its faults call for")
	if got == ERROR_HANDLING_NONE {
		vAssert(f1 == c06none && f2 == c06none || !ebgp, "a malformed UPDATE was accepted as well-formed")
		vReach("clean")
	}
	if got == ERROR_HANDLING_ATTRIBUTE_DISCARD {
		// what remains is well-formed: every attribute re-serialises and the malformed one is gone
		for _, a := range u.PathAttributes {
			_, serr := a.Serialize()
			vAssert(serr == nil, "an attribute kept after attribute-discard cannot be serialised")
			if f1 == c06aggregatorLength || f2 == c06aggregatorLength {
				vAssert(a.GetType() != BGP_ATTR_TYPE_AGGREGATOR, "a malformed AGGREGATOR was kept after attribute-discard")
			}
			if f1 == c06atomicWithValue || f2 == c06atomicWithValue {
				vAssert(a.GetType() != BGP_ATTR_TYPE_ATOMIC_AGGREGATE, "a malformed ATOMIC_AGGREGATE was kept after attribute-discard")
			}
		}
		n := 0
		for _, a := range u.PathAttributes {
			if a.GetType() == BGP_ATTR_TYPE_MULTI_EXIT_DISC {
				n++
			}
		}
		vAssert(n <= 1, "a duplicate attribute was kept")
		// the well-formed attributes of the base message are all still there
		for _, t := range []BGPAttrType{BGP_ATTR_TYPE_ORIGIN, BGP_ATTR_TYPE_AS_PATH, BGP_ATTR_TYPE_NEXT_HOP, BGP_ATTR_TYPE_MULTI_EXIT_DISC} {
			found := false
			for _, a := range u.PathAttributes {
				if a.GetType() == t {
					found = true
				}
			}
			vAssert(found, "a well-formed attribute was lost together with the discarded one")
		}
	}
	vReach("end")
}
